"""Regression corpus: protocol requests on which a past defect or seeded change made the implementation differ
from the model (built by tools/mkcorpus.py from the replays the checks wrote when they caught them). They run
FIRST in every check, tied to the model under a projection chosen by request type, so that detecting the return
of a known kind of breakage does not depend on the random stream."""
import os

from . import common, rock


def generic_proj(req):
    kind = req.split(' ', 1)[0]
    if kind == 'run':
        from .p_exec import proj_run
        return proj_run
    if kind == 'parse':
        def pp(r):
            f = r.split(' ')
            return 'err ' + f[2] if f[0] == 'err' and len(f) > 2 else r       # tree with positions / rejected on line n
        return pp
    if kind == 'lint':
        from .p_analysis import lint_proj
        return lint_proj
    return lambda r: r


def load(prop):
    path = os.path.join(common.VERIF, 'corpus', prop + '.txt')
    out = []
    if os.path.exists(path):
        origin = ''
        for line in open(path, encoding='utf-8'):
            line = line.rstrip('\n')
            if line.startswith('#'):
                origin = line[1:].strip()
            elif line:
                out.append((line, origin))
    return out


def run_corpus(run):
    entries = load(run.prop)
    if not entries:
        return
    reqs = [e[0] for e in entries]
    by_kind = {}
    for i, r in enumerate(reqs):
        by_kind.setdefault(r.split(' ', 1)[0], []).append(i)
    for kind, idx in by_kind.items():
        sub = [reqs[i] for i in idx]
        proj = generic_proj(sub[0])
        run.tie(sub, proj=proj, functional=True,
                desc=lambda j, idx=idx: {'corpus_request': reqs[idx[j]], 'origin': entries[idx[j]][1], 'section': 'regression corpus'})
        for i in idx:
            run.case(('corpus', reqs[i]), True, kind='regression-corpus')
    run.extra['regression_corpus'] = len(reqs)
