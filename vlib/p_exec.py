"""Interpreter checks: C03 C04 C05 C06 C07 C08 C09 C10 C14 C15."""
import copy
import struct

from . import common, rock, progs
from .common import hx, unhx
from .progs import num, st, v, sv, bin_, neg, not_, say, put, put_at, let, sub, call, MYST, NULL, TRUE, FALSE


def first_word(r):
    return r.split(' ', 1)[0] if r else ''


def framework_over_budget(r):
    return first_word(r) in ('fuel', 'resource', 'hang')


def run_req(src, stdin='', w='-', r='-', steps=20000):
    return 'run %s %s %s %s %d' % (hx(src), hx(stdin), w, r, steps)


def run_parts(resp):
    """(outcome class, detail, stdout bytes, reads)"""
    f = resp.split(' ')
    w = f[0]
    if w == 'ok':
        return 'ok', '', unhx(f[1]), int(f[2])
    if w == 'parseerr':
        return 'parseerr', f[1] + ' ' + f[2], unhx(f[3]), int(f[4])
    if w == 'rterr':
        return 'rterr', f[1], unhx(f[3]), int(f[4])
    if w in ('crash', 'fuel', 'resource') and len(f) >= 3:
        try:
            return w, '', unhx(f[-2]), int(f[-1])
        except Exception:
            return w, '', b'', 0
    return w, '', b'', 0


def proj_run(resp):
    """observables of a run: outcome class (ok / runtime error / parse error), stdout, lines read — neither the wording of
    an error nor the name of its internal error variant (no property fixes those: a refactoring may merge or rename them)"""
    c, d, out, reads = run_parts(resp)
    if c == 'parseerr':
        return (c, '', out, reads)
    return (c, '', out, reads)


BINOPS_VAL = ['plus', 'subtract', 'multiply', 'divide', 'equals', 'compare', 'index']
UNOPS_VAL = ['negate', 'truthy', 'out', 'display', 'pop']
OPWORD = {'plus': 'plus', 'subtract': 'minus', 'multiply': 'multiply', 'divide': 'divide'}


def big_repeat(a, b):
    """string x large number: stays out of the programs (allocation), the model answers `resource`"""
    if not (a.startswith('s') and b.startswith('#')):
        return False
    x = struct.unpack('<d', struct.pack('<Q', int(b[1:], 16)))[0]
    return x >= 1e6


# ----------------------------------------------------------------------------- C03

def c03(run):
    rng = run.rng
    U = progs.universe()
    run.rule = ('(i) the exhaustive ordered square of a %d-value universe (every kind; 0, -0, +-1, fractions, 1e300, NaN, '
                '+-inf; empty/numeric/padded strings; arrays empty, equal length, with dictionary part, nested) x 7 binary '
                'operations of the Val API + 5 unary + inc/dec +-1,+-2 + split/join/cast/round; (ii) random expression trees '
                '(depth <= 4, list operands, all operators) printed by `say` and used in every statement position; '
                'non-trivial = operands of different kinds, or a list operand / nested operator; distinct by request' % len(U))
    reqs = []
    meta = []
    for a in U:
        for b in U:
            for op in BINOPS_VAL:
                if op == 'multiply' and (big_repeat(a, b) or big_repeat(b, a)):
                    continue
                reqs.append('val %s %s %s' % (op, a, b))
                meta.append((op, a, b))
        for op in UNOPS_VAL:
            reqs.append('val %s %s' % (op, a))
            meta.append((op, a, None))
        for k in (1, -1, 2, -2, 3):
            reqs.append('val inc %s %d' % (a, k))
            meta.append(('inc', a, str(k)))
        for d in ('up', 'down', 'nearest'):
            reqs.append('val round %s %s' % (a, d))
            meta.append(('round', a, d))
    m, im = run.tie(reqs, functional=True, desc=lambda i: {'request': reqs[i]})
    for (op, a, b), r in zip(meta, im):
        if r is None:
            continue
        run.case((op, a, b), b is not None and a[0] != b[0], sample={'request': 'val %s %s %s' % (op, a, b), 'answer': r}
                 if rng.random() < 0.0003 else None, op=op)
        if first_word(r) in ('crash', 'hang', 'bad'):
            run.fail({'request': 'val %s %s %s' % (op, a, b), 'answer': r}, 'a value operation panics: ' + r[:40])
    run.extra['exhaustive'] = True
    # build / knock with SEVERAL steps in one statement is one addition of +-k (not k additions of +-1): every value, k = 2, 3, 5
    bk_src, bk_meta = [], []
    for a in U:
        for k in (2, 3, 5):
            for kw, kw2 in (('build', 'up'), ('knock', 'down')):
                stmts = progs.setup_value(a, sv('vv'))
                try:
                    text = progs.render(rng, [stmts], plain=True)
                except Exception:
                    continue
                text += '%s vv %s\nsay vv\n' % (kw, ', '.join([kw2] * k))
                bk_src.append(text); bk_meta.append((a, k, kw))
    bkm, bki = run.tie([run_req(t) for t in bk_src], proj=proj_run, functional=True, desc=lambda i: {'program': bk_src[i], 'section': 'multi-step build/knock'})
    for t in bk_src:
        run.case(('bk', t), True, op='build-knock-steps')
    # operands with an EFFECT (each operand rolls its own queue) in a list of three, for every operator: operands are evaluated left
    # to right, each exactly once, and none after the step that fails or short-circuits (the queues' lengths show which were)
    OPW = {'plus': 'plus', 'minus': 'minus', 'multiply': 'times', 'divide': 'over', 'less': '<', 'lesseq': '<=', 'greater': '>', 'greatereq': '>=',
           'and': 'and', 'or': 'or', 'nor': 'nor', 'eq': 'is', 'noteq': "ain't"}
    lits = ['1', '2', '0', '"s"', '""', 'true', 'false', 'nothing', 'mysterious', '"2"']
    eo_src = []
    for opn, opw in OPW.items():
        for _ in range(run.n(40, 700)):
            vals = [rng.choice(lits) for _ in range(4)]
            text = 'echo takes pp\nsay "evaluated"\ngive back pp\n\n' + ''.join('rock q%s with %s, 99\n' % ('abcd'[i], vals[i]) for i in range(4))
            # the LAST operand is a call that prints (a call's argument list would swallow later list elements, so only last)
            if opn in ('and', 'or', 'nor', 'eq', 'noteq'):
                expr = 'roll qa %s %s' % (opw, rng.choice(['roll qb', 'echo taking %s' % vals[1]]))      # (no list: the right operand may be skipped)
            else:
                expr = 'roll qa %s roll qb, roll qc, %s' % (opw, rng.choice(['roll qd', 'echo taking %s' % vals[3], 'echo taking %s' % vals[3]]))
            text += 'put 5 into rr\nsay "start"\nsay %s\n' % expr
            # a second program prints the queue lengths BEFORE the possibly failing expression cannot: lengths are printed by a
            # twin that evaluates the expression inside a function whose failure ends the run after the lengths were observed
            eo_src.append(text.replace('say "start"\nsay %s\n' % expr, 'say "start"\nput %s into rr\nsay "done"\nsay qa\nsay qb\nsay qc\nsay qd\n' % expr))
            eo_src.append(text)
    eom, eoi = run.tie([run_req(t) for t in eo_src], proj=proj_run, functional=True, desc=lambda i: {'program': eo_src[i], 'section': 'operand effects'})
    for t in eo_src:
        run.case(('eo', t), True, op='operand-effects')
    # (i') the number instance of the model itself: Display and FromStr of the model's f64 against Rust's,
    # on boundaries and random bit patterns (this validation is part of the trusted base, DESIGN §3.2)
    nb = run.n(3000, 60000)
    pats = [0, 1, 0x8000000000000000, 0x7ff0000000000000, 0xfff0000000000000, 0x7ff8000000000000, 0x000fffffffffffff,
            0x0010000000000000, 0x7fefffffffffffff, 0x3ff0000000000000, 0x3fb999999999999a, 0x4340000000000000, 0x433fffffffffffff]
    for e in range(0, 2047, 7):
        pats += [e << 52, (e << 52) | 1, (e << 52) | 0xfffffffffffff]
    while len(pats) < nb:
        pats.append(rng.getrandbits(64))
    freqs = ['fmt %016x' % b for b in pats]
    fm, fim = run.tie(freqs, functional=True, desc=lambda i: {'request': freqs[i]})
    texts_ = [unhx(r).decode() for r in fim if r and r.startswith('x')]
    extra_txt = ['1e5', '5.', '.5', '1E5', '+5', '-0', 'inf', 'nan', 'infinity', '1e400', '-1e-400', '2.4703282292062327e-324',
                 '2.4703282292062328e-324', '9007199254740993', '1.00000000000000011102230246251565404236316680908203125', '', '.', 'e5', '1e',
                 ' 1', '1 ', '1_0', '0x10', '1..2', '٣', '1e-0', '00012', '179769313486231580793728971405303415079934132710037826936173778980444968292764750946649017977587207096330286416692887910946555547851940402630657488671505820681908902000708383676273854845817711531764475730270069855571366959622842914819860834936475292719074168444365510704342711559699508093042880177904174497791.9999999999999999999999999999999999999999999999']
    nreqs = ['num ' + hx(t) for t in texts_[:nb] + extra_txt]
    nm, nim = run.tie(nreqs, functional=True, desc=lambda i: {'request': nreqs[i]})
    for b, r in zip(pats, fim):
        run.case(('fmt', b), True, op='f64-display')
    bad_rt = 0
    for t, b, r in zip(texts_, pats, nim):
        run.case(('num', t), True, op='f64-parse')
        want = '%016x' % b if (b & 0x7ff0000000000000) != 0x7ff0000000000000 or (b & 0xfffffffffffff) == 0 else '7ff8000000000000'
        if r != want:
            run.fail({'bits': '%016x' % b, 'printed': t, 'parsed_back': r}, 'Display of a number does not parse back to the same number (shortest round trip)')
    # (ii) expression programs
    n = run.n(1200, 40000)
    cases = []
    for i in range(n):
        cases.append(expr_program(rng, U))
    # a value compared with itself and with an unmodified copy (equality is by content, not by storage)
    for enc in U:
        A_, B_ = sv('va'), sv('vb')
        stmts_ = progs.setup_value(enc, A_) + [say(('bin', 'eq', v(A_), [v(A_)], 'is')), put(v(A_), B_), say(('bin', 'eq', v(A_), [v(B_)], 'is')),
                                               say(bin_('noteq', v(B_), v(A_))), say(bin_('lesseq', v(A_), v(B_)))]
        cases.append((progs.render(rng, [stmts_], plain=True), {'ops': 2, 'lists': 0, 'position': 'self-and-copy'}))
    reqs2 = [run_req(src) for src, _ in cases]
    m2, im2 = run.tie(reqs2, proj=proj_run, functional=True, desc=lambda i: {'program': cases[i][0]})
    for (src, feat), r in zip(cases, im2):
        if r is None:
            continue
        c, d, out, _ = run_parts(r)
        run.case(src, feat['ops'] >= 2 or feat['lists'] > 0, sample={'program': src[:300], 'answer': r[:120]} if rng.random() < 0.003 else None,
                 outcome=c, position=feat['position'])
        if c == 'rterr':
            run.count('error=' + d)
        if c in ('crash', 'hang'):
            run.fail({'program': src, 'answer': r}, 'evaluating an expression panics or hangs')


def expr_program(rng, U):
    """set up 3 variables with universe values, then evaluate a random expression in a random
    statement position and print the result"""
    names = [sv('va'), sv('vb'), sv('vc')]
    stmts = []
    for nm in names:
        stmts += progs.setup_value(rng.choice(U), nm)
    g = rock.Gen(rng, names=names, max_depth=rng.randint(1, 4), allow_calls=False, allow_pop=False, funcs=[])
    g.ident = lambda pronoun_ok=True: rng.choice(names)
    e = g.expr()
    pos = rng.choice(['say', 'put', 'let-compound', 'if', 'while', 'arg', 'return', 'index', 'cast-param'])
    res = sv('res')
    if pos == 'say':
        stmts.append(say(e))
    elif pos == 'put':
        stmts += [put(e, res), say(v(res))]
    elif pos == 'let-compound':
        op = rng.choice(['plus', 'minus', 'multiply', 'divide'])
        stmts += [let(names[0], op, *g.toplist(2, neg_ok=False)), say(v(names[0]))]
    elif pos == 'if':
        stmts += [('if', e, [say(num(1))], [say(num(2))])]
    elif pos == 'while':
        stmts += [put(num(0), sv('cnt')), ('while', bin_('and', ('bin', 'less', v(sv('cnt')), [num(2)], 'is'), e),
                                          [('inc', sv('cnt'), 1), say(v(sv('cnt')))])]
    elif pos == 'arg':
        f = sv('fun')
        stmts += [('func', f, [sv('p')], [('return', v(sv('p')), False, False)]), say(call(f, no_open(e)))]
    elif pos == 'return':
        f = sv('fun')
        stmts += [('func', f, [sv('p')], [('return', e, False, False)]), say(call(f, num(1)))]
    elif pos == 'index':
        stmts += [('push', v(res), ('list', [num(7), num(8), num(9)])), put(e, sv('ix')), say(sub(v(res), v(sv('ix'))))]
    else:
        stmts += [put(st('101'), res), ('mut', 'cast', v(res), None, e), say(v(res))]
    src = progs.render(rng, [stmts])
    d = rock.dump_expr(e)
    return src, {'ops': d.count('(bin ') + d.count('(un '), 'lists': 1 if has_multi_list(e) else 0, 'position': pos}


def has_multi_list(e):
    if e[0] == 'bin':
        return len(e[3]) > 1 or has_multi_list(e[2]) or any(has_multi_list(x) for x in e[3])
    if e[0] == 'un':
        return has_multi_list(e[2])
    return False


def no_open(e):
    """an argument is a unary-level expression: wrap anything else through a variable-free trick
    (we simply keep unary/primary expressions, else fall back to a literal)"""
    if e[0] in ('bin',):
        return num(3)
    return e


# ----------------------------------------------------------------------------- C14

def c14(run):
    rng = run.rng
    U = progs.universe()
    run.rule = ('the exhaustive ordered square of the %d-value universe of C03, through the Val API and through one-line '
                'programs (`say A is B`, `A isnt B`, `A is not B`, < > <= >=, not/and/or/nor, compound assignment vs expanded '
                'form, build/knock k times); every law is evaluated on the implementation\'s own answers; '
                'non-trivial = the two operands differ; distinct by ordered pair and law' % len(U))
    # --- API level
    reqs, meta = [], []
    for a in U:
        for b in U:
            reqs.append('val equals %s %s' % (a, b)); meta.append(('eq', a, b))
            reqs.append('val compare %s %s' % (a, b)); meta.append(('cmp', a, b))
    m, im = run.tie(reqs, functional=True, desc=lambda i: {'request': reqs[i]})
    ans = {}
    for k, r in zip(meta, im):
        ans[k] = r
    swap = {'lt': 'gt', 'gt': 'lt', 'eq': 'eq', 'none': 'none', 'err': 'err'}
    for a in U:
        for b in U:
            run.case(('api', a, b), a != b, sample={'pair': [a, b], 'equals': ans[('eq', a, b)], 'compare': ans[('cmp', a, b)]}
                     if rng.random() < 0.002 else None, law='api-square')
            e1, e2 = ans[('eq', a, b)], ans[('eq', b, a)]
            c1, c2 = ans[('cmp', a, b)], ans[('cmp', b, a)]
            if e1 != e2:
                run.fail({'a': a, 'b': b, 'a is b': e1, 'b is a': e2}, 'equality is not symmetric')
            if c1 not in swap or swap[c1] != c2:
                run.fail({'a': a, 'b': b, 'compare(a,b)': c1, 'compare(b,a)': c2},
                         'ordering is not antisymmetric / one direction is an error and the other is not')
            if c1 in ('lt', 'eq', 'gt') and ((c1 == 'eq') != (e1 == 't')):
                run.fail({'a': a, 'b': b, 'compare': c1, 'equals': e1}, 'a <= b and a >= b does not coincide with equality')
    run.extra['exhaustive'] = True
    # --- program level: every pair, a sample of laws each (quick) or all (thorough)
    pairs = [(a, b) for a in U for b in U]
    if run.tier == 'quick':
        pairs = rng.sample(pairs, 450)
    cases = []
    for a, b in pairs:
        cases.append(law_program(rng, a, b))
    reqs2 = [run_req(src) for src, _ in cases]
    m2, im2 = run.tie(reqs2, proj=proj_run, functional=True, desc=lambda i: {'program': cases[i][0]})
    for (src, (a, b)), r in zip(cases, im2):
        if r is None:
            continue
        c, d, out, _ = run_parts(r)
        run.case(('prog', a, b), a != b, sample={'program': src[:400], 'answer': out.decode('utf-8', 'replace')[:200]} if rng.random() < 0.005 else None,
                 law='program', outcome=c)
        if c in ('crash', 'hang'):
            run.fail({'program': src, 'answer': r}, 'law program panics')
            continue
        lines = out.decode('utf-8', 'replace').split('\n')
        why = check_law_output(lines, c, d, a, b, ans)
        if why:
            run.fail({'program': src, 'a': a, 'b': b, 'printed': lines, 'outcome': c + ' ' + d}, why)
    # --- compound assignment whose operands have EFFECTS on the destination (a called function overwrites it, replaces
    # the whole array a cell of which is the destination, or fails): `let x be op e` against `let x be x op e`
    eff = [effect_programs(rng, U) for _ in range(run.n(250, 6000))]
    ereqs = []
    for p1, p2, _ in eff:
        ereqs += [run_req(p1), run_req(p2)]
    em, eim = run.tie(ereqs, proj=proj_run, functional=True, desc=lambda i: {'program': eff[i // 2][i % 2]})
    for i, (p1, p2, shape) in enumerate(eff):
        r1, r2 = eim[2 * i], eim[2 * i + 1]
        if r1 is None or r2 is None:
            continue
        run.case(p1, True, law='compound-with-effects', shape=shape)
        if proj_run(r1) != proj_run(r2):
            run.fail({'compound': p1, 'expanded': p2, 'answers': [r1[:300], r2[:300]]},
                     '`let x be op e` and `let x be x op e` differ when e has an effect on x')
    # --- the IEEE facts the theorems take as hypotheses (NumLaws: int_exact / add_nat / mul_nat, add_negzero), sampled on
    # the implementation: exact integer arithmetic below 2^53
    lreqs, lwant = [], []
    for _ in range(run.n(1500, 20000)):
        a = rng.randint(-2 ** 53, 2 ** 53)
        k = rng.randint(-2 ** 53, 2 ** 53)
        if abs(a + k) <= 2 ** 53:
            lreqs.append('val plus %s %s' % (progs.nenc(float(a)), progs.nenc(float(k)))); lwant.append(progs.nenc(float(a + k)))
        x = rng.randint(0, 2 ** 26)
        y = rng.randint(0, 2 ** 27)
        if x * y <= 2 ** 53:
            lreqs.append('val multiply %s %s' % (progs.nenc(float(x)), progs.nenc(float(y)))); lwant.append(progs.nenc(float(x * y)))
        lreqs.append('val plus %s %s' % (progs.nenc(-0.0), progs.nenc(float(x)))); lwant.append(progs.nenc(float(x)))
    lm, lim = run.tie(lreqs, functional=True, desc=lambda i: {'request': lreqs[i]})
    for rq, w, r in zip(lreqs, lwant, lim):
        run.case(rq, True, law='numlaws-sample')
        if r != w:
            run.fail({'request': rq, 'expected': w, 'answer': r}, 'integer arithmetic below 2^53 is not exact (a NumLaws hypothesis of the theorems is false of this f64)')
    check_queue_shapes(run)          # equality in both directions on arrays whose storage has wrapped around
    # --- build / knock
    bk = []
    vals = ['t', 'f', 'n'] + [progs.nenc(x) for x in [0.0, 1.0, -1.0, 2.0, 0.5, -0.5, 3.0, 10.0, 1e15, 2.0 ** 52, 0.25, 1234567.0,
                                                        0.1, 3.14159, 1e-7, 0.3, 2.0 ** 53 - 2]]
    for a in vals:
        for k in (1, 2, 3, 7):
            bk.append((a, k))
    reqs3 = []
    for a, k in bk:
        reqs3.append('val inc %s %d' % (a, k))
    m3, im3 = run.tie(reqs3, functional=True, desc=lambda i: {'request': reqs3[i]})
    reqs4 = ['val inc %s %d' % (r, -k) if not r.startswith('err') else 'val truthy u' for (a, k), r in zip(bk, im3)]
    m4, im4 = run.tie(reqs4, functional=True, desc=lambda i: {'request': reqs4[i]})
    for (a, k), r1, r2 in zip(bk, im3, im4):
        run.case(('bk', a, k), True, law='build-knock')
        want = a if a != 'n' else progs.nenc(0.0)
        if r1.startswith('err'):
            run.fail({'value': a, 'k': k}, 'build up is an error on a number/boolean/null', key='bk:%s:%d' % (a, k))
        elif r2 != want:
            run.fail({'value': a, 'k': k, 'after build': r1, 'after knock': r2},
                     'building %s up %d times and knocking it down %d times gives %s' % (a, k, k, r2), key='bk:%s:%d' % (a, k))


def effect_programs(rng, U):
    """(compound, expanded, shape): the same program with `let D be op E…` and with `let D be D op E…`; the operands call
    a function that assigns to D (or to the array holding D), so the order 'read D, then evaluate E' is observable"""
    small = [u for u in U if not u.startswith('[') or len(u) < 40]
    a, b, c = rng.choice(small), rng.choice(small), rng.choice(small)
    op = rng.choice(['plus', 'plus', 'minus', 'multiply', 'divide'])
    while op == 'multiply' and any(big_repeat(x, y) for x in (a, b, c) for y in (a, b, c)):
        a, b, c = rng.choice(small), rng.choice(small), rng.choice(small)
    A, B, C_, D, F, P = sv('aa'), sv('bb'), sv('cc'), sv('dd'), sv('ff'), sv('pp')
    pre = progs.setup_value(a, A) + progs.setup_value(b, B) + progs.setup_value(c, C_)
    shape = rng.choice(['var', 'var', 'cell', 'cell-replaced', 'two-operands', 'unset', 'pronoun', 'pronoun'])
    if shape == 'pronoun':
        # the destination is a PRONOUN and the operands name another variable / call a function (the referent moves while the
        # operands are evaluated): both forms must still agree
        IT = ('pronoun', 'it')
        operands = rng.choice([[v(B)], [call(F, v(B))], [v(B), v(C_)], [num(2)]])
        func = ('func', F, [P], [('return', v(P), False, False)])
        init = [put(v(A), D)]
        comp = ('assign', ('lid', IT), op, operands, 'let')
        expd = ('assign', ('lid', IT), None, [('bin', op, ('id', IT), operands)], 'let')
        tail = [say(st('after')), say(v(D)), say(v(B)), say(v(C_))]
        seed = rng.random()
        import random as _r
        p1 = progs.render(_r.Random(seed), [[func], pre + init + [comp] + tail], plain=True)
        p2 = progs.render(_r.Random(seed), [[func], pre + init + [expd] + tail], plain=True)
        return p1, p2, shape
    if shape in ('var', 'two-operands', 'unset'):
        body = [put(v(C_), D), ('return', v(P), False, False)]
        init = [] if shape == 'unset' else [put(v(A), D)]
        lhs, cur = ('lid', D), v(D)
    elif shape == 'cell':
        body = [put_at(v(C_), v(D), num(0)), ('return', v(P), False, False)]
        init = [put_at(v(A), v(D), num(0))]
        lhs, cur = ('lsub', v(D), num(0)), sub(v(D), num(0))
    else:
        body = [put(v(C_), D), ('return', v(P), False, False)]
        init = [put_at(v(A), v(D), num(0))]
        lhs, cur = ('lsub', v(D), num(0)), sub(v(D), num(0))
    func = ('func', F, [P], body)
    operands = [call(F, v(B))] if shape != 'two-operands' else rng.choice([[v(B), call(F, v(B))], [call(F, v(B)), v(B)]])
    tail = [say(st('after')), say(cur), say(v(D))]
    comp = ('assign', lhs, op, operands, 'let')
    expd = ('assign', lhs, None, [('bin', op, cur, operands)], 'let')
    seed = rng.random()
    import random as _r
    p1 = progs.render(_r.Random(seed), [[func], pre + init + [comp] + tail], plain=True)
    p2 = progs.render(_r.Random(seed), [[func], pre + init + [expd] + tail], plain=True)
    return p1, p2, shape


def law_program(rng, a, b):
    A, B = sv('aa'), sv('bb')
    s = progs.setup_value(a, A) + progs.setup_value(b, B)
    X = sv('xx')
    s += [
        say(('bin', 'eq', v(A), [v(B)], 'is')),                 # 0  a is b
        say(('bin', 'eq', v(B), [v(A)], 'is')),                 # 1  b is a
        say(bin_('noteq', v(A), v(B))),                         # 2  a isnt b
        say(('bin', 'noteq', v(A), [v(B)], 'is')),              # 3  a is not b
        say(not_(v(A))),                                        # 4
        say(bin_('and', v(A), v(B))),                           # 5
        say(bin_('or', v(A), v(B))),                            # 6
        say(bin_('nor', v(A), v(B))),                           # 7
        say(not_(bin_('or', v(A), v(B)))),                      # 8  not (a or b) -- `not` binds tighter: rewritten below
    ]
    # `not a or b` parses as (not a) or b; use nor's definition through a variable instead
    s[-1] = put(bin_('or', v(A), v(B)), X)
    s.append(say(not_(v(X))))                                   # 8
    # equality must not depend on whether two values share storage: a value against itself and against
    # an unmodified copy (assignment, through a function, through an array cell)
    C_, ID = sv('cc'), sv('identity')
    alias = [say(st('alias')), say(('bin', 'eq', v(A), [v(A)], 'is')), put(v(A), C_), say(('bin', 'eq', v(A), [v(C_)], 'is')),
             say(('bin', 'eq', v(C_), [v(A)], 'is')), say(bin_('noteq', v(A), v(C_))),
             ('func', ID, [sv('pp')], [('return', v(sv('pp')), False, False)]), say(('bin', 'eq', v(A), [call(ID, v(A))], 'is')),
             put_at(v(A), v(sv('holder')), num(0)), say(('bin', 'eq', sub(v(sv('holder')), num(0)), [v(A)], 'is')), say(st('endalias'))]
    s += alias
    # compound assignment vs expanded form
    op = rng.choice(['plus', 'minus', 'multiply', 'divide'])
    if not (op == 'multiply' and (big_repeat(a, b) or big_repeat(b, a))):
        Y, Z = sv('yy'), sv('zz')
        s += [put(v(A), Y), put(v(A), Z), let(Y, op, v(B)), let(Z, None, bin_(op, v(Z), v(B))),
              say(st('compound')), say(v(Y)), say(v(Z)), say(('bin', 'eq', v(Y), [v(Z)], 'is'))]
    # ordering last (may be a fatal error)
    s += [say(st('order')),
          say(bin_('less', v(A), v(B))), say(bin_('greater', v(B), v(A))),
          say(bin_('lesseq', v(A), v(B))), say(bin_('greatereq', v(B), v(A))),
          say(bin_('greatereq', v(A), v(B)))]
    return progs.render(rng, [s], plain=rng.random() < 0.5), (a, b)


def truthy_enc(e):
    if e in ('u', 'n', 'f'):
        return False
    if e == 't':
        return True
    if e.startswith('#'):
        x = struct.unpack('<d', struct.pack('<Q', int(e[1:], 16)))[0]
        return x != 0
    return True


def check_law_output(lines, c, d, a, b, ans):
    tf = {'true': True, 'false': False}
    if len(lines) < 9:
        return 'program stopped early: %s %s' % (c, d)
    try:
        eq_ab, eq_ba, isnt, isnot, nota, and_, or_, nor_, notor = [tf[x] for x in lines[:9]]
    except KeyError:
        return 'a comparison or logical operator printed something that is not a boolean: %r' % lines[:9]
    if eq_ab != eq_ba:
        return '`a is b` differs from `b is a`'
    if (eq_ab == (ans[('eq', a, b)] == 't')) is False:
        return '`a is b` in a program differs from Val::equals'
    if isnt != (not eq_ab) or isnot != (not eq_ab):
        return '`a isnt b` / `a is not b` is not the negation of `a is b`'
    ta, tb = truthy_enc(a), truthy_enc(b)
    if nota != (not ta) or and_ != (ta and tb) or or_ != (ta or tb) or nor_ != (not (ta or tb)) or notor != nor_:
        return 'not/and/or/nor disagree with truthiness'
    rest = lines[9:]
    if rest and rest[0] == 'alias':
        k = rest.index('endalias') if 'endalias' in rest else None
        if k is None:
            return 'the aliasing section stopped early: %s %s' % (c, d)
        al = rest[1:k]
        self_eq = ans[('eq', a, a)] == 't'
        want = ['true' if self_eq else 'false'] * 3 + ['false' if self_eq else 'true'] + ['true' if self_eq else 'false'] * 2
        if al != want:
            return 'equality of a value with itself / with an unmodified copy (%r) differs from comparing two separately built equal values (%s)' % (al, self_eq)
        rest = rest[k + 1:]
    if rest and rest[0] == 'compound':
        if len(rest) < 4:
            return 'compound assignment stopped early'
        y, z, same = rest[1], rest[2], rest[3]
        if y != z:
            return 'let x be op e (%r) differs from let x be x op e (%r)' % (y, z)
        rest = rest[4:]
    if not rest or rest[0] != 'order':
        return 'program stopped before the ordering section: %s %s' % (c, d)
    o = rest[1:]
    cmp_ab = ans[('cmp', a, b)]
    if cmp_ab == 'err':
        if c != 'rterr' or len(o) > 1 or (o and o[0] != ''):
            return 'ordering of an invalid pair is not a runtime error at the first comparison'
        return None
    if len(o) < 5:
        return 'ordering section stopped early: %s %s' % (c, d)
    try:
        lt, gt_ba, le, ge_ba, ge = [tf[x] for x in o[:5]]
    except KeyError:
        return 'an ordering operator printed a non-boolean'
    if lt != gt_ba or le != ge_ba:
        return 'a < b differs from b > a, or a <= b from b >= a'
    if cmp_ab == 'none':
        if lt or le or ge:
            return 'an unordered pair compares true'
    else:
        if (le and ge) != eq_ab:
            return 'a <= b and a >= b does not coincide with a is b'
        if lt != (cmp_ab == 'lt') or le != (cmp_ab != 'gt'):
            return 'program-level ordering differs from Val::compare'
    return None


# ----------------------------------------------------------------------------- C04

def flow_vocabulary(base):
    """one statement of every control-flow shape; `base` makes the markers of this position unique"""
    CA, CB, T = sv('ca'), sv('cb'), progs.Flow.TICK
    m = lambda i: say(num(base + i))
    one = ('bin', 'eq', v(CA), [num(1)], 'is')
    tick = lambda e: ('call', T, [e])
    inner = lambda body: [put(num(0), CB), ('while', ('bin', 'less', v(CB), [num(2)], 'is'), [('inc', CB, 1)] + body)]
    V = [[m(1)], [('break', False)], [('continue', False)], [('break', True)], [('continue', True)],
         [('if', TRUE, [('break', False)], None)], [('if', FALSE, [('break', False)], None)], [('if', one, [('break', False)], None)],
         [('if', one, [('continue', False)], None)], [('if', TRUE, [], None)], [('if', tick(FALSE), [], None)],
         [('if', tick(TRUE), [m(2)], [m(3)])], [('if', one, [m(2)], [('break', False)])], [('if', one, [('continue', False)], [m(3)])],
         [('if', FALSE, [], [('continue', False)])], [('if', TRUE, [('if', one, [('break', False)], None), m(4)], None)],
         inner([('break', False)]), inner([('continue', False), m(5)]), inner([m(6)]),
         inner([('if', ('bin', 'eq', v(CB), [num(1)], 'is'), [('break', False)], None), m(7)]),
         [('until', tick(TRUE), [m(8)])], [('while', tick(FALSE), [m(8)])]]
    return V


def flow_skeleton(loop, picks):
    CA = sv('ca')
    body = [('inc', CA, 1)]
    for pos, i in enumerate(picks):
        body += flow_vocabulary(100 * (pos + 1))[i]
    cond = ('bin', 'less', v(CA), [num(3)], 'is') if loop == 'while' else ('bin', 'greatereq', v(CA), [num(3)], 'is')
    prog = [[('func', progs.Flow.TICK, [sv('pp')], [say(num(99)), ('return', v(sv('pp')), False, False)]),
             put(num(0), CA), say(num(1)), (loop, cond, body), say(num(2))]]
    import random as _r
    return prog, progs.render(_r.Random(0), prog, plain=True)


def c04(run):
    rng = run.rng
    n = run.n(1200, 50000)
    run.rule = ('terminating programs of nested if/else/while/until to depth 4 with bounded loop counters, say-markers before '
                'and after every statement, break/continue (both spellings) at every depth incl. last statement, empty branches, '
                'conditions of every value kind (literals, flags, not/and/or/nor); oracle: an independent signal-passing reference '
                'interpreter in the check; EVERY loop body of up to 2 (quick) / 3 (thorough) statements over a 22-shape vocabulary under '
                'while and until; non-trivial = at least one loop and one break/continue, or an if inside a loop; distinct by program text')
    cases = []
    for i in range(n):
        fl = progs.Flow(rng)
        prog = fl.program(depth=rng.randint(1, 4))
        src = progs.render(rng, prog)
        cases.append((prog, src))
    reqs = [run_req(src) for _, src in cases]
    m, im = run.tie(reqs, proj=proj_run, functional=True, desc=lambda i: {'program': cases[i][1]})
    for (prog, src), r in zip(cases, im):
        if r is None:
            continue
        d = rock.dump_program(prog)
        loops = d.count('(while ') + d.count('(until ')
        bc = d.count('(break)') + d.count('(continue)')
        c, det, out, _ = run_parts(r)
        run.case(src, (loops > 0 and bc > 0) or (loops > 0 and '(if ' in d), sample={'program': src[:400], 'printed': out.decode()[:120]}
                 if rng.random() < 0.003 else None, loops=min(loops, 5), breaks=min(bc, 5), outcome=c)
        want = '\n'.join(str(x) for x in progs.ref_flow(prog))
        want = (want + '\n') if want else ''
        if c != 'ok':
            run.fail({'program': src, 'answer': r[:200]}, 'a well-formed control-flow program does not run to completion: %s %s' % (c, det))
        elif out.decode() != want:
            run.fail({'program': src, 'printed': out.decode(), 'expected': want}, 'statements did not run in the order the program text prescribes')
    # bounded-exhaustive: EVERY loop body of up to 2 (quick) / 3 (thorough) statements from a vocabulary with each control-flow
    # shape once (markers, break/continue bare and guarded, empty ifs, if/else with signals, an inner loop with each signal,
    # conditions with an effect), under `while` and under `until`, checked against the reference interpreter and the model
    import itertools
    L = 2 if run.tier == 'quick' else 3
    bcases = []
    for loop in ('while', 'until'):
        for k in range(1, L + 1):
            for picks in itertools.product(range(len(flow_vocabulary(0))), repeat=k):
                bcases.append(flow_skeleton(loop, picks))
    breqs = [run_req(src) for _, src in bcases]
    bm, bim = run.tie(breqs, proj=proj_run, functional=True, desc=lambda i: {'program': bcases[i][1], 'section': 'bounded-exhaustive'})
    for (prog, src), r in zip(bcases, bim):
        if r is None:
            continue
        c, det, out, _ = run_parts(r)
        run.case(('bx', src), True, kind='bounded-exhaustive', outcome=c)
        want = '\n'.join(str(x) for x in progs.ref_flow(prog))
        want = (want + '\n') if want else ''
        if c != 'ok':
            run.fail({'program': src, 'answer': r[:200]}, 'a well-formed control-flow program does not run to completion: %s %s' % (c, det))
        elif out.decode() != want:
            run.fail({'program': src, 'printed': out.decode(), 'expected': want}, 'statements did not run in the order the program text prescribes')
    run.extra['small_scope'] = {'body_statements': len(flow_vocabulary(0)), 'exhaustive_up_to_length': L, 'programs': len(bcases)}
    # an error stops execution at that statement, with everything printed before it preserved
    cases2 = []
    for i in range(run.n(200, 5000)):
        fl = progs.Flow(rng)
        prog = fl.program(depth=rng.randint(1, 3))
        # inject a failing statement at a random top-level position
        k = rng.randrange(len(prog[0]) + 1)
        bad = rng.choice([say(v(sv('nosuchname'))), say(neg(st('x'))), say(bin_('less', TRUE, num(1))),
                          ('if', v(sv('nosuchname')), [], None), ('if', neg(st('x')), [], None), ('if', bin_('less', TRUE, num(1)), [], [say(num(1))]),
                          ('while', v(sv('nosuchname')), []), ('until', neg(st('x')), [])])
        prefix = prog[0][:k]
        p2 = [prefix + [bad] + prog[0][k:]]
        cases2.append((p2, [prefix], progs.render(rng, p2)))
    # an error in one operand of a statement: nothing may run after it
    FAIL, MARK, Q = sv('failing'), sv('marking'), sv('qq')
    defs = [('func', FAIL, [sv('pp')], [say(st('fail')), say(v(sv('nosuchname'))), ('return', num(0), False, False)]),
            ('func', MARK, [sv('pp')], [say(st('mark')), ('return', num(0), False, False)]),
            ('func', sv('both'), [sv('pp'), sv('rr')], [say(st('mark')), ('return', num(0), False, False)])]
    two = []
    for a, b in [(call(FAIL, num(1)), call(MARK, num(2))), (call(MARK, num(1)), call(FAIL, num(2)))]:
        two += [say(bin_('plus', a, b)), say(bin_('and', ('bin', 'eq', a, [num(0)], 'is'), b)),
                ('round', 'up', bin_('plus', sub(v(Q), a), sub(v(Q), b)), True),
                ('round', 'down', ('un', 'minus', sub(v(Q), a)), True),
                ('push', sub(v(Q), a), ('list', [b])), ('push', v(Q), ('list', [a, b])),
                put_at(a, v(Q), b), put_at(num(1), sub(v(Q), a), b), ('assign', ('lsub', sub(v(Q), a), b), 'plus', [num(1)], 'let'),
                ('callstmt', sv('both'), [a, b]), ('pop', sub(v(Q), a), ('lsub', v(Q), b)),
                ('mut', 'cut', st('a,b'), ('lsub', v(Q), a), b), ('if', bin_('plus', a, b), [say(st('mark'))], None),
                ('input', ('lsub', sub(v(Q), a), b))]
    cases3 = []
    for stmt in two:
        p3 = [defs + [say(st('start')), stmt, say(st('mark'))]]
        cases3.append(progs.render(rng, p3, plain=True))
    reqs3 = [run_req(src, 'input line\n') for src in cases3]
    m3, im3 = run.tie(reqs3, proj=proj_run, functional=True, desc=lambda i: {'program': cases3[i]})
    for src, r in zip(cases3, im3):
        if r is None:
            continue
        c, det, out, _ = run_parts(r)
        run.case(src, True, outcome=c, kind='error-in-operand')
        lines = out.decode().split('\n')
        if c != 'rterr':
            run.fail({'program': src, 'answer': r[:200]}, 'a failing operand did not stop the program with a runtime error')
        elif 'fail' in lines and 'mark' in lines[lines.index('fail'):]:
            run.fail({'program': src, 'printed': lines}, 'execution went on after an error: something ran after the failing operand')
    reqs2 = [run_req(src) for _, _, src in cases2]
    m2, im2 = run.tie(reqs2, proj=proj_run, functional=True, desc=lambda i: {'program': cases2[i][2]})
    for (p2, pre, src), r in zip(cases2, im2):
        if r is None:
            continue
        c, det, out, _ = run_parts(r)
        run.case(src, True, outcome=c, kind='error-stop')
        want = ''.join('%d\n' % x for x in progs.ref_flow(pre))
        if c != 'rterr':
            run.fail({'program': src, 'answer': r[:200]}, 'a failing statement did not stop the program with a runtime error')
        elif out.decode() != want:
            run.fail({'program': src, 'printed': out.decode(), 'expected': want}, 'output before an error is not exactly what ran before it')


# ----------------------------------------------------------------------------- C09

DEGENERATE = [
    "X is (c)'s foo\nsay X\n", "X is . (c)'s\nsay X\n", "X is 5's\nsay X\n", 'X is "s"\'s a\nsay X\n', "X is ...\nsay X\n",
    "X is abcdefghij\nsay X\n", "X is a. . b\nsay X\n", "rock X like (c)'re\nsay X\n", "X is , , ,\nsay X\n",
    "F takes X\ngive back X\n\nput 1 into F\n", "F takes X\ngive back X\n\nrock F taking 1\n", "F takes X\ngive back X\n\nbuild F up\n",
    "F takes X\ngive back X\n\nF is 5\n", "F takes X\ngive back X\n\nroll F\n", "F takes X\ngive back X\n\nlisten to F\n",
    "F takes X\ngive back X\n\nlet F at 1 be 2\n", "F takes X\ngive back X\n\nturn up F\n", "F takes X\ngive back X\n\ncut F\n",
    "put 1 into X\nX takes Y\ngive back Y\n\n", "F takes X, X\ngive back X\n\nsay F taking 1, 2\n", "F takes X\ngive back X\n\nF takes Y\nsay 1\n\n",
    'X is "10"\ncast X with 1\n', 'X is "10"\ncast X with 0\n', 'X is "10"\ncast X with 37\n', 'X is "10"\ncast X with -1\n',
    'X is "10"\ncast X with 4294967298\n', 'X is "10"\ncast X with 2.5\n', 'X is "zz"\ncast X with 36\nsay X\n',
    'X is "-9223372036854775808"\ncast X with 10\nsay X\n', 'X is "9223372036854775808"\ncast X with 10\nsay X\n',
    "let X at 1000000000000000000000000000000 be 1\n", "let X at 18446744073709551615 be 1\n", "let X at 18446744073709551616 be 1\n",
    "let X at -1 be 1\nsay X\n", "let X at 0.5 be 1\nsay X\n", "put 0 over 0 into N\nlet X at N be 1\nsay X\n",
    "put 1 over 0 into N\nlet X at N be 1\n", "put 1 over 0 into N\nrock X with 1\nsay X at N\n", "put 1 over 0 into N\nsay \"abc\" at N\n",
    "give back 1\n\ngive back 2\n", "break\n\nbreak\n", "continue\n\nsay 1\n", "give back 1\ngive back 2\n", "break\nsay 1\n",
    "if true\nbreak\n\nsay 1\n", "while true\ngive back 1\n\nsay 2\n", "F takes X\nbreak\n\nwhile true\nF taking 1\nsay 1\nbreak\n\n",
    "say \"\" times 1e300\n", "say \"\" times 1 over 0\n", "say \"a\" times -1\n", "say \"a\" times 0 over 0\n",
    "cast 1114112\n", "X is 1114112\ncast X\n", "X is 55296\ncast X\n", "X is 0.5\ncast X\n", "put 0 over 0 into X\ncast X\n", "put 1 over 0 into X\ncast X\n",
    "X is -1\ncast X\n", "X is 65\ncast X with 2\n", "X is 65\ncast X\nsay X\n",
    "roll X\n", "roll 5\n", "roll roll X\n", "rock X\nroll roll X\n", "rock X with 1\nturn up roll X\nsay X\n", "rock roll X\n", "turn up 5\n",
    "turn up X plus Y\n", "turn up not X\n", "X is 5\nturn up X plus 1\nsay X\n", "rock 5\n", "rock \"s\" with 1\n", "cut 5 into X\n", "join 5 into X\n",
    "it is 5\n", "say it\n", "build it up\n", "X is 5\nif true\nY is 1\n\nsay it\n", "roll it\n", "listen to it\n", "put 1 into it at 2\n",
    "put 1 into X at Y\n", "X is 5\nput 1 into X at 0\n", "X is \"s\"\nput 1 into X at 0\n", "rock X\nrock Y\nput 1 into X at Y\n", "say X at 0\n",
    "X is 5\nsay X at 0\n", "X is \"abc\"\nsay X at \"k\"\n", "X is \"abc\"\nsay X at 1\n", "X is \"abc\"\nsay X at 7\n",
    "let X be 1, 2\n", "let X be with 1, 2\nsay X\n", "X is 1\nlet X be with 1, 2, 3\nsay X\n", "say 1 is bigger than true\n", "say not-a-number\n",
    "say -\"x\"\n", "say - mysterious\n", "X is true\nknock X down, down\nsay X\n", "X is nothing\nbuild X up\nsay X\n", "X is \"s\"\nbuild X up\n",
    "join X\n", "rock X\njoin X\nsay X\n", "rock X with 1\njoin X\n", "rock X with \"a\", \"b\"\njoin X with 5\n", "X is \"a,b\"\ncut X with 5\n",
    "X is \"\"\ncut X\nsay X\n", "X is \"\"\ncut X with 5\n", "rock X\njoin X with 5\n", "F taking 1\n", "X is 1\nX taking 1\n", "F takes X\nsay 1\n\nF taking 1, 2\n",
    "F takes X\nF taking X\n\nF taking 1\n",
]


def sized_programs():
    """error messages embedding strings / keys / arrays of boundary sizes, multi-byte characters at every alignment;
    calls, rock lists and subscript chains around the inline capacity of the small vectors (8)"""
    out = []
    for L in progs.SIZES[:27]:
        for pad in (0, 1):
            text = 'a' * pad + 'é' * ((L - pad) // 2 + 1)
            out.append('X is "%s"\nknock X down\n' % text)
            out.append('X is "%s"\nsay X at "k"\n' % ('b' * L))
            out.append('let X at "%s" be 1\nlet X at "%s" be 2\ncast X\n' % ('k' * L + 'é', 'k' * L + 'ü'))
            out.append('rock X with "%s"\nsay X at 0 is less than true\n' % ('Ω' * (L // 2) + 'z' * pad))
    for k in (7, 8, 9, 10, 17):
        args = ', '.join(str(i) for i in range(k))
        params = ', '.join('p' + progs.alpha(i) for i in range(k))
        out.append('F takes %s\ngive back p%s\n\nsay F taking %s\n' % (params, progs.alpha(k - 1), args))
        out.append('rock X with %s\nsay X\nsay X at %d\n' % (args, k - 1))
        out.append('let X%s be 5\nsay X%s\nsay X\n' % (' at 1' * k, ' at 1' * k))
    return out


def queue_shapes(quick):
    """(program, expected output lines): a queue is filled with a elements (one rock with a list, or a single rocks), rolled b
    times, refilled with c, optionally grown by one index assignment at its end, and then observed in every way that walks
    its storage: printed length, every element, join, equality in BOTH directions with an independently built array of the
    same contents, a copy. Expected output is computed here from FIFO semantics (model-free). Sizes cover every
    capacity step of a growable ring buffer (1..9, 15..17, 31..33)."""
    out = []
    sizes = [1, 2, 3, 4, 5, 7, 8, 9] if quick else [1, 2, 3, 4, 5, 6, 7, 8, 9, 15, 16, 17, 31, 32, 33]
    for a in sizes:
        for b in sorted(set([1, a // 2, a - 1, a]) - {0}):
            if b > a:
                continue
            for c in sorted(set([0, 1, b - 1, b, b + 1]) - {-1}):
                for one_rock in (True, False):
                    for grow in (False, True):
                        elems = ['e%d' % i for i in range(a)]
                        src = ''
                        if one_rock:
                            src += 'rock qs with %s\n' % ', '.join('"%s"' % e for e in elems)
                        else:
                            src += ''.join('rock qs with "%s"\n' % e for e in elems)
                        src += 'roll qs\n' * b
                        cur = elems[b:]
                        more = ['m%d' % i for i in range(c)]
                        src += ''.join('rock qs with "%s"\n' % e for e in more)
                        cur += more
                        if grow:
                            src += 'let qs at %d be "g"\n' % len(cur)
                            cur.append('g')
                        if not cur:
                            continue
                        src += 'rock ws with %s\n' % ', '.join('"%s"' % e for e in cur)
                        exp = []
                        src += 'say qs\n'; exp.append(str(len(cur)))
                        for i, e in enumerate(cur):
                            src += 'say qs at %d\n' % i; exp.append(e)
                        src += 'say qs is ws\nsay ws is qs\nsay qs isnt ws\n'; exp += ['true', 'true', 'false']
                        src += 'put "zz" into ws at %d\nsay qs is ws\nsay ws is qs\n' % (len(cur) - 1); exp += ['false', 'false']
                        src += 'put qs into cs\nsay cs is qs\nsay qs is cs\n'; exp += ['true', 'true']
                        src += 'join qs into js with "-"\nsay js\n'; exp.append('-'.join(cur))
                        src += 'join qs\nsay qs\n'; exp.append(''.join(cur))
                        out.append((src, exp))
    return out


def check_queue_shapes(run):
    """queues whose storage has wrapped around (fill, roll, refill, grow) observed in every way that walks the storage"""
    qs = queue_shapes(run.tier == 'quick')
    qreqs = [run_req(src) for src, _ in qs]
    qm, qim = run.tie(qreqs, proj=proj_run, functional=True, desc=lambda i: {'program': qs[i][0], 'section': 'queue shapes'})
    for (src, exp), r in zip(qs, qim):
        if r is None:
            continue
        c, det, out, _ = run_parts(r)
        run.case(('queue', src), True, kind='queue-shape', outcome=c)
        got = out.decode('utf-8', 'replace').split('\n')[:-1]
        if c != 'ok' or got != exp:
            run.fail({'program': src, 'printed': got, 'expected': exp, 'outcome': c + ' ' + det},
                     'a queue that was filled, rolled and refilled does not hold / compare / join as its FIFO contents')


def scale_runs(quick):
    """(kind, n, program): ONE thing repeated n times, n sweeping powers of two +-1 and 1000: array elements, dictionary keys,
    loop iterations, recursion depth, string length, nesting of subscript writes, of arrays, of blocks; followed by the
    operations whose cost or rendering depends on the size (print, join, compare with a copy, roll everything, an error
    whose message shows the value)"""
    from . import texts
    out = []
    for n in (texts.SWEEP_QUICK if quick else texts.SWEEP):
        fill = 'rock xs\nput 0 into ii\nwhile ii is less than %d\nrock xs with ii\nbuild ii up\n\n' % n
        out.append(('array-elements', n, fill + 'say xs\nsay xs at %d\nsay xs at %d\nput xs into ys\nsay xs is ys\nroll xs\nsay xs\nsay ys\ncast xs\n' % (n - 1, n)))
        keys = 'rock ds\nput 0 into ii\nwhile ii is less than %d\nput "k" with ii into kk\nput ii into ds at kk\nbuild ii up\n\n' % n
        out.append(('dictionary-keys', n, keys + 'say ds\nsay ds at "k0"\nsay ds at "k%d"\nput ds into es\nsay ds is es\ncast ds\n' % (n - 1)))
        out.append(('dictionary-keys-and-elements', n, 'put 1 into ds at %d\nput 1 into ds at "alpha"\nput 2 into ds at "beta"\nput 3 into ds at "gamma"\nsay ds\ncast ds\n' % (n - 3)))
        if n <= 300:
            out.append(('dictionary-join', n, keys.replace('put ii into ds at kk', 'put "v" with ii into ds at kk') + 'join ds with ","\nsay ds\n'))
        out.append(('iterations', n, 'put 0 into ii\nwhile ii is less than %d\nbuild ii up\n\nsay ii\n' % n))
        out.append(('string-length', n, 'put "ab" times %d into ss\ncut ss into cs\nsay cs\njoin cs into ts\nsay ts is ss\nsay ss at %d\nknock ss down\n' % (n, 2 * n - 1)))
        if n <= 300:
            out.append(('recursion-depth', n, 'ff takes nn\nif nn is 0\ngive back 0\n\nput nn minus 1 into mm\ngive back 1 with ff taking mm\n\nsay ff taking %d\n' % n))
            out.append(('array-nesting', n, 'rock xs with 1\nput 0 into ii\nwhile ii is less than %d\nrock ys\nrock ys with xs\nput ys into xs\nput nothing into ys\nbuild ii up\n\nsay xs\nput xs into zs\nsay zs is xs\n' % n))
    for n in range(0, 21):
        lits = ''.join('%d, ' % i for i in range(n))
        for tail_ in ('xs', 'roll xs', 'xs at 0', 'xs, xs', 'ff taking xs'):
            out.append(('rock-list-observing-target', n, 'ff takes pp\ngive back pp\n\nrock xs with "first"\nrock xs with %s%s\nsay xs\n' % (lits, tail_) +
                        ''.join('say xs at %d\n' % i for i in range(n + 3))))
        out.append(('rock-subscript-with-effect', n, 'rock idx with 0, 1, 2, 3\nrock ms\nrock ms at roll idx with %s"z"\nsay idx\nsay ms\nsay ms at 0\nsay ms at 1\n' % lits))
    for n in range(1, 14):
        tgt = 'xs' + ' at 0' * n
        for st_ in ('let %s be 5', 'put 5 into %s', 'rock %s with 1, 2', 'let %s be with 1', 'listen to %s', 'turn up %s',
                    'cut "a,b" into %s with ","', 'roll ys into %s', 'roll %s', 'join ws into %s', 'cast "65" into %s'):
            for pre in ('', 'put 2.5 into %s\n' % tgt, 'rock %s with 3, 4\n' % tgt):
                out.append(('subscript-depth', n, 'rock ys with 7\nrock ws with "a", "b"\n' + pre + st_ % tgt + '\nsay %s\nsay xs\n' % tgt))
    return out


def long_histories(rng, nprog, length, tries=4):
    """MODEL-GUIDED long histories: `nprog` programs are grown statement by statement (all statement kinds over a few shared
    names, two functions, arrays, strings, numbers); a candidate statement is kept when the model runs the extended program to
    completion, so the programs stay alive for `length` statements and carry state (values, scopes, array storage, pronoun)
    across hundreds of different events. Every few statements everything observable is printed."""
    names = [('simple', 'xx'), ('simple', 'yy'), ('common', 'my', 'heart'), ('proper', ['Doctor', 'Feelgood'])]
    funcs = [('simple', 'ff'), ('simple', 'gg')]
    pre = ('ff takes pp\ngive back pp with 1\n\ngg takes pp, qq\nif pp is greater than qq\ngive back pp\n\ngive back qq\n\n'
           'put 1 into xx\nput "s" into yy\nrock my heart with 1, 2\nput 2 into Doctor Feelgood\n')
    dump = 'say xx\nsay yy\nsay my heart\nsay Doctor Feelgood\nsay xx is yy\nsay my heart is Doctor Feelgood\n'
    progs_ = [pre for _ in range(nprog)]
    counts = [0] * nprog
    for step in range(length * tries):
        cands = []
        for i in range(nprog):
            g = rock.Gen(rng, names=names, funcs=funcs, max_depth=2)
            r = rng.random()
            if r < 0.7:
                st = g.simple_stmt(2)
            elif r < 0.8:
                st = ('if', g.expr(1), [g.simple_stmt(1)], [g.simple_stmt(1)] if rng.random() < 0.5 else None)
            elif r < 0.9:
                cn = ('simple', 'cc')
                st = [('assign', ('lid', cn), None, [('lit', ('num', 0.0))], 'put'),
                      ('while', ('bin', 'less', ('id', cn), [('lit', ('num', float(rng.randint(1, 4))))], 'is'), [('inc', cn, 1), g.simple_stmt(1, in_loop=True)])]
            else:
                st = ('output', g.expr(2))
            sts = st if isinstance(st, list) else [st]
            try:
                text = rock.Speller(rng, noise=0.02, comments=0.02).program([sts])
            except Exception:
                text = ''
            if counts[i] % 10 == 9:
                text += dump
            cands.append(text)
        ext = [progs_[i] + cands[i] for i in range(nprog)]
        ans = common.serve_sharded([common.DRIVER], [run_req(t, 'a line\nanother\n' * 50, steps=200000) for t in ext], 30, 'modelg', shards=nprog)
        for i, a in enumerate(ans):
            if a.startswith('ok ') and cands[i] and counts[i] < length:
                progs_[i] = ext[i]
                counts[i] += 1
        if min(counts) >= length:
            break
    return [p_ + dump for p_ in progs_], counts


def c09(run):
    rng = run.rng
    n = run.n(2500, 100000)
    run.rule = ('nonsense programs: random syntax trees of all 18 statement kinds over few shared names (functions and variables '
                'sharing names, writes through calls/literals/pops/binary expressions, every statement applied to every value kind), '
                'a catalogue of %d degenerate programs (radices, indices and repeat counts at 0, -1, 0.5, NaN, +-inf, 2^64, 1e30; '
                'degenerate poetic literals; control-flow keywords at top level and across blank lines), and mutations of those; '
                'the model decides which stay within the step/size budget; non-trivial = the program is accepted by the parser; '
                'distinct by program text' % len(DEGENERATE))
    cases = [(s, 'catalogue') for s in DEGENERATE] + [(s, 'sized') for s in sized_programs()] + \
            [(s, 'scale:' + k) for k, _, s in scale_runs(run.tier == 'quick')]
    names = [('simple', 'X'), ('simple', 'F'), ('common', 'the', 'cat'), ('proper', ['Doctor', 'Feelgood'])]
    while len(cases) < n:
        r = rng.random()
        if r < 0.7:
            g = rock.Gen(rng, names=names[:rng.randint(1, 4)], funcs=names[:rng.randint(1, 3)], max_depth=rng.randint(1, 3))
            prog = g.program(depth=rng.randint(0, 2))
            # seed some values so that programs get past their first statement more often
            pre = []
            for nm in g.names:
                if rng.random() < 0.7:
                    pre += progs.setup_value(rng.choice(progs.universe()), nm if nm[0] == 'simple' else ('simple', 'tmp'))[:6]
                    if nm[0] != 'simple' and pre:
                        pre.append(put(v(('simple', 'tmp')), nm))
            prog = [pre + prog[0]] + prog[1:]
            cases.append((rock.Speller(rng, noise=0.02, comments=0.02).program(prog), 'random-tree'))
        elif r < 0.85:
            a, b = rng.choice(DEGENERATE), rng.choice(DEGENERATE)
            cases.append((a + b, 'catalogue-pair'))
        else:
            from . import texts
            cases.append((texts.mutate(rng, rng.choice(DEGENERATE)), 'catalogue-mutated'))
    stdin = 'line one\nline two\n\nlast'
    reqs = [run_req(s, stdin, steps=3000) for s, _ in cases]
    m, im = run.tie(reqs, proj=lambda r: run_parts(r)[0] if run_parts(r)[0] in ('ok', 'rterr', 'parseerr') else 'crash',
                    functional=False, desc=lambda i: {'program': cases[i][0], 'kind': cases[i][1]})
    profiles = [('debug', im)]
    if run.tier == 'thorough':
        idx = [i for i, r in enumerate(im) if r is not None]
        rel = common.impl([reqs[i] for i in idx], 'release')
        full = [None] * len(reqs)
        for i, r in zip(idx, rel):
            full[i] = r
        profiles.append(('release', full))
    for prof, resps in profiles:
        for (src, kind), r in zip(cases, resps):
            if r is None or r == 'skipped':
                continue
            c, d, out, _ = run_parts(r)
            if prof == 'debug':
                run.case(src, c in ('ok', 'rterr'), sample={'program': src[:200], 'answer': r[:100]} if rng.random() < 0.004 else None,
                         kind=kind, outcome=c)
                if c == 'rterr':
                    run.count('error=' + d)
            if c not in ('ok', 'rterr', 'parseerr'):
                run.fail({'program': src, 'profile': prof, 'answer': r[:200]}, 'running a program %s (%s build)' % (
                    'does not terminate' if c == 'hang' else 'crashes the interpreter', prof))
            elif c == 'rterr':
                f = r.split(' ')
                if f[2] == 'crash' or len(f[2]) <= 1:
                    run.fail({'program': src, 'answer': r[:200]}, 'runtime error message cannot be rendered')
    # the same programs saved with CR LF line ends (poetic strings then end in a carriage return, which is text)
    cr = [t.replace('\n', '\r\n') for t, k in cases[:run.n(400, 8000)]]
    crm, cri = run.tie([run_req(t, 'a line\r\nanother\r\n') for t in cr], proj=proj_run, functional=True, desc=lambda i: {'program': cr[i], 'section': 'CR LF source'})
    for t, r in zip(cr, cri):
        if r is None:
            continue
        c = run_parts(r)[0]
        run.case(('crlf', t), True, kind='crlf-source', outcome=c)
        if c in ('crash', 'hang'):
            run.fail({'program': t, 'answer': r[:200]}, 'a program saved with CR LF line ends %s' % ('does not terminate' if c == 'hang' else 'crashes the interpreter'))
    # TREE level: the property says "any parseable program", the theorem says every syntax tree: trees no source text parses
    # to (one-word / zero-word proper names, NaN, negative and infinite literals, inc by 0 or a negative amount) are run on
    # both sides from the tree itself
    from . import trees
    tsrc = [t for t, k in cases if k not in ('catalogue',)][:run.n(300, 6000)]
    pans = common.impl(['parse ' + hx(t) for t in tsrc])
    tq, tmeta = [], []
    for a in pans:
        tr = trees.tree_of(a)
        if tr is not None and len(tr) < 20000:
            for lab, mt in trees.mutations(tr, rng):
                tq.append('runt %s %s - - 20000' % (hx(mt), hx('a line\nanother\n'))); tmeta.append((lab, mt))
    tm, tim = run.tie(tq, proj=proj_run, functional=True, desc=lambda i: {'tree': tmeta[i][1][:1500], 'variant': tmeta[i][0], 'section': 'tree level'})
    for (lab, mt), r in zip(tmeta, tim):
        if r is None:
            continue
        c = run_parts(r)[0]
        run.case(('tree', mt), True, kind='tree-level:' + lab, outcome=c)
        if c in ('crash', 'hang'):
            run.fail({'tree': mt[:1500], 'variant': lab, 'answer': r[:200]}, 'running a syntax tree %s' % ('does not terminate' if c == 'hang' else 'crashes the interpreter'))
    # model-guided long histories: state carried across hundreds of different events inside ONE run
    lh, counts = long_histories(rng, 12 if run.tier == 'quick' else 16, 40 if run.tier == 'quick' else 200, tries=3)
    lreqs = [run_req(t, 'a line\nanother\n' * 50, steps=200000) for t in lh]
    lm, lim = run.tie(lreqs, proj=proj_run, functional=True, desc=lambda i: {'program': lh[i], 'section': 'long history'})
    for t, r in zip(lh, lim):
        if r is None:
            continue
        c = run_parts(r)[0]
        run.case(('long', t), True, kind='long-history', outcome=c)
        if c in ('crash', 'hang'):
            run.fail({'program': t, 'answer': r[:200]}, 'a long program %s' % ('does not terminate' if c == 'hang' else 'crashes the interpreter'))
    run.extra['long_histories'] = {'programs': len(lh), 'statements_min': min(counts), 'statements_max': max(counts)}


# ----------------------------------------------------------------------------- C08

def io_program(rng):
    """programs interleaving say/listen with other statements"""
    X, Y, Q = sv('xx'), sv('yy'), sv('qq')
    G = sv('gg')
    stmts = [put(num(0), X),
             ('func', G, [sv('pp')], [say(v(sv('pp'))), ('input', ('lid', sv('zz'))), say(v(sv('zz'))), ('return', num(0), False, False)])]
    k = rng.randint(2, 8)
    for i in range(k):
        r = rng.random()
        if r < 0.08:
            # two I/O-performing calls inside one statement (also as subscripts of a target that is not writable)
            a, b = call(G, num(1)), call(G, num(2))
            stmts.append(rng.choice([
                say(bin_('plus', a, b)),
                ('round', 'up', bin_('plus', sub(v(Q), a), sub(v(Q), b)), True),
                ('push', sub(v(Q), a), ('list', [b])),
                put_at(a, v(Q), b),
                ('callstmt', G, [bin_('plus', a, b) if False else a]),
            ]))
        elif r < 0.3:
            stmts.append(say(rng.choice([num(rng.randint(0, 99)), st(rng.choice(['', 'hé', 'abc def', 'Ω'])), v(X), v(Y) if i > 0 else v(X), TRUE, NULL])))
        elif r < 0.5:
            stmts.append(('input', ('lid', Y)))
            stmts.append(say(v(Y)))
        elif r < 0.58:
            stmts.append(('input', None))
        elif r < 0.66:
            stmts.append(('input', ('lsub', v(Q), num(rng.randint(0, 2)))))
        elif r < 0.75:
            stmts.append(('inc', X, 1))
        elif r < 0.85:
            c = sv('cc')
            stmts += [put(num(0), c), ('while', ('bin', 'less', v(c), [num(rng.randint(1, 3))], 'is'),
                                      [('inc', c, 1), rng.choice([say(v(c)), ('input', ('lid', Y))]), say(st('in loop'))])]
        elif r < 0.92:
            f = sv('ff')
            stmts += [('func', f, [sv('pp')], [say(v(sv('pp'))), ('input', ('lid', sv('zz'))), ('return', v(sv('zz')), False, False)]),
                      say(call(f, num(i)))]
        else:
            stmts.append(('if', v(Y) if any(s[0] == 'input' for s in stmts) else TRUE, [say(st('then'))], [say(st('else'))]))
    return [stmts]


def c08(run):
    rng = run.rng
    n = run.n(150, 4000)
    run.rule = ('programs interleaving say/listen (with and without destination, into subscripts, inside loops and functions) with other '
                'statements x inputs (empty, no final newline, blank lines, CRLF, non-ASCII) x a writer fault at EVERY byte position up to '
                'the output length and a reader fault at every line request, sampled positions x 7 io::ErrorKinds; non-trivial = the fault-free run prints >= 2 lines and reads >= 1; '
                'distinct by (program, input, fault)')
    inputs = ['', 'one\ntwo\nthree\n', 'no newline at end', '\n\nblank lines\n\n', 'crlf\r\nline\r\n', 'héllo Ω\n日本\n', 'a\n' * 12]
    total_faults = 0
    for i in range(n):
        prog = io_program(rng)
        src = progs.render(rng, prog)
        stdin = rng.choice(inputs)
        base = common.impl([run_req(src, stdin)])[0]
        mbase = common.model([run_req(src, stdin)])[0]
        if proj_run(base) != proj_run(mbase):
            run.disagree({'program': src, 'stdin': stdin}, mbase, base, True)
        c, d, out, reads = run_parts(base)
        if c in ('crash', 'hang'):
            run.fail({'program': src, 'stdin': stdin, 'answer': base[:200]}, 'I/O program crashes')
            continue
        L = len(out)
        nlines = stdin.count('\n') + (1 if stdin and not stdin.endswith('\n') else 0)
        reqs = [run_req(src, stdin, w=str(k)) for k in range(L + 2)] + [run_req(src, stdin, r=str(j)) for j in range(nlines + 1)]
        kinds = [('w', k) for k in range(L + 2)] + [('r', j) for j in range(nlines + 1)]
        m, im = run.tie(reqs, proj=proj_run, functional=True, desc=lambda q: {'program': src, 'stdin': stdin, 'fault': kinds[q]})
        total_faults += len(reqs)
        # the KIND of the injected error must not matter (WouldBlock, BrokenPipe, TimedOut ... are failures like any other;
        # Interrupted alone means "retry" by the contract of Read/Write and is not injected): a few positions x every kind
        pick = rng.sample(range(len(reqs)), min(len(reqs), 3))
        kreqs, kref = [], []
        for q in pick:
            for ek in 'wbtpcud':
                kreqs.append('runk %s %s' % (ek, reqs[q][4:]))
                kref.append(q)
        kans = common.impl(kreqs)
        for rq, q, a in zip(kreqs, kref, kans):
            if a == 'skipped':
                continue
            run.case(('kind', rq), True, fault='kind', outcome=first_word(a))
            if im[q] is not None and (first_word(a) in ('crash', 'hang') or proj_run(a) != proj_run(im[q])):
                run.fail({'program': src, 'stdin': stdin, 'fault': kinds[q], 'error_kind': rq.split(' ')[1], 'with_kind_Other': im[q][:200], 'answer': a[:200]},
                         'the io::ErrorKind of an I/O fault changes what the interpreter does (a failing stream must stop the program whatever the kind)')
        for (kind, k), r in zip(kinds, im):
            if r is None:
                continue
            c2, d2, out2, reads2 = run_parts(r)
            run.case((src, stdin, kind, k), out.count(b'\n') >= 2 and reads >= 1,
                     sample={'program': src[:300], 'stdin': stdin, 'fault': [kind, k], 'answer': r[:120]} if rng.random() < 0.0005 else None,
                     fault=kind, outcome=c2)
            case = {'program': src, 'stdin': stdin, 'fault': [kind, k], 'fault_free': base[:300], 'answer': r[:300]}
            if c2 in ('crash', 'hang'):
                run.fail(case, 'an I/O fault makes the interpreter panic or hang')
                continue
            if kind == 'w':
                if k >= L:
                    if (c2, d2, out2, reads2) != (c, d, out, reads):
                        run.fail(case, 'a writer that never runs out of budget changes the run')
                else:
                    if out2 != out[:k]:
                        run.fail(case, 'bytes written before a write fault are not exactly the first k bytes of the fault-free output')
                    if c2 != 'rterr':
                        run.fail(case, 'a write fault does not stop the program with a runtime error (got %s %s)' % (c2, d2))
                    if reads2 > reads:
                        run.fail(case, 'input was read after the write fault')
            else:
                if k < reads:
                    # the fault-free run asked for line k: the faulty run must stop there
                    if c2 != 'rterr':
                        run.fail(case, 'a read fault does not stop the program with a runtime error (got %s %s)' % (c2, d2))
                    if not out.startswith(out2):
                        run.fail(case, 'output of a run with a read fault is not a prefix of the fault-free output')
                    if reads2 != k:
                        run.fail(case, 'lines were handed out after the read fault')
                else:
                    if (c2, d2, out2, reads2) != (c, d, out, reads):
                        run.fail(case, 'a reader fault that is never reached changes the run')
    run.extra['fault_positions'] = total_faults
    # say prints the canonical text, listen stores exactly the line — also for lines around the buffer sizes of the
    # reader (8 KiB BufReader, 64 KiB, 1 MiB), ASCII and multi-byte
    echo = []
    for s in ['plain', '', ' spaces  ', 'tab\there', 'Ωé', 'cr\r', '"quoted"', '0', 'null']:
        echo.append(s)
    for L in [8191, 8192, 8193, 16384, 65535, 65537] + ([1048575, 1048577, 2100000] if True else []):
        echo.append('x' * L)
        echo.append('é' * (L // 2) + 'y')
    # multi-byte characters at EVERY alignment relative to the reader's buffer (a character straddling a chunk boundary)
    for pad in ('', 'a', 'ab', 'abc'):
        echo.append(pad + 'é' * 5000)
        echo.append(pad + '日' * 3500)
        echo.append(pad + '𝔘' * 2600)
    echo += ['éΩ日'] * 300
    src = 'listen to X\nsay X\n' * len(echo)
    stdin = '\n'.join(echo) + '\n'
    r = common.impl([run_req(src, stdin)], stall_s=60)[0]
    c, d, out, reads = run_parts(r)
    run.case(('echo',), True, kind='echo')
    if out.decode('utf-8', 'replace') != stdin or reads != len(echo):
        got = out.decode('utf-8', 'replace').split('\n')
        k = next((i for i, (x, y) in enumerate(zip(got, echo)) if x != y), min(len(got), len(echo)))
        run.fail({'program': 'listen to X / say X, %d times' % len(echo), 'line_lengths': [len(x) for x in echo], 'first_wrong_line': k,
                  'expected_length': len(echo[k]) if k < len(echo) else None, 'got_length': len(got[k]) if k < len(got) else None,
                  'outcome': c + ' ' + d, 'reads': reads},
                 'listen/say do not reproduce the input lines one by one (line %d)' % k)
    mr = common.model([run_req(src, stdin)], stall_s=120)[0]
    if proj_run(mr) != proj_run(r):
        run.disagree({'program': 'listen to X / say X, %d times; line lengths %s' % (len(echo), [len(x) for x in echo])}, mr[:80], r[:80], True)


# ----------------------------------------------------------------------------- C10

def dict_program(rng):
    A = sv('dd')
    keys = rng.sample(['a', 'b', 'c', 'd', 'e', 'ff', 'zz', 'k1' if False else 'kk', '', 'Ω', 'true', 'null'], rng.randint(2, 8))
    if rng.random() < 0.3:
        # long keys sharing a long prefix (paths, URLs): boundary lengths
        L = rng.choice(progs.SIZES[:24])
        pre = rng.choice(['k', 'é', 'path/']) * L
        keys = [pre[:L] + suf for suf in rng.sample(['a', 'b', 'c', 'dd', 'e', 'zz', '0', 'Ω'], rng.randint(2, 6))]
    stmts = []
    via_var = {}
    if rng.random() < 0.25:
        # RELATED keys: one key is another continued by a character from anywhere in ASCII (the double quote included,
        # which only a poetic string, a cast or input can produce), so the order of their renderings is a fine point
        base = rng.choice(['New', 'x', 'ab', 'k'])
        tails = ['', '"', '" y', '"z', ' ', ' y', '!', '#', '~', 'a', 'A', '0', '"\'', '""', ',', '.']
        keys = [base + t for t in rng.sample(tails, rng.randint(2, 6))]
        for j, k in enumerate(keys):
            kv = sv('key' + 'abcdef'[j])
            stmts.append(('pstr', ('lid', kv), k))
            via_var[k] = v(kv)
    for k in keys:
        kind = rng.random()
        key = via_var.get(k, st(k))
        if kind < 0.1:
            key = rng.choice([TRUE, FALSE, NULL, MYST])
        val = rng.choice([st(k.upper().replace('"', '') or 'E'), st('v' + k.replace('"', '')), num(rng.randint(0, 9)), TRUE]) if rng.random() < 0.3 else st('v' + k.replace('"', 'Q'))
        stmts.append(put_at(val, v(A), key))
    if rng.random() < 0.5:
        stmts.append(('push', v(A), ('list', [st('s0'), st('s1')])))
    r = rng.random()
    tail = []
    B = sv('ee')
    if r < 0.35:
        tail = [('mut', 'join', v(A), ('lid', B), st(',') if rng.random() < 0.5 else None), say(v(B))]
    elif r < 0.5:
        tail = [say(neg(v(A)))] if False else [say(bin_('less', v(A), TRUE))]            # error message embeds the value
    elif r < 0.62:
        tail = [('mut', 'cast', v(A), None, None)]                                      # cannot cast value [...]
    elif r < 0.72:
        tail = [put(v(A), B), say(('bin', 'eq', v(A), [v(B)], 'is')), put_at(st('x'), v(B), st('new')), say(('bin', 'eq', v(A), [v(B)], 'is'))]
    elif r < 0.82:
        tail = [('push', v(sv('outer')), ('list', [v(A)])), ('mut', 'cut', v(sv('outer')), None, None)]
    elif r < 0.9:
        tail = [say(sub(v(A), via_var.get(keys[0], st(keys[0])))), say(v(A)), ('mut', 'join', v(A), None, v(A))]   # invalid join delimiter [array]
    else:
        tail = [('pop', v(A), ('lid', B)), say(v(B)), ('inc', A, 1)]
    return [stmts + tail]


def c10(run):
    rng = run.rng
    n = run.n(250, 10000)
    reps = 6
    run.rule = ('programs building dictionaries with 2-8 non-numeric keys (strings, booleans, null, mysterious; nested) and then joining, '
                'printing, comparing, copying, or provoking every error whose message embeds a value; dictionaries and arrays of 8 ... 1025 '
                'entries (powers of two +-1, 1000); each run %d times in one process '
                '(every HashMap gets a fresh hasher seed) and in 3 separate processes, plus `lint` twice; byte-compare stdout, result and message; '
                'non-trivial = the dictionary has >= 3 keys; distinct by program text' % reps)
    cases = []
    for i in range(n):
        prog = dict_program(rng)
        cases.append((prog, progs.render(rng, prog)))
    # related keys, deterministically: a key and the same key continued by a double quote (or another character) and more
    for tail_ in ['"', '" York', '"z', '""', ' York', '!', '#x']:
        for base_ in ('New', 'k'):
            cases.append(([], 'ka says %s\nkb says %s%s\nput "v1" into dd at ka\nput "v2" into dd at kb\nput "v3" into dd at "zz"\njoin dd into ee with ","\nsay ee\nsay dd\n'
                          % (base_, base_, tail_)))
    # dictionaries and arrays at sizes sweeping powers of two +-1 and 1000 (printing, comparing, an error whose message shows them)
    for k, nn, src in scale_runs(run.tier == 'quick'):
        if k.startswith(('dictionary', 'array-elements')) and nn >= 8:
            cases.append(([], src))
    reqs = [run_req(src) for _, src in cases]
    m, im = run.tie(reqs, proj=proj_run, functional=True, desc=lambda i: {'program': cases[i][1]})
    # repeated runs: same process (requests repeated back to back) and separate processes
    rep_reqs = []
    for r in reqs:
        rep_reqs += [r] * reps
    same = common.serve([common.harness_bin(), 'serve'], rep_reqs, tag='c10same')
    procs = [common.serve([common.harness_bin(), 'serve'], reqs, tag='c10p%d' % k) for k in range(3)]
    lint_reqs = ['lint ' + hx(src) for _, src in cases]
    l1 = common.serve([common.harness_bin(), 'serve'], lint_reqs, tag='c10l1')
    l2 = common.serve([common.harness_bin(), 'serve'], lint_reqs, tag='c10l2')
    # large programs of MANY blocks whose lines are flagged by both lint passes at once (ties in the report): linted 8 times in
    # one process and in 3 fresh ones -- the order of the report may not depend on scheduling either
    bigs = []
    for nb in (8, 31, 32, 33, 64, 200):
        for _ in range(2):
            nm = rng.choice(['tommy', 'my heart', 'Doctor Feelgood'])
            blocks = []
            for b in range(nb):
                blocks.append(rng.choice(['say %s\n%s is 7\n' % (nm, nm), 'put 5 into %s\nsay %s\nput "s" into %s\n' % (nm, nm, nm), 'say %s\nsay %s\n' % (nm, nm),
                                          'while %s is 1\nput 2 into %s\nput 3 into %s\n' % (nm, nm, nm)]))
            bigs.append('\n'.join(blocks))
    breq = ['lint ' + hx(t) for t in bigs]
    brep = []
    for q in breq:
        brep += [q] * 8
    bsame = common.serve([common.harness_bin(), 'serve'], brep, tag='c10b')
    bprocs = [common.serve([common.harness_bin(), 'serve'], breq, tag='c10bp%d' % k) for k in range(3)]
    bm = common.model(breq)
    for i, t in enumerate(bigs):
        answers = set(bsame[i * 8:(i + 1) * 8]) | {p_[i] for p_ in bprocs}
        run.case(('biglint', t), True, keys=0, outcome='lint')
        if len(answers) != 1:
            run.fail({'program': t[:600] + ' ...', 'blocks': t.count('\n\n') + 1, 'distinct_reports': len(answers)},
                     'linting the same program gave %d different reports over 11 runs' % len(answers))
        else:
            from .p_analysis import lint_proj
            a = next(iter(answers))
            if not bm[i].startswith(('fuel', 'resource')) and lint_proj(a) != lint_proj(bm[i]):
                run.disagree({'program': t[:600] + ' ...', 'section': 'large multi-block lint'}, bm[i][:300], a[:300], True)
    for i, (prog, src) in enumerate(cases):
        answers = set(same[i * reps:(i + 1) * reps]) | {p[i] for p in procs} | ({im[i]} if im[i] is not None else set())
        nkeys = rock.dump_program(prog).count('(lsub ') if prog else 3
        c = run_parts(im[i])[0] if im[i] else '?'
        run.case(src, nkeys >= 3, sample={'program': src[:300], 'answer': (im[i] or '')[:160]} if rng.random() < 0.01 else None,
                 keys=nkeys, outcome=c)
        if len(answers) != 1:
            run.fail({'program': src, 'answers': sorted(answers)[:4]}, 'the same program and input gave %d different results over %d runs' % (len(answers), reps + 4))
        if l1[i] != l2[i]:
            run.fail({'program': src, 'lint': [l1[i], l2[i]]}, 'linting the same program twice gave different reports')
    run.extra['runs_per_program'] = reps + 4


# ----------------------------------------------------------------------------- C05

class Funcs:
    def __init__(self, rng):
        self.rng = rng
        g = rock.Gen(rng)
        self.globals = [g.fresh_name() for _ in range(3)]
        self.fnames = []
        while len(self.fnames) < 3:
            f = g.fresh_name()
            if f not in self.globals and f not in self.fnames:
                self.fnames.append(f)
        self.gen = g
        self.arity = {}
        self.defs = []

    def val(self, scope, d=2):
        """unary-level expression over the names in scope"""
        rng = self.rng
        r = rng.random()
        if r < 0.4 and scope:
            return v(rng.choice(scope))
        if r < 0.7:
            return num(rng.randint(0, 9))
        if r < 0.8:
            return st(rng.choice(['a', 'bc', '']))
        if d > 0 and self.arity and r < 0.95:
            f, k = rng.choice(sorted(self.arity.values(), key=str))
            args = [self.val(scope, d - 1) for _ in range(k)]
            args = [a if (a[0] != 'call' or i == len(args) - 1) else num(1) for i, a in enumerate(args)]
            return call(f, *args)
        return rng.choice([TRUE, NULL, MYST])

    def expr(self, scope):
        rng = self.rng
        a = self.val(scope)
        if a[0] == 'call' or rng.random() < 0.5:
            return a
        b = self.val(scope)
        return bin_(rng.choice(['plus', 'minus', 'multiply']), a, b)

    def body(self, params, depth, in_loop=False):
        rng = self.rng
        scope = list(params) + self.globals
        out = []
        for _ in range(rng.randint(1, 4)):
            r = rng.random()
            if r < 0.25:
                out.append(say(self.expr(scope)))
            elif r < 0.45:
                tgt = rng.choice(scope + [sv('loc' + progs.alpha(rng.randint(0, 3)))])
                out.append(put(self.expr(scope), tgt))
                if tgt not in scope:
                    scope.append(tgt)
            elif r < 0.55:
                out.append(say(v(('pronoun', 'it'))) if out and out[-1][0] in ('assign', 'output') and rng.random() < 0.8 else say(num(7)))
            elif r < 0.7 and depth > 0:
                out.append(('if', self.expr(scope), self.body(params, depth - 1, in_loop), self.body(params, depth - 1, in_loop) if rng.random() < 0.4 else None))
            elif r < 0.8 and depth > 0:
                c = sv('cnt' + progs.alpha(rng.randint(0, 5)))
                # sometimes a loop condition whose evaluation is observable (`noisy taking c` prints)
                lhs_ = call(sv('noisy'), v(c)) if rng.random() < 0.35 else v(c)
                out += [put(num(0), c), ('while', ('bin', 'less', lhs_, [num(rng.randint(1, 3))], 'is'),
                                         [('inc', c, 1)] + self.body(params, depth - 1, True))]
            elif r < 0.9:
                out.append(('return', self.expr(scope), rng.random() < 0.3, False))
            elif in_loop:
                out.append((rng.choice(['break', 'continue']), False))
            else:
                out.append(say(self.expr(scope)))
        # an if-with-else may only be the last statement of a function body
        for i, s_ in enumerate(out[:-1]):
            if s_[0] == 'if' and s_[3] is not None:
                out[i] = ('if', s_[1], s_[2], None)
        return out

    def program(self):
        rng = self.rng
        stmts = [put(rng.choice([num(rng.randint(0, 9)), st('g')]), g) for g in self.globals]
        stmts.append(('func', sv('noisy'), [sv('pp')], [say(st('tick')), ('return', v(sv('pp')), False, False)]))
        for f in self.fnames:
            k = rng.randint(1, 3)
            params = []
            while len(params) < k:
                p = self.gen.fresh_name() if rng.random() < 0.7 else rng.choice(self.globals)   # shadowing
                if p not in params and p not in self.fnames:
                    params.append(p)
            body = self.body(params, 2)
            stmts.append(('func', f, params, body))
            self.arity[repr(f)] = (f, k)
        # recursion
        fact = sv('factorial')
        n_, m_ = sv('nn'), sv('mm')
        stmts.append(('func', fact, [n_], [('if', ('bin', 'less', v(n_), [num(2)], 'is'), [('return', num(1), True, False)], None),
                                          put(bin_('minus', v(n_), num(1)), m_),
                                          ('return', bin_('multiply', v(n_), call(fact, v(m_))), False, False)]))
        self.arity[repr(fact)] = (fact, 1)
        main = []
        for _ in range(rng.randint(2, 6)):
            r = rng.random()
            if r < 0.5:
                main.append(say(self.expr(self.globals)))
            elif r < 0.7:
                main.append(put(self.expr(self.globals), rng.choice(self.globals)))
            elif r < 0.8:
                main.append(say(call(fact, num(rng.randint(0, 6)))))
            elif r < 0.9:
                f = rng.choice(self.fnames)
                main.append(('callstmt', f, [self.val(self.globals, 0) for _ in range(self.arity[repr(f)][1])]))
            else:
                # error calls: wrong arity, non-function, unknown name, leaked local
                main.append(rng.choice([say(call(rng.choice(self.fnames), *[num(1)] * 4)), say(call(self.globals[0], num(1))),
                                        say(call(sv('nosuchfunction'), num(1))), say(v(sv('loca'))), say(v(n_))]))
        for g in self.globals:
            main.append(say(v(g)))
        return stmts, main


def add_unused_param(stmts, main, f):
    """metamorphic: an extra parameter and argument that nobody uses"""
    extra = sv('unusedparameter')

    def fix(e):
        if isinstance(e, tuple):
            if e and e[0] == 'call' and e[1] == f:
                return ('call', f, [num(0)] + [fix(a) for a in e[2]])
            if e and e[0] == 'callstmt' and e[1] == f:
                return ('callstmt', f, [num(0)] + [fix(a) for a in e[2]])
            if e and e[0] == 'func' and e[1] == f:
                return ('func', f, [extra] + e[2], fix(e[3]))
            return tuple(fix(x) for x in e)
        if isinstance(e, list):
            return [fix(x) for x in e]
        return e
    return fix(stmts), fix(main)


def c05(run):
    rng = run.rng
    n = run.n(700, 30000)
    run.rule = ('programs with functions of all three name kinds, 1-3 parameters (some shadowing globals), recursion, returns inside '
                'loops/ifs, block locals, pronoun reads, calls nested in arguments, error calls (wrong arity, non-function, unknown name, '
                'leaked local); metamorphic oracles on the implementation: an unused extra parameter+argument changes nothing, wrapping '
                'statements that bind no new name in `if true` changes nothing; EVERY function body of up to 2 (quick) / 3 (thorough) statements '
                'over a 34-shape vocabulary x 9 observations (and a 15-shape pronoun vocabulary under a parameter that shadows a global), also with every name proper (a confusable family) / common, tied to the model; non-trivial = at least 2 calls executed; distinct by program text')
    cases = []
    for i in range(n):
        fg = Funcs(rng)
        stmts, main = fg.program()
        f = rng.choice(fg.fnames)
        s2, m2 = add_unused_param(stmts, main, f)
        k = rng.randrange(len(main))
        wrapped = main[:k] + [('if', TRUE, [main[k]], None)] + main[k + 1:]
        safe = main[k][0] in ('output', 'callstmt') or (main[k][0] == 'assign')      # binds no new name: globals only
        # the pronoun is cleared when a block ends, and callees see the caller's pronoun: the relation
        # only holds for programs that never use a pronoun
        safe = safe and "'pronoun'" not in repr((stmts, main))
        seed = rng.random()
        import random as _r
        srcs = []
        for prog in ([stmts + main], [s2 + m2], [stmts + wrapped]):
            srcs.append(progs.render(_r.Random(seed), prog))
        cases.append((srcs, safe, main[k]))
    reqs = []
    for srcs, _, _ in cases:
        reqs += [run_req(s, steps=20000) for s in srcs]
    m, im = run.tie(reqs, proj=proj_run, functional=True, desc=lambda i: {'program': cases[i // 3][0][i % 3]})
    for i, (srcs, safe, wrapped_stmt) in enumerate(cases):
        r0, r1, r2 = im[3 * i:3 * i + 3]
        if r0 is None:
            continue
        c, d, out, _ = run_parts(r0)
        ncalls = srcs[0].lower().count('taking')
        run.case(srcs[0], ncalls >= 2, sample={'program': srcs[0][:500], 'answer': r0[:160]} if rng.random() < 0.004 else None, outcome=c)
        if c == 'rterr':
            run.count('error=' + d)
        if c in ('crash', 'hang'):
            run.fail({'program': srcs[0], 'answer': r0[:200]}, 'function program crashes')
            continue
        if r1 is not None and proj_run(r1) != proj_run(r0):
            run.fail({'program': srcs[0], 'variant': srcs[1], 'answers': [r0[:300], r1[:300]]},
                     'adding an unused parameter and argument changes the behaviour')
        uses_pronoun_after = False
        if r2 is not None and safe and proj_run(r2) != proj_run(r0):
            # the pronoun is cleared when the block ends: only compare when no later statement reads it
            run.fail({'program': srcs[0], 'variant': srcs[2], 'answers': [r0[:300], r2[:300]]},
                     'wrapping a statement that binds no new name in `if true` changes the behaviour')


    # bounded-exhaustive: EVERY function body of up to 2 (quick) / 3 (thorough) statements from a vocabulary with each
    # scope-relevant shape once (write a global / a local / the parameter, read each, pronoun, block-local binding, nested call
    # of a helper that writes the same names, early return, return in a loop, recursion), called, then every name observed
    import itertools
    L = 2 if run.tier == 'quick' else 3
    sc = []
    for k in range(0, L + 1):
        for body in itertools.product(SCOPE_BODY, repeat=k):
            for obs in SCOPE_OBS:
                sc.append(SCOPE_PRE + 'ff takes pp\n' + ''.join(b + '\n' for b in body) + 'give back pp with 100\n\n' + SCOPE_CALL + obs + '\n')
    # the PARAMETER has the name of a global (it shadows it), and the body writes through the pronoun: the write goes to the
    # innermost binding, as a read does
    for k in range(0, min(L, 2) + 1):
        for body in itertools.product(SCOPE_PRONOUN, repeat=k):
            for obs in ('say gg\nsay hh', 'say it'):
                sc.append('rock gg with 1, 2, 3\nput 2 into hh\nff takes gg\n' + ''.join(b + '\n' for b in body) + 'give back gg\n\nsay ff taking gg\n' + obs + '\n')
    # the same programs with every name replaced by a PROPER name (a confusable family: Jo Anna / Joan Na / Jo An Na ...) and by
    # a COMMON name: each kind of name lives in its own table of the symbol table
    import re as _re
    base_n = len(sc)
    for mapping in (SCOPE_PROPER, SCOPE_COMMON, SCOPE_UPPER):
        pat = _re.compile(r'\b(' + '|'.join(mapping) + r')\b', _re.I)

        def ren(mo, mapping=mapping):
            w = mo.group(0)
            t = mapping[w.lower()]
            if mapping is SCOPE_UPPER:
                return t            # (upper-casing these would change the name: that is the point of the family)
            return t.upper() if w.isupper() and len(w) > 1 else t
        pick = rng.sample(range(base_n), min(base_n, 1200 if run.tier == 'quick' else 15000))
        for i in pick:
            sc.append(pat.sub(ren, sc[i]))
    sreqs = [run_req(t, steps=20000) for t in sc]
    sm, sim = run.tie(sreqs, proj=proj_run, functional=True, desc=lambda i: {'program': sc[i], 'section': 'bounded-exhaustive'})
    for t, r in zip(sc, sim):
        if r is None:
            continue
        c = run_parts(r)[0]
        run.case(('bx', t), True, kind='bounded-exhaustive', outcome=c)
        if c in ('crash', 'hang'):
            run.fail({'program': t, 'answer': r[:200]}, 'function program crashes')
    run.extra['small_scope'] = {'body_statements': len(SCOPE_BODY), 'observations': len(SCOPE_OBS), 'exhaustive_up_to_length': L, 'programs': len(sc)}


SCOPE_PRE = 'put 1 into gg\nput 2 into hh\nhelper takes qq\nput 30 into gg\nput 31 into ll\nput 32 into pp\ngive back qq\n\n'
SCOPE_BODY = ['put 10 into gg', 'put 11 into ll', 'put 12 into pp', 'say gg', 'say ll', 'say pp', 'say it', 'let gg be with pp',
              'put helper taking 7 into hh', 'say helper taking pp', 'if pp is 5\nput 13 into bb\nsay bb\n', 'if pp is 5\nput 14 into gg\n',
              'say bb', 'if pp is greater than 0\nput pp minus 5 into qq\ngive back ff taking qq\n', 'while pp is greater than 0\nknock pp down\nput 15 into ww\nif pp is 2\ngive back ww\n\n',
              'say ww', 'give back gg', 'rock gg with pp', 'put pp into ll at 0', 'listen to ll', 'put ff into hh',
              'if pp is 4\nsay 0\n', 'put 6 into it', 'give back it', 'gg takes zz\ngive back zz\n', 'build gg up',
              'while pp is greater than 3\nknock pp down\nrock ww with 1\nsay ww\n\n', 'until pp is less than 4\nknock pp down\nll takes zz\ngive back zz\n\nsay ll taking pp\n\n',
              # a name resolved, then SHADOWED under another letter case (variable / nested function), then resolved again
              'put 9 into HELPER', 'HeLPer takes zz\ngive back 77\n',
              'say helper taking 1\nput 9 into HELPER\nsay helper taking 1', 'say helper taking 1\nHelper takes zz\ngive back 77\n\nsay helper taking 1',
              'say gg\nput 8 into GG\nsay gg\nsay Gg', 'say Helper taking 1\nif pp is 5\nput 9 into helper\nsay Helper taking 1\n\nsay Helper taking 2']
SCOPE_CALL = 'say ff taking 5\n'
SCOPE_PRONOUN = ['say gg', 'say hh', 'rock it with 9', 'roll it', 'put 7 into it', 'let it at 0 be 8', 'let it be with 1', 'say it', 'build it up', 'put it into hh',
                 'if gg is 4\nsay 0\n', 'if hh is 2\nsay 1\n', 'ff taking hh', 'roll gg into hh', 'listen to it']
SCOPE_PROPER = {'gg': 'Jo Anna', 'hh': 'Joan Na', 'll': 'Joa Nna', 'pp': 'Tom Sawyer', 'bb': 'Mister Crowley', 'ww': 'Doctor Feelgood', 'qq': 'Billie Jean',
                'zz': 'J Oanna', 'ff': 'Black Sabbath', 'helper': 'Blacks Abbath', 'mm': 'Tom Saw Yer'}
# simple names whose lower-case forms differ but whose UPPER-case forms coincide (sharp s / ss / long s, dotless i, ligature)
SCOPE_UPPER = {'gg': 'straße', 'hh': 'strasse', 'll': 'straſse', 'pp': 'ﬁre', 'bb': 'fire', 'ww': 'ıce', 'qq': 'ice', 'zz': 'ǆem', 'ff': 'maße',
               'helper': 'masse', 'mm': 'maſse'}
SCOPE_COMMON = {'gg': 'the night', 'hh': 'my soul', 'll': 'your love', 'pp': 'a girl', 'bb': 'the nights', 'ww': 'my night', 'qq': 'our soul',
                'zz': 'an angel', 'ff': 'the fire', 'helper': 'my fire', 'mm': 'the fires'}
SCOPE_OBS = ['say gg\nsay hh', 'say ll', 'say pp', 'say bb', 'say it', 'say ww', 'say ff taking gg, hh', 'say hh taking 1', 'say HELPER taking 5']


# ----------------------------------------------------------------------------- C06

def dump_stmts(var, depth=True):
    """statements that print an array-ish variable's observable content (may end in a fatal error)"""
    A = v(var)
    return [say(A), say(sub(A, num(0))), say(sub(A, num(1))), say(sub(A, num(2))), say(sub(A, st('k'))), say(sub(A, TRUE)),
            ('pop', A, ('lid', sv('popped'))), say(v(sv('popped'))), say(A)]


def array_history(rng):
    """a history over 3 variables copied from one another; returns (prefix stmts, mutation of X, observers of Y)"""
    X, Y, Z = sv('xx'), sv('yy'), sv('zz')
    F = sv('mutator')
    init = [put(neg(num(1)), sv('negone'))]
    # build X
    seqn = rng.randint(0, 3)
    init.append(('push', v(X), ('list', [rng.choice([num(i), st('s%d' % i if False else 'sa'), TRUE]) for i in range(seqn)]) if seqn else None))
    if rng.random() < 0.5:
        init.append(put_at(rng.choice([num(5), st('dv')]), v(X), st('k')))
    if rng.random() < 0.3:
        init.append(put_at(num(9), sub(v(X), num(rng.randint(0, 3))), num(rng.randint(0, 2))))
    # copy
    r = rng.random()
    if r < 0.4:
        copy_ = [put(v(X), Y)]
    elif r < 0.6:
        copy_ = [('push', v(Y), ('list', [v(X)])), put(sub(v(Y), num(0)), Y)]
    elif r < 0.8:
        copy_ = [('func', F, [sv('pp')], [('return', v(sv('pp')), False, False)]), put(call(F, v(X)), Y)]
    else:
        copy_ = [put_at(v(X), v(Z), st('inner')), put(sub(v(Z), st('inner')), Y)]
    # mutation of X
    idx = rng.choice([num(0), num(1), num(2), num(7), num(0.5), v(sv('negone')), st('k'), st('new'), TRUE, NULL])
    r = rng.random()
    if r < 0.3:
        mut = put_at(rng.choice([num(42), st('changed')]), v(X), idx)
    elif r < 0.45:
        mut = put_at(num(43), sub(v(X), num(rng.randint(0, 2))), idx)
    elif r < 0.6:
        mut = ('push', v(X), ('list', [num(44), st('pushed')]))
    elif r < 0.7:
        mut = ('pop', v(X), None)
    elif r < 0.8:
        mut = ('pop', v(X), ('lid', sv('dropped')))
    elif r < 0.88:
        mut = ('mut', 'join', v(X), None, None)
    elif r < 0.94:
        mut = put(num(0), X)
    else:
        mut = ('assign', ('lsub', v(X), num(0)), 'plus', [num(1)], 'let')
    if rng.random() < 0.3:
        init.append(put_at(bin_('divide', num(0), num(0)), v(X), rng.choice([num(0), st('nan')])))     # a NaN inside
    same = [say(st('same?')), say(('bin', 'eq', v(X), [v(Y)], 'is')), say(('bin', 'eq', v(Y), [v(Y)], 'is')), say(bin_('noteq', v(Y), v(X)))]
    return init + copy_ + same, mut, dump_stmts(Y), dump_stmts(X)


ARRAY_OPS = ['rock xx', 'rock xx with 1', 'rock xx with 2, "s"', 'roll xx', 'roll xx into dd', 'put 7 into xx at 0',
             'put 8 into xx at 2', 'put 9 into xx at "k"', 'put 6 into xx at 0 at 1', 'put xx into yy', 'put yy into xx',
             'put yy into xx at 1', 'put xx at 0 into dd', 'let xx at 0 be with 1', 'put 0 into xx', 'put "str" into xx',
             'put xx at "k" into dd', 'rock yy with xx', 'roll yy into xx', 'join xx', 'cut dd into xx', 'put xx at 1 into xx',
             'put xx into xx at 0', 'build xx up', 'put 0 over 0 into xx at 0', 'say xx is yy',
             # reads and writes whose SUBSCRIPT expression changes the array it subscripts (the array is read before / the
             # place is resolved after the subscript is evaluated, as the statement order says)
             'say xx at shifter taking 0', 'say xx at same taking roll xx', 'put xx at grower taking 1 into dd', 'put 5 into xx at shifter taking 1',
             'let xx at grower taking 0 be with 1']
ARRAY_INIT = ('shifter takes qq\nroll xx into junk\ngive back qq\n\ngrower takes qq\nrock xx with "g"\ngive back qq\n\nsame takes qq\ngive back qq\n\n'
              'rock xx\nrock yy with 3\nput 1 into dd\n')
ARRAY_SAFE = 'say "=="\nsay xx\nsay yy\nsay dd\nsay xx is yy\n'
# observations that fail on a value that cannot be indexed: one per run, after the safe ones
ARRAY_RISKY = ['say xx at 0', 'say xx at 1', 'say xx at 2', 'say xx at "k"', 'say yy at 0', 'say yy at 1', 'say yy at "k"',
               'say xx at 0 at 1', 'say xx at 1 at 0', 'say yy at 0 at 0', 'say xx at 0 is yy at 0']


def c06(run):
    rng = run.rng
    n = run.n(700, 30000)
    run.rule = ('histories over 3 variables: build an array (sequence, dictionary part, nested cell), copy it (assignment, through another '
                'array, through a function argument/return, through a dictionary cell), mutate the original (index writes in range, at end, '
                'far beyond, fractional, negative, non-numeric keys, nested subscripts, rock with lists, roll, join, overwrite, compound), '
                'then print everything; model-free oracle: the copy prints the same with and without the mutation; EVERY sequence of up to 3 '
                '(quick) / 4 (thorough, sampled above 3) of %d array operations followed by a dump; plus direct Val API ' % len(ARRAY_OPS) +
                'store/index/push/pop histories; non-trivial = the mutation succeeds; distinct by program text')
    cases = []
    for i in range(n):
        pre, mut, obs_y, obs_x = array_history(rng)
        import random as _r
        seed = rng.random()
        with_m = progs.render(_r.Random(seed), [pre + [say(st('--'))] + [mut] + [say(st('=='))] + obs_y + obs_x], plain=True)
        without = progs.render(_r.Random(seed), [pre + [say(st('--'))] + [say(st('=='))] + obs_y], plain=True)
        cases.append((with_m, without))
    reqs = []
    for a, b in cases:
        reqs += [run_req(a), run_req(b)]
    m, im = run.tie(reqs, proj=proj_run, functional=True, desc=lambda i: {'program': cases[i // 2][i % 2]})
    for i, (a, b) in enumerate(cases):
        ra, rb = im[2 * i], im[2 * i + 1]
        if ra is None or rb is None:
            continue
        ca, da, oa, _ = run_parts(ra)
        cb, db, ob, _ = run_parts(rb)
        la, lb = oa.decode('utf-8', 'replace').split('\n'), ob.decode('utf-8', 'replace').split('\n')
        mutated = '==' in la
        run.case(a, mutated, sample={'program': a[:400], 'printed': la[:14]} if rng.random() < 0.004 else None, outcome=ca, mutation_ok=mutated)
        if ca in ('crash', 'hang'):
            run.fail({'program': a, 'answer': ra[:200]}, 'array program crashes')
            continue
        if mutated:
            ya = la[la.index('==') + 1:][:8]
            yb = lb[lb.index('==') + 1:][:8]
            if ya != yb[:len(ya)] and ya[:len(yb)] != yb:
                run.fail({'program': a, 'copy_after_mutation': ya, 'copy_without_mutation': yb},
                         'mutating an array changed a copy made earlier')
            elif ya[:min(len(ya), len(yb))] != yb[:min(len(ya), len(yb))]:
                run.fail({'program': a, 'copy_after_mutation': ya, 'copy_without_mutation': yb},
                         'mutating an array changed a copy made earlier')
    # bounded-exhaustive histories: EVERY sequence of up to 3 (quick) / 4 (thorough) operations from a vocabulary that has each
    # kind of array operation once (two variables that are copied into one another, a scalar), followed by a dump of
    # everything observable; tied to the model, which the C06 theorems are about
    import itertools
    L = 3 if run.tier == 'quick' else 4
    hist = []
    nops = len(ARRAY_OPS)
    for k in range(1, L + 1):
        for ops in itertools.product(ARRAY_OPS, repeat=k):
            body = ARRAY_INIT + '\n'.join(ops) + '\n' + ARRAY_SAFE
            if k <= 2:
                hist += [body + o + '\n' for o in ARRAY_RISKY]
            elif k == 3 or rng.random() < 250000 / nops ** 4:
                hist.append(body + rng.choice(ARRAY_RISKY) + '\n')
    hreqs = [run_req(h) for h in hist]
    hm, him = run.tie(hreqs, proj=proj_run, functional=True, desc=lambda i: {'program': hist[i], 'section': 'bounded-exhaustive'})
    for h, r in zip(hist, him):
        if r is None:
            continue
        c = run_parts(r)[0]
        run.case(('hist', h), True, kind='bounded-exhaustive', outcome=c)
        if c in ('crash', 'hang'):
            run.fail({'program': h, 'answer': r[:200]}, 'array program crashes')
    run.extra['small_scope'] = {'operations': len(ARRAY_OPS), 'exhaustive_up_to_length': 3, 'histories': len(hist)}
    check_queue_shapes(run)
    # every writing statement through a chain of 1..13 subscripts (fresh, over a number, over an array), arrays and
    # dictionaries of 8 ... 1025 entries, arrays nested 8 ... 300 deep
    sc = [(k, src) for k, nn, src in scale_runs(run.tier == 'quick') if k in ('subscript-depth', 'array-elements', 'array-nesting', 'dictionary-keys',
                                                                              'rock-list-observing-target', 'rock-subscript-with-effect')]
    screqs = [run_req(src, 'line\n') for _, src in sc]
    scm, scim = run.tie(screqs, proj=proj_run, functional=True, desc=lambda i: {'program': sc[i][1], 'section': 'scale:' + sc[i][0]})
    for (k, src), r in zip(sc, scim):
        if r is None:
            continue
        run.case(('scale', src), True, kind='scale:' + k, outcome=run_parts(r)[0])
        if run_parts(r)[0] in ('crash', 'hang'):
            run.fail({'program': src, 'answer': r[:200]}, 'array program crashes')
    # direct API histories
    U = progs.universe()
    arrs = [u for u in U if u.startswith('[')] + ['u']
    keys = ['#' + progs.bits(x) for x in [0.0, 1.0, 2.0, 5.0, 0.5, -1.0]] + [progs.nenc(progs.NAN), progs.senc('k'), progs.senc(''), 't', 'n', 'u', '[|]']
    reqs2 = []
    for a in arrs:
        for k in keys:
            reqs2.append('val store %s %s %s' % (a, k, progs.senc('v')))
            reqs2.append('val index %s %s' % (a, k))
        reqs2.append('val pop %s' % a)
        reqs2.append('val push %s %s' % (a, '[#3ff0000000000000,s61|]'))
    m2, im2 = run.tie(reqs2, functional=True, desc=lambda i: {'request': reqs2[i]})
    # get-after-set on the implementation's own answers
    follow = []
    for rq, r in zip(reqs2, im2):
        f = rq.split(' ')
        if f[1] == 'store' and r and not r.startswith('err'):
            follow.append(('val index %s %s' % (r, f[3]), rq))
    rr = common.impl([q for q, _ in follow])
    for (q, orig), r in zip(follow, rr):
        run.case(('api', q), True, kind='get-after-set')
        if r != progs.senc('v'):
            run.fail({'store': orig, 'then': q, 'answer': r}, 'reading back a stored element does not yield it')


# ----------------------------------------------------------------------------- C07

def c07(run):
    rng = run.rng
    n = run.n(1500, 60000)
    run.rule = ('strings (empty, multi-byte, delimiter at ends / repeated / overlapping), delimiters of every kind, numbers (fractions, '
                'negatives, huge, NaN, surrogate range, > 0x10FFFF), radices -1..40 and fractional, arrays with non-string elements and '
                'dictionary parts; each through the Val API and through statements on variables, subscripts and pronouns, with and without '
                '`into`; oracles on the implementation: join(split(s,d),d) = s, cast(cast(n)) = n for code points, operand untouched with '
                '`into`; non-trivial = the operation succeeds; distinct by request/program')
    strs = ['', 'a', 'abc', 'a,b,c', ',a,', ',,', 'aaa', 'aaaa', 'abab', 'héllo wörld', 'Ω', '日本語', 'a b  c', 'x\ny', '1,2', 'aXbXc', 'XX', 'é,é']
    delims = ['', ',', 'a', 'aa', 'ab', 'X', ' ', 'é', 'abc', 'zzz', ',,', '\n']
    reqs, meta = [], []
    for s in strs:
        for d in delims + [None]:
            reqs.append('val split %s %s' % (progs.senc(s), '-' if d is None else progs.senc(d)))
            meta.append(('split', s, d))
    for other in ['u', 'n', 't', progs.nenc(1.0), '[|]', '[s61|]']:
        reqs.append('val split %s %s' % (progs.senc('a,b'), other)); meta.append(('split-bad-delim', 'a,b', other))
        reqs.append('val split %s -' % other); meta.append(('split-bad-operand', other, None))
        if not other.startswith('['):
            reqs.append('val join %s -' % other); meta.append(('join-bad-operand', other, None))
        reqs.append('val join [s61,s62|] %s' % other); meta.append(('join-bad-delim', other, None))
        reqs.append('val join [s61,%s|] -' % other); meta.append(('join-bad-elem', other, None))
    for a in ['[|]', '[s61|]', '[s61,s62,s63|]', '[s61|s6b=s7a]', '[|s62=s79,s61=s78,s63=s7a]', '[s61,#3ff0000000000000|]', '[s61|s6b=#3ff0000000000000]']:
        for d in ['-', 's', 's2c', progs.senc('--')]:
            reqs.append('val join %s %s' % (a, d)); meta.append(('join', a, d))
    # the ORDER in which join visits keyed values: every pair of keys from a set with prefixes continued by characters below
    # and above the quote, case variants, digit strings, the empty key, non-string keys and strings that spell them
    JK = [progs.senc(k) for k in ['New', 'New York', 'New!', 'New#', 'new', 'NEW', 'a', 'a b', 'ab', '', '"', '10', '9', 'é', 'e', 'true', 'null',
                                  'mysterious', 'false']] + ['t', 'f', 'n', 'u']
    for i, k1 in enumerate(JK):
        for k2 in JK[i + 1:]:
            reqs.append('val join [s30|%s=s31,%s=s32] s2c' % tuple(sorted([k1, k2]))); meta.append(('join', 'keys', None))
    for _ in range(run.n(200, 4000)):
        ks = sorted(rng.sample(JK, rng.randint(3, 6)))
        reqs.append('val join [|%s] s2d' % ','.join('%s=%s' % (k, progs.senc('v%d' % j)) for j, k in enumerate(ks))); meta.append(('join', 'keys', None))
    nums = [0.0, 65.0, 97.0, 0x3A9, 0x10FFFF, 0x110000, 0xD800, 0xDFFF, 0xE000, -1.0, 0.5, 65.5, 1e300, progs.NAN, progs.INF, -progs.INF, 4294967296.0 + 65, -0.0,
            2.0 ** 31 + 65, 2.0 ** 32 - 1, 2.0 ** 63, 55295.0, 57344.0, 1114111.5, 5e-324,
            65.00000000000001, 64.99999999999999, 110.00000000000001, 97.00000000000001, 1114111.0000000002, 1.0000000000000002]
    for x in nums:
        reqs.append('val cast %s -' % progs.nenc(float(x))); meta.append(('cast-num', x, None))
        reqs.append('val cast %s %s' % (progs.nenc(float(x)), progs.nenc(2.0))); meta.append(('cast-num-param', x, 2))
        for d in ('up', 'down', 'nearest'):
            reqs.append('val round %s %s' % (progs.nenc(float(x)), d)); meta.append(('round', x, d))
    nstrs = ['', '0', '10', '-10', '+7', 'ff', 'FF', 'zz', '1.5', '1e3', ' 1', '1 ', 'abc', '9223372036854775807', '9223372036854775808',
             '-9223372036854775808', '-9223372036854775809', 'inf', 'nan', '-', '+', '１２', '0x10', '1_0', '.5', '5.', '1e400', '٣']
    radices = [float(r) for r in range(-1, 41)] + [2.5, 1e10, 4294967298.0, progs.NAN, progs.INF, -0.0,
                                                    16.000000000000004, 15.999999999999998, 10.000000000000002, 2.0000000000000004, 36.00000000000001]
    for s in nstrs:
        reqs.append('val cast %s -' % progs.senc(s)); meta.append(('cast-str', s, None))
        for r in (radices if run.tier == 'thorough' or s in ('10', 'ff', 'zz', '-10') else rng.sample(radices, 6) + radices[-5:]):
            reqs.append('val cast %s %s' % (progs.senc(s), progs.nenc(r))); meta.append(('cast-radix', s, r))
        for other in ['u', 't', progs.senc('10'), '[|]']:
            reqs.append('val cast %s %s' % (progs.senc(s), other)); meta.append(('cast-bad-param', s, other))
    for other in ['u', 'n', 't', '[|]']:
        reqs.append('val cast %s -' % other); meta.append(('cast-bad-operand', other, None))
        reqs.append('val round %s up' % other); meta.append(('round-bad', other, None))
    m, im = run.tie(reqs, functional=True, desc=lambda i: {'request': reqs[i]})
    follow, fmeta = [], []
    for (kind, a, b), rq, r in zip(meta, reqs, im):
        if r is None:
            continue
        ok = not r.startswith('err')
        run.case(rq, ok, sample={'request': rq, 'answer': r[:80]} if rng.random() < 0.003 else None, op=kind, ok=ok)
        if first_word(r) in ('crash', 'hang', 'bad'):
            run.fail({'request': rq, 'answer': r}, 'a mutation panics instead of reporting an error')
        if kind == 'split' and ok:
            follow.append('val join %s %s' % (r, '-' if b is None else progs.senc(b))); fmeta.append(('join-split', a, b, r))
        if kind == 'cast-num' and ok:
            follow.append('val cast %s -' % r) if False else None
        if kind.startswith('cast-bad') or kind.startswith('split-bad') or kind.startswith('join-bad') or kind in ('round-bad', 'cast-num-param'):
            if ok:
                run.fail({'request': rq, 'answer': r}, 'an operand or parameter of the wrong kind is accepted')
        if kind == 'cast-radix':
            rr = b
            valid = rr == rr and rr == int(rr) if rr not in (progs.INF, -progs.INF) else False
            valid = valid and 2 <= rr <= 36
            if not valid and ok:
                run.fail({'request': rq, 'answer': r}, 'an invalid radix is accepted')
        if kind == 'cast-num':
            x = a
            valid = x == x and x not in (progs.INF, -progs.INF) and x == int(x) and 0 <= x <= 0x10FFFF and not (0xD800 <= x <= 0xDFFF)
            if valid != ok:
                run.fail({'request': rq, 'answer': r}, 'number-to-character cast accepts an invalid code point or rejects a valid one')
            elif ok and r != progs.senc(chr(int(x))):
                run.fail({'request': rq, 'answer': r}, 'number-to-character cast yields the wrong character')
    fr = common.impl(follow)
    for (kind, s, d, arr), q, r in zip(fmeta, follow, fr):
        run.case(q, True, op='join-after-split')
        if r != progs.senc(s):
            run.fail({'string': s, 'delimiter': d, 'split': arr, 'joined': r}, 'join(split(s, d), d) is not s')
        # every piece is free of the delimiter
        if d:
            pieces = [bytes.fromhex(p[1:]).decode() for p in arr[1:-2].split(',') if p] if arr != '[|]' else []
            if any(d in p for p in pieces):
                run.fail({'string': s, 'delimiter': d, 'split': arr}, 'a piece of a split contains the delimiter')
    # statement level: with / without `into`, on variables, subscripts, pronouns
    cases = []
    for i in range(n // 10):
        cases.append(mutation_program(rng, strs, delims))
    reqs2 = [run_req(src) for src, _ in cases]
    m2, im2 = run.tie(reqs2, proj=proj_run, functional=True, desc=lambda i: {'program': cases[i][0]})
    for (src, info), r in zip(cases, im2):
        if r is None:
            continue
        c, d, out, _ = run_parts(r)
        run.case(src, c == 'ok', sample={'program': src[:300], 'answer': r[:120]} if rng.random() < 0.01 else None, op='stmt-' + info['op'], outcome=c)
        if c in ('crash', 'hang'):
            run.fail({'program': src, 'answer': r[:200]}, 'mutation statement crashes')
            continue
        lines = out.decode('utf-8', 'replace').split('\n')
        if c == 'ok' and info['into'] and lines[0] != lines[1]:
            run.fail({'program': src, 'printed': lines[:4]}, 'a mutation with an `into` destination changed its operand')
        if c == 'ok' and info['op'] == 'roundtrip' and lines[-2] != 'true':
            run.fail({'program': src, 'printed': lines[:6]}, 'cut then join does not restore the string')
    check_queue_shapes(run)


def mutation_program(rng, strs, delims):
    S, P, R, A = sv('ss'), sv('pp'), sv('rr'), sv('arr')
    r = rng.random()
    if r < 0.25:
        # evaluation order: the parameter is evaluated first; it may read a variable (which becomes the pronoun
        # referent), or have a side effect on the operand
        D, W, L = sv('dd'), sv('ww'), sv('ll')
        k = rng.randrange(5)
        if k == 0:
            prog = [put(st('a,b,c'), S), put(st(','), D), say(v(S)), ('mut', 'cut', v(S), ('lid', ('pronoun', 'it')), v(D)), say(v(S)), say(v(D))]
        elif k == 1:
            prog = [put(st('ff'), S), put(num(16), D), say(v(S)), ('mut', 'cast', v(S), ('lid', ('pronoun', 'it')), v(D)), say(v(S)), say(v(D))]
        elif k == 2:
            prog = [('push', v(W), ('list', [st('-'), st('a'), st('b')])), ('mut', 'join', v(W), ('lid', L), ('popx', v(W))), say(v(L)), say(v(W))]
        elif k == 3:
            prog = [put(st('x y z'), S), put(st(' '), D), ('mut', 'cut', v(('pronoun', 'it')) if False else v(S), ('lsub', v(A), v(D)), v(D)), say(sub(v(A), st(' '))), say(v(S))]
        else:
            prog = [put(st('a-b'), S), put(st('-'), D), say(v(D)), ('mut', 'cut', v(S), ('lid', R), v(('pronoun', 'it'))), say(v(R)), say(v(S)), say(v(D))]
        return progs.render(rng, [prog]), {'op': 'order', 'into': False}
    s = rng.choice(strs)
    d = rng.choice(delims)
    while '"' in s or '"' in d or '\n' in s or '\n' in d:
        s, d = rng.choice(strs), rng.choice(delims)
    if r < 0.55:
        # round trip through statements: operand keeps its value with `into`
        prog = [put(st(s), S), say(v(S)), ('mut', 'cut', v(S), ('lid', P), st(d)), say(v(S)),
                ('mut', 'join', v(P), ('lid', R), st(d)), say(('bin', 'eq', v(R), [v(S)], 'is') if s else TRUE)]
        return progs.render(rng, [prog]), {'op': 'roundtrip', 'into': True}
    op = rng.choice(['cut', 'join', 'cast', 'turn'])
    operand_val = {'cut': st(s), 'join': None, 'cast': rng.choice([st('42'), num(65), st('ff')]), 'turn': num(rng.choice([1.5, -1.5, 2.0, 0.4]))}[op]
    place = rng.choice(['var', 'subscript', 'pronoun'])
    prog = []
    if op == 'join':
        prog.append(('push', v(S), ('list', [st('a'), st('b'), rng.choice([st('c'), num(1)])])))
    else:
        prog.append(put(operand_val, S))
    target = v(S)
    if place == 'subscript':
        prog.append(put_at(v(S), v(A), num(1)))
        target = sub(v(A), num(1))
    into = rng.random() < 0.5 and op != 'turn'
    param = {'cut': st(d), 'join': st(d), 'cast': rng.choice([None, num(16), num(1), st('x')]), 'turn': None}[op]
    if rng.random() < 0.3:
        param = None
    prog.append(say(target))
    if place == 'pronoun' and not into:
        prog.append(say(v(S)))              # makes S the pronoun referent
        tgt = v(('pronoun', 'it'))
    else:
        tgt = target
    if op == 'turn':
        prog.append(('round', rng.choice(['up', 'down', 'nearest']), tgt, rng.random() < 0.5))
    else:
        prog.append(('mut', op, tgt if (into or tgt[0] == 'id') else tgt, ('lid', R) if into else None, param))
    prog.append(say(target))
    if into:
        prog.append(say(v(R)))
    return progs.render(rng, [prog]), {'op': op, 'into': into}


# ----------------------------------------------------------------------------- C15

ADVERSARIAL = ['İstanbul', '\u212aelvin', 'ǅemal', 'Ωmega', 'Éclair', 'straße', 'ΚΟΣΜΟΣ', 'Κοσμοσ', 'ΟΔΥΣΣΕΥΣ', 'ΣΑΣ']


def rename_tree(t, mapping):
    if isinstance(t, tuple):
        if t and t[0] in ('simple', 'common', 'proper') and len(t) >= 2 and isinstance(t[1], (str, list)):
            key = name_key(t)
            if key in mapping:
                return mapping[key]
            return t
        return tuple(rename_tree(x, mapping) for x in t)
    if isinstance(t, list):
        return [rename_tree(x, mapping) for x in t]
    return t


def lower_(w):
    """per-character lower-casing, as the interpreter folds names (Python's str.lower applies the final-sigma rule)"""
    return ''.join(c.lower() for c in w)


def name_key(n):
    if n[0] == 'simple':
        return ('simple', lower_(n[1]))
    if n[0] == 'common':
        return ('common', lower_(n[1]), lower_(n[2]))
    return ('proper', tuple(lower_(w) for w in n[1]))


def collect_names(t, acc):
    if isinstance(t, tuple):
        if t and t[0] in ('simple', 'common', 'proper') and len(t) >= 2 and isinstance(t[1], (str, list)):
            acc.add(name_key(t))
            return
        for x in t:
            collect_names(x, acc)
    elif isinstance(t, list):
        for x in t:
            collect_names(x, acc)


def safe_recase_char(c, rng):
    """change the case of a letter only when both cases fold to the same lowercase character"""
    for cand in (c.upper(), c.lower()):
        if cand != c and len(cand) == 1 and cand.lower() == c.lower() and len(cand.lower()) == 1 and rng.random() < 0.5:
            return cand
    return c


def recase_mentions(t, rng):
    """per-mention case variation that keeps the kind's syntax (proper names stay capitalised,
    simple and common names must not become a run of capitalised words)"""
    if isinstance(t, tuple):
        if t and t[0] == 'simple' and isinstance(t[1], str) and len(t) == 2:
            w = ''.join(safe_recase_char(c, rng) for c in t[1])
            return ('simple', w)
        if t and t[0] == 'common' and len(t) == 3 and isinstance(t[1], str):
            return ('common', ''.join(safe_recase_char(c, rng) for c in t[1]), ''.join(safe_recase_char(c, rng) for c in t[2]))
        if t and t[0] == 'proper' and isinstance(t[1], list):
            return ('proper', [w[0] + ''.join(safe_recase_char(c, rng) for c in w[1:]) for w in t[1]])
        return tuple(recase_mentions(x, rng) for x in t)
    if isinstance(t, list):
        return [recase_mentions(x, rng) for x in t]
    return t


def confusable_family(rng):
    """distinct names that differ only in where the words break, in the kind of name or in the article:
    `Black Sabbath` / `Blacks Abbath` / `Black Sab Bath` / `blacksabbath` / `the blacksabbath` / `my blacksabbath` / …"""
    while True:
        letters = ''.join(rng.choice('bcdfglmnprst') + rng.choice('aeiou') for _ in range(rng.randint(3, 5)))
        cuts = sorted(rng.sample(range(2, len(letters) - 1), min(3, len(letters) - 3)))
        fam = [('proper', [letters[:c].capitalize(), letters[c:].capitalize()]) for c in cuts]
        if len(cuts) >= 2:
            a, b = cuts[0], cuts[-1]
            fam.append(('proper', [letters[:a].capitalize(), letters[a:b].capitalize(), letters[b:].capitalize()]))
        fam.append(('proper', [letters[:cuts[0]].capitalize(), letters[cuts[0]:].capitalize(), letters[:cuts[0]].capitalize()]))
        fam += [('simple', letters), ('common', 'the', letters), ('common', 'my', letters), ('common', 'your', letters[cuts[0]:]),
                ('common', 'the', letters[cuts[0]:]), ('simple', letters[cuts[0]:]), ('simple', letters + letters)]
        words = set()
        for f in fam:
            words |= set([f[1]] if f[0] == 'simple' else [f[2]] if f[0] == 'common' else f[1])
        if all(w.lower() not in rock.KEYWORDS for w in words):
            rng.shuffle(fam)
            return fam


def c15(run):
    rng = run.rng
    n = run.n(500, 20000)
    run.rule = ('programs of the C04/C05/C06 generators x an injective renaming of every name into a fresh simple/common/proper name '
                '(ASCII, accented and adversarial letters: dotted I, Kelvin sign, sharp s; in a third of the programs the fresh names form a '
                'CONFUSABLE family: same letters with different word breaks / kinds / articles) x per-mention recasing of names and keywords; '
                'original and transformed program run on the implementation, outputs and outcome class compared (model-free); '
                'non-trivial = the program mentions >= 3 distinct names; distinct by program text')
    cases = []
    while len(cases) < n:
        r = rng.random()
        if r < 0.4:
            fg = Funcs(rng)
            stmts, main = fg.program()
            prog = [stmts + main]
        elif r < 0.7:
            prog = progs.Flow(rng).program(depth=rng.randint(1, 3))
        else:
            pre, mut, oy, ox = array_history(rng)
            prog = [pre + [mut] + oy + ox]
        names = set()
        collect_names(prog, names)
        g = rock.Gen(rng, keyword_nouns=False)
        fresh = {}
        used = set(names)
        pool = list(names)
        rf = rng.random()
        family = confusable_family(rng) if rf < 0.35 else rock.long_prefix_family(rng) if rf < 0.45 else []
        if 0.35 <= rf < 0.45:
            rng.shuffle(family)
        for k in sorted(names, key=str):
            while True:
                cand = family.pop() if family else g.fresh_name()
                if rng.random() < 0.15:
                    w = rng.choice(ADVERSARIAL)
                    # a proper-name word must start with an uppercase letter (titlecase ǅ and ß do not qualify)
                    cand = ('simple', w) if (rng.random() < 0.5 or w[0] in 'ǅs') else ('proper', [w, 'Jones'])
                if cand[0] == 'simple' and cand[1][0].isupper() and False:
                    continue
                ck = name_key(cand)
                if ck not in used and all(name_key(x) != ck for x in fresh.values()):
                    break
            fresh[k] = cand
            used.add(name_key(cand))
        renamed = rename_tree(prog, fresh)
        recased = recase_mentions(renamed, rng)
        a = progs.render(rng, prog, plain=True)
        b = rock.Speller(rng, noise=0.05, comments=0.02, recase=0.7).program(recased)
        cases.append((a, b, len(names)))
    # text-level re-casing (theorem C15_text_recase_behaviour) of the scope programs of C05, which resolve a name, shadow it
    # under another letter case and resolve it again: every letter after the first of every word outside string literals
    import itertools, re as _re
    pool = []
    for k in (1, 2):
        for body in itertools.product(SCOPE_BODY, repeat=k):
            pool.append(SCOPE_PRE + 'ff takes pp\n' + ''.join(b + '\n' for b in body) + 'give back pp with 100\n\n' + SCOPE_CALL + rng.choice(SCOPE_OBS) + '\n')
    for t in rng.sample(pool, min(len(pool), run.n(150, 3000))):
        def rc(mo):
            w = mo.group(0)
            if w.startswith('"'):
                return w
            return w[0] + ''.join(c.upper() if rng.random() < 0.5 else c.lower() for c in w[1:])
        cases.append((t, _re.sub(r'"[^"]*"|[A-Za-z]+', rc, t), 3))
    reqs = []
    for a, b, _ in cases:
        reqs += [run_req(a), run_req(b)]
    # the observable of this property is the RELATION between the two runs (same behaviour or not),
    # not what either run prints: the tie compares the model's verdict with the implementation's
    m = common.model(reqs)
    keep = [i for i in range(len(cases)) if not (framework_over_budget(m[2 * i]) or framework_over_budget(m[2 * i + 1]))]
    run.skipped_budget += len(cases) - len(keep)
    sub = []
    for i in keep:
        sub += [reqs[2 * i], reqs[2 * i + 1]]
    got = common.impl(sub)
    im = [None] * len(reqs)
    for j, i in enumerate(keep):
        im[2 * i], im[2 * i + 1] = got[2 * j], got[2 * j + 1]
    run.programs += len(sub)
    for i, (a, b, k) in enumerate(cases):
        ra, rb = im[2 * i], im[2 * i + 1]
        if ra is None or rb is None or ra == 'skipped' or rb == 'skipped':
            continue
        pa, pb = proj_run(ra), proj_run(rb)
        model_same = proj_run(m[2 * i]) == proj_run(m[2 * i + 1])
        if model_same != (pa == pb):
            run.disagree({'original': a, 'renamed_recased': b}, 'same behaviour: %s' % model_same, 'same behaviour: %s' % (pa == pb), True)
        run.case(b, k >= 3, sample={'original': a[:300], 'renamed': b[:300], 'answer': ra[:100]} if rng.random() < 0.004 else None, outcome=pa[0], names=min(k, 12))
        if pa != pb:
            run.fail({'original': a, 'renamed_recased': b, 'answers': [ra[:300], rb[:300]]},
                     'renaming names / re-casing mentions or keywords changed the behaviour')
