"""Interpreter checks: C03 C04 C05 C06 C07 C08 C09 C10 C14 C15."""
import copy
import struct

from . import common, rock, progs
from .common import hx, unhx
from .progs import num, st, v, sv, bin_, neg, not_, say, put, put_at, let, sub, call, MYST, NULL, TRUE, FALSE


def first_word(r):
    return r.split(' ', 1)[0] if r else ''


def run_req(src, stdin='', w='-', r='-', steps=20000):
    return 'run %s %s %s %s %d' % (hx(src), hx(stdin), w, r, steps)


def run_parts(resp):
    """(outcome class, detail, stdout bytes, reads)"""
    f = resp.split(' ')
    w = f[0]
    if w == 'ok':
        return 'ok', '', unhx(f[1]), int(f[2])
    if w == 'parseerr':
        return 'parseerr', f[1] + ' ' + f[2], unhx(f[3]), int(f[4])
    if w == 'rterr':
        return 'rterr', f[1], unhx(f[3]), int(f[4])
    if w in ('crash', 'fuel', 'resource') and len(f) >= 3:
        try:
            return w, '', unhx(f[-2]), int(f[-1])
        except Exception:
            return w, '', b'', 0
    return w, '', b'', 0


def proj_run(resp):
    """observables of a run: outcome class (+ error class), stdout, lines read — not the wording"""
    c, d, out, reads = run_parts(resp)
    if c == 'rterr':
        return (c, d, out, reads)
    if c == 'parseerr':
        return (c, '', out, reads)
    return (c, '', out, reads)


BINOPS_VAL = ['plus', 'subtract', 'multiply', 'divide', 'equals', 'compare', 'index']
UNOPS_VAL = ['negate', 'truthy', 'out', 'display', 'pop']
OPWORD = {'plus': 'plus', 'subtract': 'minus', 'multiply': 'multiply', 'divide': 'divide'}


def big_repeat(a, b):
    """string x huge number: stays out of the square (allocation), the model answers `resource`"""
    return a.startswith('s') and b in (progs.nenc(1e300), progs.nenc(progs.INF))


# ----------------------------------------------------------------------------- C03

def c03(run):
    rng = run.rng
    U = progs.universe()
    run.rule = ('(i) the exhaustive ordered square of a %d-value universe (every kind; 0, -0, +-1, fractions, 1e300, NaN, '
                '+-inf; empty/numeric/padded strings; arrays empty, equal length, with dictionary part, nested) x 7 binary '
                'operations of the Val API + 5 unary + inc/dec +-1,+-2 + split/join/cast/round; (ii) random expression trees '
                '(depth <= 4, list operands, all operators) printed by `say` and used in every statement position; '
                'non-trivial = operands of different kinds, or a list operand / nested operator; distinct by request' % len(U))
    reqs = []
    meta = []
    for a in U:
        for b in U:
            for op in BINOPS_VAL:
                if op == 'multiply' and big_repeat(a, b):
                    continue
                reqs.append('val %s %s %s' % (op, a, b))
                meta.append((op, a, b))
        for op in UNOPS_VAL:
            reqs.append('val %s %s' % (op, a))
            meta.append((op, a, None))
        for k in (1, -1, 2, -2, 3):
            reqs.append('val inc %s %d' % (a, k))
            meta.append(('inc', a, str(k)))
        for d in ('up', 'down', 'nearest'):
            reqs.append('val round %s %s' % (a, d))
            meta.append(('round', a, d))
    m, im = run.tie(reqs, functional=True, desc=lambda i: {'request': reqs[i]})
    for (op, a, b), r in zip(meta, im):
        if r is None:
            continue
        run.case((op, a, b), b is not None and a[0] != b[0], sample={'request': 'val %s %s %s' % (op, a, b), 'answer': r}
                 if rng.random() < 0.0003 else None, op=op)
        if first_word(r) in ('crash', 'hang', 'bad'):
            run.fail({'request': 'val %s %s %s' % (op, a, b), 'answer': r}, 'a value operation panics: ' + r[:40])
    run.extra['exhaustive'] = True
    # (ii) expression programs
    n = run.n(1200, 40000)
    cases = []
    for i in range(n):
        cases.append(expr_program(rng, U))
    reqs2 = [run_req(src) for src, _ in cases]
    m2, im2 = run.tie(reqs2, proj=proj_run, functional=True, desc=lambda i: {'program': cases[i][0]})
    for (src, feat), r in zip(cases, im2):
        if r is None:
            continue
        c, d, out, _ = run_parts(r)
        run.case(src, feat['ops'] >= 2 or feat['lists'] > 0, sample={'program': src[:300], 'answer': r[:120]} if rng.random() < 0.003 else None,
                 outcome=c, position=feat['position'])
        if c == 'rterr':
            run.count('error=' + d)
        if c in ('crash', 'hang'):
            run.fail({'program': src, 'answer': r}, 'evaluating an expression panics or hangs')


def expr_program(rng, U):
    """set up 3 variables with universe values, then evaluate a random expression in a random
    statement position and print the result"""
    names = [sv('va'), sv('vb'), sv('vc')]
    stmts = []
    for nm in names:
        stmts += progs.setup_value(rng.choice(U), nm)
    g = rock.Gen(rng, names=names, max_depth=rng.randint(1, 4), allow_calls=False, allow_pop=False, funcs=[])
    g.ident = lambda pronoun_ok=True: rng.choice(names)
    e = g.expr()
    pos = rng.choice(['say', 'put', 'let-compound', 'if', 'while', 'arg', 'return', 'index', 'cast-param'])
    res = sv('res')
    if pos == 'say':
        stmts.append(say(e))
    elif pos == 'put':
        stmts += [put(e, res), say(v(res))]
    elif pos == 'let-compound':
        op = rng.choice(['plus', 'minus', 'multiply', 'divide'])
        stmts += [let(names[0], op, *g.toplist(2, neg_ok=False)), say(v(names[0]))]
    elif pos == 'if':
        stmts += [('if', e, [say(num(1))], [say(num(2))])]
    elif pos == 'while':
        stmts += [put(num(0), sv('cnt')), ('while', bin_('and', ('bin', 'less', v(sv('cnt')), [num(2)], 'is'), e),
                                          [('inc', sv('cnt'), 1), say(v(sv('cnt')))])]
    elif pos == 'arg':
        f = sv('fun')
        stmts += [('func', f, [sv('p')], [('return', v(sv('p')), False, False)]), say(call(f, no_open(e)))]
    elif pos == 'return':
        f = sv('fun')
        stmts += [('func', f, [sv('p')], [('return', e, False, False)]), say(call(f, num(1)))]
    elif pos == 'index':
        stmts += [('push', v(res), ('list', [num(7), num(8), num(9)])), put(e, sv('ix')), say(sub(v(res), v(sv('ix'))))]
    else:
        stmts += [put(st('101'), res), ('mut', 'cast', v(res), None, e), say(v(res))]
    src = progs.render(rng, [stmts])
    d = rock.dump_expr(e)
    return src, {'ops': d.count('(bin ') + d.count('(un '), 'lists': 1 if has_multi_list(e) else 0, 'position': pos}


def has_multi_list(e):
    if e[0] == 'bin':
        return len(e[3]) > 1 or has_multi_list(e[2]) or any(has_multi_list(x) for x in e[3])
    if e[0] == 'un':
        return has_multi_list(e[2])
    return False


def no_open(e):
    """an argument is a unary-level expression: wrap anything else through a variable-free trick
    (we simply keep unary/primary expressions, else fall back to a literal)"""
    if e[0] in ('bin',):
        return num(3)
    return e


# ----------------------------------------------------------------------------- C14

def c14(run):
    rng = run.rng
    U = progs.universe()
    run.rule = ('the exhaustive ordered square of the %d-value universe of C03, through the Val API and through one-line '
                'programs (`say A is B`, `A isnt B`, `A is not B`, < > <= >=, not/and/or/nor, compound assignment vs expanded '
                'form, build/knock k times); every law is evaluated on the implementation\'s own answers; '
                'non-trivial = the two operands differ; distinct by ordered pair and law' % len(U))
    # --- API level
    reqs, meta = [], []
    for a in U:
        for b in U:
            reqs.append('val equals %s %s' % (a, b)); meta.append(('eq', a, b))
            reqs.append('val compare %s %s' % (a, b)); meta.append(('cmp', a, b))
    m, im = run.tie(reqs, functional=True, desc=lambda i: {'request': reqs[i]})
    ans = {}
    for k, r in zip(meta, im):
        ans[k] = r
    swap = {'lt': 'gt', 'gt': 'lt', 'eq': 'eq', 'none': 'none', 'err': 'err'}
    for a in U:
        for b in U:
            run.case(('api', a, b), a != b, sample={'pair': [a, b], 'equals': ans[('eq', a, b)], 'compare': ans[('cmp', a, b)]}
                     if rng.random() < 0.002 else None, law='api-square')
            e1, e2 = ans[('eq', a, b)], ans[('eq', b, a)]
            c1, c2 = ans[('cmp', a, b)], ans[('cmp', b, a)]
            if e1 != e2:
                run.fail({'a': a, 'b': b, 'a is b': e1, 'b is a': e2}, 'equality is not symmetric')
            if c1 not in swap or swap[c1] != c2:
                run.fail({'a': a, 'b': b, 'compare(a,b)': c1, 'compare(b,a)': c2},
                         'ordering is not antisymmetric / one direction is an error and the other is not')
            if c1 in ('lt', 'eq', 'gt') and ((c1 == 'eq') != (e1 == 't')):
                run.fail({'a': a, 'b': b, 'compare': c1, 'equals': e1}, 'a <= b and a >= b does not coincide with equality')
    run.extra['exhaustive'] = True
    # --- program level: every pair, a sample of laws each (quick) or all (thorough)
    pairs = [(a, b) for a in U for b in U]
    if run.tier == 'quick':
        pairs = rng.sample(pairs, 450)
    cases = []
    for a, b in pairs:
        cases.append(law_program(rng, a, b))
    reqs2 = [run_req(src) for src, _ in cases]
    m2, im2 = run.tie(reqs2, proj=proj_run, functional=True, desc=lambda i: {'program': cases[i][0]})
    for (src, (a, b)), r in zip(cases, im2):
        if r is None:
            continue
        c, d, out, _ = run_parts(r)
        run.case(('prog', a, b), a != b, sample={'program': src[:400], 'answer': out.decode('utf-8', 'replace')[:200]} if rng.random() < 0.005 else None,
                 law='program', outcome=c)
        if c in ('crash', 'hang'):
            run.fail({'program': src, 'answer': r}, 'law program panics')
            continue
        lines = out.decode('utf-8', 'replace').split('\n')
        why = check_law_output(lines, c, d, a, b, ans)
        if why:
            run.fail({'program': src, 'a': a, 'b': b, 'printed': lines, 'outcome': c + ' ' + d}, why)
    # --- build / knock
    bk = []
    vals = ['t', 'f', 'n'] + [progs.nenc(x) for x in [0.0, 1.0, -1.0, 2.0, 0.5, -0.5, 3.0, 10.0, 1e15, 2.0 ** 52, 0.25, 1234567.0,
                                                        0.1, 3.14159, 1e-7, 0.3, 2.0 ** 53 - 2]]
    for a in vals:
        for k in (1, 2, 3, 7):
            bk.append((a, k))
    reqs3 = []
    for a, k in bk:
        reqs3.append('val inc %s %d' % (a, k))
    m3, im3 = run.tie(reqs3, functional=True, desc=lambda i: {'request': reqs3[i]})
    reqs4 = ['val inc %s %d' % (r, -k) if not r.startswith('err') else 'val truthy u' for (a, k), r in zip(bk, im3)]
    m4, im4 = run.tie(reqs4, functional=True, desc=lambda i: {'request': reqs4[i]})
    for (a, k), r1, r2 in zip(bk, im3, im4):
        run.case(('bk', a, k), True, law='build-knock')
        want = a if a != 'n' else progs.nenc(0.0)
        if r1.startswith('err'):
            run.fail({'value': a, 'k': k}, 'build up is an error on a number/boolean/null', key='bk:%s:%d' % (a, k))
        elif r2 != want:
            run.fail({'value': a, 'k': k, 'after build': r1, 'after knock': r2},
                     'building %s up %d times and knocking it down %d times gives %s' % (a, k, k, r2), key='bk:%s:%d' % (a, k))


def law_program(rng, a, b):
    A, B = sv('aa'), sv('bb')
    s = progs.setup_value(a, A) + progs.setup_value(b, B)
    X = sv('xx')
    s += [
        say(('bin', 'eq', v(A), [v(B)], 'is')),                 # 0  a is b
        say(('bin', 'eq', v(B), [v(A)], 'is')),                 # 1  b is a
        say(bin_('noteq', v(A), v(B))),                         # 2  a isnt b
        say(('bin', 'noteq', v(A), [v(B)], 'is')),              # 3  a is not b
        say(not_(v(A))),                                        # 4
        say(bin_('and', v(A), v(B))),                           # 5
        say(bin_('or', v(A), v(B))),                            # 6
        say(bin_('nor', v(A), v(B))),                           # 7
        say(not_(bin_('or', v(A), v(B)))),                      # 8  not (a or b) -- `not` binds tighter: rewritten below
    ]
    # `not a or b` parses as (not a) or b; use nor's definition through a variable instead
    s[-1] = put(bin_('or', v(A), v(B)), X)
    s.append(say(not_(v(X))))                                   # 8
    # compound assignment vs expanded form
    op = rng.choice(['plus', 'minus', 'multiply', 'divide'])
    if not (op == 'multiply' and big_repeat(a, b)):
        Y, Z = sv('yy'), sv('zz')
        s += [put(v(A), Y), put(v(A), Z), let(Y, op, v(B)), let(Z, None, bin_(op, v(Z), v(B))),
              say(st('compound')), say(v(Y)), say(v(Z)), say(('bin', 'eq', v(Y), [v(Z)], 'is'))]
    # ordering last (may be a fatal error)
    s += [say(st('order')),
          say(bin_('less', v(A), v(B))), say(bin_('greater', v(B), v(A))),
          say(bin_('lesseq', v(A), v(B))), say(bin_('greatereq', v(B), v(A))),
          say(bin_('greatereq', v(A), v(B)))]
    return progs.render(rng, [s], plain=rng.random() < 0.5), (a, b)


def truthy_enc(e):
    if e in ('u', 'n', 'f'):
        return False
    if e == 't':
        return True
    if e.startswith('#'):
        x = struct.unpack('<d', struct.pack('<Q', int(e[1:], 16)))[0]
        return x != 0
    return True


def check_law_output(lines, c, d, a, b, ans):
    tf = {'true': True, 'false': False}
    if len(lines) < 9:
        return 'program stopped early: %s %s' % (c, d)
    try:
        eq_ab, eq_ba, isnt, isnot, nota, and_, or_, nor_, notor = [tf[x] for x in lines[:9]]
    except KeyError:
        return 'a comparison or logical operator printed something that is not a boolean: %r' % lines[:9]
    if eq_ab != eq_ba:
        return '`a is b` differs from `b is a`'
    if (eq_ab == (ans[('eq', a, b)] == 't')) is False:
        return '`a is b` in a program differs from Val::equals'
    if isnt != (not eq_ab) or isnot != (not eq_ab):
        return '`a isnt b` / `a is not b` is not the negation of `a is b`'
    ta, tb = truthy_enc(a), truthy_enc(b)
    if nota != (not ta) or and_ != (ta and tb) or or_ != (ta or tb) or nor_ != (not (ta or tb)) or notor != nor_:
        return 'not/and/or/nor disagree with truthiness'
    rest = lines[9:]
    if rest and rest[0] == 'compound':
        if len(rest) < 4:
            return 'compound assignment stopped early'
        y, z, same = rest[1], rest[2], rest[3]
        if y != z:
            return 'let x be op e (%r) differs from let x be x op e (%r)' % (y, z)
        rest = rest[4:]
    if not rest or rest[0] != 'order':
        return 'program stopped before the ordering section: %s %s' % (c, d)
    o = rest[1:]
    cmp_ab = ans[('cmp', a, b)]
    if cmp_ab == 'err':
        if c != 'rterr' or d != 'InvalidComparison' or len(o) > 1 or (o and o[0] != ''):
            return 'ordering of an invalid pair is not an InvalidComparison error'
        return None
    if len(o) < 5:
        return 'ordering section stopped early: %s %s' % (c, d)
    try:
        lt, gt_ba, le, ge_ba, ge = [tf[x] for x in o[:5]]
    except KeyError:
        return 'an ordering operator printed a non-boolean'
    if lt != gt_ba or le != ge_ba:
        return 'a < b differs from b > a, or a <= b from b >= a'
    if cmp_ab == 'none':
        if lt or le or ge:
            return 'an unordered pair compares true'
    else:
        if (le and ge) != eq_ab:
            return 'a <= b and a >= b does not coincide with a is b'
        if lt != (cmp_ab == 'lt') or le != (cmp_ab != 'gt'):
            return 'program-level ordering differs from Val::compare'
    return None


# ----------------------------------------------------------------------------- C04

def c04(run):
    rng = run.rng
    n = run.n(1200, 50000)
    run.rule = ('terminating programs of nested if/else/while/until to depth 4 with bounded loop counters, say-markers before '
                'and after every statement, break/continue (both spellings) at every depth incl. last statement, empty branches, '
                'conditions of every value kind (literals, flags, not/and/or/nor); oracle: an independent signal-passing reference '
                'interpreter in the check; non-trivial = at least one loop and one break/continue, or an if inside a loop; distinct by program text')
    cases = []
    for i in range(n):
        fl = progs.Flow(rng)
        prog = fl.program(depth=rng.randint(1, 4))
        src = progs.render(rng, prog)
        cases.append((prog, src))
    reqs = [run_req(src) for _, src in cases]
    m, im = run.tie(reqs, proj=proj_run, functional=True, desc=lambda i: {'program': cases[i][1]})
    for (prog, src), r in zip(cases, im):
        if r is None:
            continue
        d = rock.dump_program(prog)
        loops = d.count('(while ') + d.count('(until ')
        bc = d.count('(break)') + d.count('(continue)')
        c, det, out, _ = run_parts(r)
        run.case(src, (loops > 0 and bc > 0) or (loops > 0 and '(if ' in d), sample={'program': src[:400], 'printed': out.decode()[:120]}
                 if rng.random() < 0.003 else None, loops=min(loops, 5), breaks=min(bc, 5), outcome=c)
        want = '\n'.join(str(x) for x in progs.ref_flow(prog))
        want = (want + '\n') if want else ''
        if c != 'ok':
            run.fail({'program': src, 'answer': r[:200]}, 'a well-formed control-flow program does not run to completion: %s %s' % (c, det))
        elif out.decode() != want:
            run.fail({'program': src, 'printed': out.decode(), 'expected': want}, 'statements did not run in the order the program text prescribes')
    # an error stops execution at that statement, with everything printed before it preserved
    cases2 = []
    for i in range(run.n(200, 5000)):
        fl = progs.Flow(rng)
        prog = fl.program(depth=rng.randint(1, 3))
        # inject a failing statement at a random top-level position
        k = rng.randrange(len(prog[0]) + 1)
        bad = rng.choice([say(v(sv('nosuchname'))), say(neg(st('x'))), ('inc', sv('nosuchname2'), 1) if False else say(bin_('less', TRUE, num(1)))])
        prefix = prog[0][:k]
        p2 = [prefix + [bad] + prog[0][k:]]
        cases2.append((p2, [prefix], progs.render(rng, p2)))
    reqs2 = [run_req(src) for _, _, src in cases2]
    m2, im2 = run.tie(reqs2, proj=proj_run, functional=True, desc=lambda i: {'program': cases2[i][2]})
    for (p2, pre, src), r in zip(cases2, im2):
        if r is None:
            continue
        c, det, out, _ = run_parts(r)
        run.case(src, True, outcome=c, kind='error-stop')
        want = ''.join('%d\n' % x for x in progs.ref_flow(pre))
        if c != 'rterr':
            run.fail({'program': src, 'answer': r[:200]}, 'a failing statement did not stop the program with a runtime error')
        elif out.decode() != want:
            run.fail({'program': src, 'printed': out.decode(), 'expected': want}, 'output before an error is not exactly what ran before it')
