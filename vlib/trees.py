"""Tree-level inputs: syntax trees that NO source text parses to, obtained by rewriting the s-expression the servers
print for `parse` (requests walkt / runt / lintt read it back on both sides). The properties that quantify over "all
syntax trees" (C09, C16, C19) are tied on these as well."""
import re

NAN, INF, NINF, NZERO, NEG = '7ff8000000000000', '7ff0000000000000', 'fff0000000000000', '8000000000000000', 'c014000000000000'


def mutations(sexpr, rng):
    """(label, tree) variants of a printed tree; every variant is well-typed in the AST"""
    out = []
    t = re.sub(r'\(simple (x[0-9a-f]*)\)', r'(proper \1)', sexpr)
    if t != sexpr:
        out.append(('one-word proper names', t))
    t = re.sub(r'\(proper (x[0-9a-f]*)( x[0-9a-f]*)+\)', r'(proper \1)', sexpr)
    if t != sexpr:
        out.append(('proper names cut to one word', t))
    t = re.sub(r'\(proper( x[0-9a-f]*)+\)', '(proper)', sexpr)
    if t != sexpr:
        out.append(('zero-word proper names', t))
    nums = list(re.finditer(r'\(num [0-9a-f]{16}\)', sexpr))
    if nums:
        for bits, lab in ((NAN, 'NaN literal'), (NINF, '-inf literal'), (NZERO, '-0 literal'), (NEG, 'negative literal'), (INF, 'inf literal')):
            mo = rng.choice(nums)
            out.append((lab, sexpr[:mo.start()] + '(num %s)' % bits + sexpr[mo.end():]))
    t = re.sub(r' @\d+:\d+(-\d+:\d+)?', '', sexpr)
    if t != sexpr:
        out.append(('positions erased', t))
    t = re.sub(r'\((inc|dec) (\([^()]*\)[^()]*) \d+\)', lambda mo: '(%s %s %d)' % (mo.group(1), mo.group(2), rng.choice([0, -3])), sexpr)
    if t != sexpr:
        out.append(('inc/dec by 0 or a negative amount', t))
    return out


def tree_of(parse_answer):
    return parse_answer[3:] if parse_answer.startswith('ok ') else None
