"""Per property: the theorems (fully qualified Lean names) that decide it, audited with
`#print axioms` on every run; and the trusted base recorded in the evidence."""

THEOREMS = {
    'C09': ['Rrss.C09.execProgram_never_crashes', 'Rrss.C09.execProgram_initial_never_crashes', 'Rrss.C09.execProgram_result',
            'Rrss.C09.interp_never_crashes', 'Rrss.C09.valOps_never_crash', 'Rrss.C09.poetic_computeValue_ok'],
}

_BASE = [
    "Lean 4.33.0 kernel; axioms propext, Classical.choice, Quot.sound only (audited per run)",
    "hand-written Lean model Rrss.* tied to /repo by the correspondence check of this run (agreement on the generated inputs, not on all inputs)",
    "Rust harness /verif/harness (thin request server over the public rrss API) and the Python generators/canonicalisers in /verif/vlib",
]

TRUSTED = {
    '*': _BASE,
}
