"""Per property: the theorems (fully qualified Lean names) that decide it — every `theorem`
declared in lean/Rrss/Thm/<Cxx>*.lean — audited with `#print axioms` on every run; and the
trusted base recorded in the evidence."""
import glob
import os
import re

_THM_DIR = os.path.join(os.path.dirname(os.path.dirname(os.path.abspath(__file__))), 'lean', 'Rrss', 'Thm')


def _strip_comments(s):
    out, i, depth, n = [], 0, 0, len(s)
    while i < n:
        if s.startswith('/-', i):
            depth += 1; i += 2
        elif depth and s.startswith('-/', i):
            depth -= 1; i += 2
        elif depth:
            i += 1
        elif s.startswith('--', i):
            while i < n and s[i] != '\n':
                i += 1
        else:
            out.append(s[i]); i += 1
    return ''.join(out)


def theorems_of(prop):
    names = []
    for f in sorted(glob.glob(os.path.join(_THM_DIR, prop + '*.lean'))):
        ns = []
        for line in _strip_comments(open(f).read()).split('\n'):
            m = re.match(r'^namespace\s+(\S+)', line)
            if m:
                ns.append(m.group(1))
                continue
            m = re.match(r'^end\s+(\S+)', line)
            if m and ns and ns[-1].split('.')[-1] == m.group(1).split('.')[-1]:
                ns.pop()
                continue
            m = re.match(r'^(?:protected\s+)?theorem\s+([^\s:({\[]+)', line)
            if m:
                names.append('.'.join(ns + [m.group(1)]))
    return names


class _Thms(dict):
    def get(self, prop, default=None):
        v = theorems_of(prop)
        return v if v else (default if default is not None else [])

    def __getitem__(self, prop):
        return self.get(prop)


THEOREMS = _Thms()

_BASE = [
    "Lean 4.33.0 kernel; axioms propext, Classical.choice, Quot.sound only (audited per run)",
    "hand-written Lean model Rrss.* tied to /repo by the correspondence check of this run (agreement on the generated inputs, not on all inputs)",
    "Rust harness /verif/harness (thin request server over the public rrss API) and the Python generators/canonicalisers in /verif/vlib",
]

TRUSTED = {
    '*': _BASE,
}
