"""Per property: the theorems (fully qualified Lean names) that decide it — every `theorem`
declared in lean/Rrss/Thm/<Cxx>*.lean — audited with `#print axioms` on every run; and the
trusted base recorded in the evidence."""
import glob
import os
import re

_THM_DIR = os.path.join(os.path.dirname(os.path.dirname(os.path.abspath(__file__))), 'lean', 'Rrss', 'Thm')


def _strip_comments(s):
    out, i, depth, n = [], 0, 0, len(s)
    while i < n:
        if s.startswith('/-', i):
            depth += 1; i += 2
        elif depth and s.startswith('-/', i):
            depth -= 1; i += 2
        elif depth:
            i += 1
        elif s.startswith('--', i):
            while i < n and s[i] != '\n':
                i += 1
        else:
            out.append(s[i]); i += 1
    return ''.join(out)


def theorems_of(prop):
    names = []
    for f in sorted(glob.glob(os.path.join(_THM_DIR, prop + '*.lean'))):
        ns = []
        for line in _strip_comments(open(f).read()).split('\n'):
            m = re.match(r'^namespace\s+(\S+)', line)
            if m:
                ns.append(m.group(1))
                continue
            m = re.match(r'^end\s+(\S+)', line)
            if m and ns and ns[-1].split('.')[-1] == m.group(1).split('.')[-1]:
                ns.pop()
                continue
            m = re.match(r'^(?:protected\s+)?theorem\s+([^\s:({\[]+)', line)
            if m:
                names.append('.'.join(ns + [m.group(1)]))
    return names


class _Thms(dict):
    def get(self, prop, default=None):
        v = theorems_of(prop)
        return v if v else (default if default is not None else [])

    def __getitem__(self, prop):
        return self.get(prop)


THEOREMS = _Thms()

_BASE = [
    "Lean 4.33.0 kernel; axioms propext, Classical.choice, Quot.sound only (audited per run)",
    "hand-written Lean model Rrss.* tied to /repo by the correspondence check of this run (agreement on the generated inputs, not on all inputs)",
    "Rust harness /verif/harness (thin request server over the public rrss API) and the Python generators/canonicalisers in /verif/vlib",
]

_NUM = "IEEE-754 binary64 facts taken as explicit hypotheses of some theorems (true of Rust's f64; sampled on the implementation by the C14 and C03 checks): "
_CHR = "Unicode facts of the Rust std taken as explicit hypotheses (checked exhaustively over all 1 114 112 code points by `harness charlaws` on every run of this check): "

TRUSTED = {
    '*': _BASE,
    'C02': _BASE + ["the grammar of Rrss/Spec/Grammar.lean (stratified expression syntax, all 18 statement kinds incl. the four poetic forms, nested blocks, programs, every way of ending the input) is what 'the same program' means: the theorems quantify over ITS syntax trees x every choice of keyword alias/optional word/token template (positions, snapshots), not over character strings: that lexing produces these tokens is C12's theorems plus the correspondence run",
                    "hypotheses on token templates only: Choices.Sane (position snapshots readable, true of lexed tokens by C12) and Fits (the four places where the parser reads the SPELLING of a token the grammar leaves free: the token after a bare `break` is not `it`; the line break after a poetic literal is not spelled like a word; the hyphen of `x is -5` is spelled `-`; the text of `x says ...` is the source slice between `says` and the line break); Fits is True for programs without these constructs",
                    "text level (Thm/C02Text, C02TextPoetic): SpellLaws / PunctLower (ASCII letters, digits, blanks and punctuation classify and lower-case as expected: proved for the generated tables by kernel evaluation), hdot (f64 FromStr rejects `.`), hnum (every number piece parses), hkw (the keyword table is the promised one: decided on the regenerated table), hlen (text shorter than 4 GiB), hv (the visible pieces stand for the program's tokens); covered: ASCII letters and blanks, all statement kinds; for poetic strings the stored text being the source slice is a hypothesis on the given spelling (hstr), not yet derived from the pieces"],
    'C03': _BASE + ["the model's own f64 Display/FromStr (Rrss/F64.lean, exact big-Nat algorithms) agree with Rust's: validated on every run (boundaries + random bit patterns)"],
    'C11': _BASE + [_NUM + 'mul_nat, add_nat (exact integer arithmetic up to 2^53), add_negzero (-0 + a = a)'],
    'C12': _BASE + [_CHR + "hnl (a line feed is whitespace)", "hkw: no keyword-table entry maps to newline/number/string/comment (decided on the regenerated table)"],
    'C13': _BASE + [_CHR + "hnl (a line feed is whitespace)"],
    'C14': _BASE + [_NUM + 'NumLaws.cmp_swap, NumLaws.beq_cmp (partial_cmp and == are consistent), int_exact (integer addition exact up to 2^53) for build/knock'],
    'C15': _BASE + [_CHR + 'hlow (is_lowercase c -> to_lowercase c = [c]), hidem (lower-casing idempotent per character), hfix/hup (ASCII letters fold to ASCII lower case)',
                    'str::to_lowercase is modelled per character (final-sigma rule ignored; it cannot produce an ASCII keyword)',
                    "text level (Thm/C15Lex): AsciiLaws (the 52 ASCII letters are alphabetic, not numeric, not whitespace, lower-case to their ASCII lower case: kernel-checked for the generated tables), hparse (f64 FromStr ignores ASCII letter case: e/E, inf, nan; validated by the num requests of the correspondence run), hkw (decided on the regenerated keyword table)",
                    "a re-casing, for the text-level theorems, is an ASCII re-casing that keeps the places of 'n' / 's / 're, the contents of string literals and poetic strings, and whether each word starts with a capital (proper names are grouped by capitalisation: by design); two re-casings the property's wording might suggest are harmless are NOT (findings F3: `'N'` is not the `'n'` separator; `'S` / `'RE` directly after a string, number or comment is not the apostrophe suffix)"],
    'C20': _BASE + ['process creation, clap argument parsing, stdout buffering, colour codes and exit status are runtime behaviour: decided by running the built binary, not by a theorem'],
}
