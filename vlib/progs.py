"""Semantically-aware program generators for the interpreter checks. Programs are trees in the
format of rock.py (rendered by rock.Speller), so every case also exercises the parser."""
import struct

from . import rock

# ----------------------------------------------------------------------------- tree constructors


def num(x):
    return ('lit', ('num', float(x)))


def st(s):
    return ('lit', ('str', s))


MYST, NULL, TRUE, FALSE = ('lit', 'mysterious'), ('lit', 'null'), ('lit', 'true'), ('lit', 'false')


def v(name):
    return ('id', name)


def sv(w):
    return ('simple', w)


def bin_(op, a, *bs):
    return ('bin', op, a, list(bs))


def neg(e):
    return ('un', 'minus', e)


def not_(e):
    return ('un', 'not', e)


def say(e):
    return ('output', e)


def put(e, name):
    return ('assign', ('lid', name), None, [e], 'put')


def put_at(e, prim, idx):
    return ('assign', ('lsub', prim, idx), None, [e], 'put')


def let(name, op, *es):
    return ('assign', ('lid', name), op, list(es), 'let')


def sub(a, i):
    return ('sub', a, i)


def call(f, *args):
    return ('call', f, list(args))


# ----------------------------------------------------------------------------- value universe (C03, C14)

def bits(x):
    return '%016x' % struct.unpack('<Q', struct.pack('<d', x))[0]


def nenc(x):
    return '#' + ('7ff8000000000000' if x != x else bits(x))


def senc(s):
    return 's' + s.encode().hex()


INF = float('inf')
NAN = float('nan')

NUMS = [0.0, -0.0, 1.0, -1.0, 2.0, 0.5, -0.5, 3.0, 10.0, 1e300, NAN, INF, -INF,
        # boundaries of the integer types a conversion might go through, both sides; the smallest and other tiny
        # non-zero magnitudes; a sum that is not what it looks like; whole numbers whose shortest decimal rendering is
        # not their exact expansion
        2.0 ** 31, 2.0 ** 32, 2.0 ** 53, 2.0 ** 53 + 2, 2.0 ** 60, 2.0 ** 63, 2.0 ** 63 + 2048, -2.0 ** 63, 2.0 ** 64, 1e19, 1e21,
        1.2345678901234568e17, 255.0, 256.0, 65536.0, 5e-324, 1e-300, 2.2e-17, -1e-20, 0.30000000000000004,
        # one unit in the last place above / below an integer (what a tolerant integer test might accept)
        1.0000000000000002, 0.9999999999999999, 16.000000000000004, 110.00000000000001, 64.99999999999999, 2.0000000000000004]
STRS = ['', '0', '1', ' 1', '1e3', 'abc', 'true', '-0', 'inf', 'nan', '0.5', 'éΩ',
        # numeric text with something around it that a tolerant conversion might strip or accept
        '5\r', '\t5', '5 ', '+5', '5.', '.5', '1_0', '1,0', '0x10', 'Infinity', 'NaN', '-inf', '５', '1e', '--1', '1e400', '5\x00']
# arrays as (seq, dict) of encodings
ARRS = [
    ([], []),
    (['u'], []),
    ([nenc(1.0)], []),
    ([nenc(1.0), nenc(2.0)], []),
    ([senc('a'), senc('b')], []),
    ([], [(senc('k'), nenc(1.0))]),
    ([nenc(1.0)], [(senc('k'), nenc(2.0))]),
    ([nenc(0.0), nenc(0.0)], []),
    (['[%s|]' % nenc(1.0)], []),
    ([senc('a')], [('t', senc('x')), ('n', 'u')]),
    ([], [(senc('a'), nenc(1.0)), (senc('b'), nenc(2.0)), (senc('c'), nenc(3.0))]),
    # different key sets of equal size, keys holding mysterious (an absent key also READS as mysterious)
    ([], [(senc('k'), 'u'), (senc('j'), nenc(1.0))]),
    ([], [(senc('j'), nenc(1.0)), (senc('m'), nenc(2.0))]),
    ([], [(senc('k'), 'u')]),
    ([], [(senc('m'), 'u')]),
    ([nenc(NAN)], []),                                   # an array is not equal to itself when it holds a NaN
    ([nenc(1.0)], [(senc('k'), nenc(NAN))]),
    (['[%s|]' % nenc(NAN)], []),
]

SIZES = [7, 8, 9, 15, 16, 17, 31, 32, 33, 63, 64, 65, 71, 72, 73, 127, 128, 129, 255, 256, 257, 1023, 1024, 1025,
         4095, 4096, 4097, 8191, 8192, 8193]


def aenc(a):
    seq, d = a
    return '[%s|%s]' % (','.join(seq), ','.join('%s=%s' % kv for kv in sorted(d)))


def universe():
    u = ['u', 'n', 't', 'f'] + [nenc(x) for x in NUMS] + [senc(s) for s in STRS] + [aenc(a) for a in ARRS]
    return u


def dec_scalar(enc):
    """tree expression that evaluates to the scalar with this encoding, or None if it needs setup"""
    if enc == 'u':
        return MYST
    if enc == 'n':
        return NULL
    if enc == 't':
        return TRUE
    if enc == 'f':
        return FALSE
    if enc.startswith('s'):
        s = bytes.fromhex(enc[1:]).decode()
        return st(s)
    return None


def setup_value(enc, name):
    """statements that leave the value `enc` in variable `name` (a fresh simple name)"""
    e = dec_scalar(enc)
    if e is not None:
        return [put(e, name)]
    if enc.startswith('#'):
        x = struct.unpack('<d', struct.pack('<Q', int(enc[1:], 16)))[0]
        if x != x:
            return [put(bin_('divide', num(0), num(0)), name)]
        if x == INF:
            return [put(bin_('divide', num(1), num(0)), name)]
        if x == -INF:
            return [put(bin_('divide', neg(num(1)), num(0)), name)]
        if x == 0 and bits(x)[0] == '8':
            return [put(bin_('multiply', num(0), neg(num(1))), name)]
        if x < 0:
            return [put(neg(num(-x)), name)]
        return [put(num(x), name)]
    assert enc.startswith('[')
    seq, d = parse_arr(enc)
    out = [('push', v(name), None)]
    for i, el in enumerate(seq):
        tmp = sv(name[1] + 'e' + 'abcdefghij'[i])
        if el.startswith('['):
            out += setup_value(el, tmp)
            out.append(('push', v(name), ('list', [v(tmp)])))
        else:
            e = dec_scalar(el)
            if e is None:
                out += setup_value(el, tmp)
                e = v(tmp)
            out.append(('push', v(name), ('list', [e])))
    for j, (k, val) in enumerate(d):
        tmp = sv(name[1] + 'd' + 'abcdefghij'[j])
        e = dec_scalar(val)
        if e is None:
            out += setup_value(val, tmp)
            e = v(tmp)
        out.append(put_at(e, v(name), dec_scalar(k)))
    return out


def parse_arr(enc):
    """split a one-level array encoding into (seq encodings, [(key, val)])"""
    assert enc[0] == '[' and enc[-1] == ']'
    body = enc[1:-1]
    depth = 0
    parts = ['']
    bar = None
    for c in body:
        if c == '[':
            depth += 1
        if c == ']':
            depth -= 1
        if depth == 0 and c == '|':
            bar = len(parts)
            parts.append('')
            continue
        if depth == 0 and c == ',':
            parts.append('')
            continue
        parts[-1] += c
    seq = [p for p in parts[:bar] if p]
    d = []
    for p in parts[bar:]:
        if p:
            k, val = p.split('=', 1)
            d.append((k, val))
    return seq, d


# ----------------------------------------------------------------------------- rendering

def render(rng, blocks, plain=False):
    if plain:
        sp = rock.Speller(rng, noise=0, comments=0, recase=0, aliases=False, optional=False, eol_punct=0)
    else:
        sp = rock.Speller(rng, noise=0.03, comments=0.02, recase=0.1, eol_punct=0.05)
    return sp.program(blocks)


# ----------------------------------------------------------------------------- control-flow programs (C04)

class Flow:
    """Terminating programs of nested if/else/while/until with say-markers before/after every
    statement, break/continue (both spellings) at every depth, conditions of every value kind.
    `reference(prog)` is an independent signal-passing interpreter for exactly this fragment."""

    # (tiny non-zero numbers are true: truthiness is `!= 0`, not a tolerance)
    CONDS = [MYST, NULL, TRUE, FALSE, num(0), num(1), num(-1) if False else num(2), st(''), st('x'), st('0'),
             num(1e-17), num(5e-324), num(2.0 ** -52), num(1e-300)]

    def __init__(self, rng):
        self.rng = rng
        self.marker = 100
        self.counter = 0
        self.flags = [sv('fa'), sv('fb'), sv('fc')]

    def mark(self):
        self.marker += 1
        return say(num(self.marker))

    TICK = ('simple', 'tick')

    def tick(self, e):
        """a condition with a side effect: `tick taking e` prints a marker and yields e"""
        self.uses_tick = True
        return ('call', self.TICK, [e])

    def atom(self, d=2):
        rng = self.rng
        r = rng.random()
        if d > 0 and r < 0.2:
            return not_(self.atom(d - 1))           # `not` binds tighter than and/or/nor
        if r < 0.65:
            return rng.choice(self.CONDS)
        return v(rng.choice(self.flags))

    def cond(self, d=2):
        """left-associative chain of and/or/nor over atoms (there are no parentheses)"""
        rng = self.rng
        e = self.atom()
        k = rng.choice([0, 0, 0, 1, 1, 2])
        for i in range(k):
            a = self.atom()
            if i == k - 1 and rng.random() < 0.25 and a[0] != 'un':
                a = self.tick(a)          # only as the LAST operand: a call's argument list would swallow `and x`
            e = bin_(rng.choice(['and', 'or', 'nor']), e, a)
        if k == 0 and rng.random() < 0.2 and e[0] != 'un':
            e = self.tick(e)
        return e

    def stmts(self, depth, loops, n=None):
        rng = self.rng
        out = []
        n = rng.randint(1, 4) if n is None else n
        for _ in range(n):
            r = rng.random()
            out.append(self.mark())
            if depth > 0 and r < 0.25:
                els = self.stmts(depth - 1, loops, rng.randint(0, 3)) if rng.random() < 0.5 else None
                out.append(('if', self.cond(), self.stmts(depth - 1, loops, rng.randint(0, 3)), els))
            elif depth > 0 and r < 0.45:
                self.counter += 1
                c = sv('c' + alpha(self.counter))
                k = rng.randint(0, 3)
                out.append(put(num(0), c))
                body = [('inc', c, 1)] + self.stmts(depth - 1, loops + 1, rng.randint(0, 4))
                lhs_ = self.tick(v(c)) if rng.random() < 0.25 else v(c)     # `tick taking c is less than k`
                if rng.random() < 0.5:
                    cond = ('bin', 'less', lhs_, [num(k)], 'is')
                    out.append(('while', cond, body))
                else:
                    cond = ('bin', 'greatereq', lhs_, [num(k)], 'is')
                    out.append(('until', cond, body))
            elif r < 0.6:
                out.append(put(rng.choice(self.CONDS), rng.choice(self.flags)))
            elif r < 0.75 and loops > 0:
                out.append((rng.choice(['break', 'continue']), rng.random() < 0.5))
            else:
                out.append(self.mark())
        return out

    def program(self, depth=3):
        init = [put(self.rng.choice(self.CONDS), f) for f in self.flags]
        body = self.stmts(depth, 0, self.rng.randint(2, 5))
        if getattr(self, 'uses_tick', False):
            init = [('func', self.TICK, [sv('pp')], [say(num(99)), ('return', v(sv('pp')), False, False)])] + init
        return [init + body]


def alpha(n):
    out = ''
    while True:
        out = 'abcdefghijklmnopqrstuvwxyz'[n % 26] + out
        n //= 26
        if n == 0:
            return out


def ref_truthy(x):
    if x is None or x == 'null':
        return False
    if isinstance(x, bool):
        return x
    if isinstance(x, float):
        return x != 0
    return True


def ref_flow(prog, limit=100000):
    """textbook big-step semantics: a statement returns normal | break | continue; blocks stop at
    the first non-normal signal; loops test before every iteration; break/continue are
    absorbed by the nearest loop; at top level a stray signal ends the program. Returns the
    list of markers printed."""
    out = []
    env = {}
    steps = [0]

    def ev(e):
        t = e[0]
        if t == 'lit':
            l = e[1]
            if l == 'mysterious':
                return None
            if l == 'null':
                return 'null'
            if l == 'true':
                return True
            if l == 'false':
                return False
            return l[1]
        if t == 'id':
            return env[e[1][1]]
        if t == 'un':
            return not ref_truthy(ev(e[2]))
        if t == 'call':
            x = ev(e[2][0])
            out.append(99)
            return x
        if t == 'bin':
            op = e[1]
            a = ev(e[2])
            if op in ('less', 'greatereq', 'eq'):
                b = ev(e[3][0])
                return a < b if op == 'less' else a >= b if op == 'greatereq' else a == b      # (numbers only)
            ta = ref_truthy(a)
            if op == 'and':
                return ta and ref_truthy(ev(e[3][0]))
            if op == 'or':
                return ta or ref_truthy(ev(e[3][0]))
            if op == 'nor':
                return (not ta) and not ref_truthy(ev(e[3][0]))
        raise ValueError(e)

    def block(stmts):
        for s in stmts:
            sig = stmt(s)
            if sig != 'normal':
                return sig
        return 'normal'

    def stmt(s):
        steps[0] += 1
        if steps[0] > limit:
            raise RuntimeError('limit')
        t = s[0]
        if t == 'func':
            return 'normal'
        if t == 'output':
            out.append(int(s[1][1][1]))
            return 'normal'
        if t == 'assign':
            env[s[1][1][1]] = ev(s[3][0])
            return 'normal'
        if t == 'inc':
            env[s[1][1]] += 1
            return 'normal'
        if t == 'if':
            if ref_truthy(ev(s[1])):
                return block(s[2])
            if s[3] is not None:
                return block(s[3])
            return 'normal'
        if t in ('while', 'until'):
            while ref_truthy(ev(s[1])) == (t == 'while'):
                sig = block(s[2])
                if sig == 'break':
                    break
            return 'normal'
        if t in ('break', 'continue'):
            return t
        raise ValueError(s)

    for b in prog:
        if block(b) != 'normal':
            break
    return out
