"""Analysis checks: C16 (visitors), C17 (constant folder), C18/C19 (lint), C20 (command line)."""
import os
import re
import struct
import subprocess
import tempfile

from . import common, rock, progs
from .common import hx, unhx
from .p_exec import run_req, run_parts, proj_run
from .progs import num, st, v, sv, bin_, neg, not_, say, put, put_at, let, sub, call, MYST, NULL, TRUE, FALSE


def first_word(r):
    return r.split(' ', 1)[0] if r else ''


# ----------------------------------------------------------------------------- C16: independent node enumeration

def ev_name(n):
    if n[0] == 'simple':
        return ['V', 's:' + hx(n[1])]
    if n[0] == 'common':
        return ['V', 'c:%s:%s' % (hx(n[1]), hx(n[2]))]
    return ['V', 'r:' + ':'.join(hx(w) for w in n[1])]


def ev_ident(i):
    if i[0] == 'pronoun':
        return ['I', 'p']
    return ['I'] + ev_name(i)


def ev_lit(l):
    if isinstance(l, str):
        return ['l:' + {'mysterious': 'mysterious', 'null': 'null', 'true': 'bool', 'false': 'bool'}[l]]
    return ['l:' + l[0]]


def ev_prim(p):
    t = p[0]
    if t == 'lit':
        return ['P'] + ev_lit(p[1])
    if t == 'id':
        return ['P'] + ev_ident(p[1])
    if t == 'sub':
        return ['P'] + ev_prim(p[1]) + ev_prim(p[2])
    if t == 'call':
        out = ['P'] + ev_name(p[1])
        for a in p[2]:
            out += ev_expr(a)
        return out
    if t == 'popx':
        return ['P', 'O'] + ev_prim(p[1])
    raise ValueError(p)


def ev_expr(e):
    t = e[0]
    if t == 'bin':
        out = ['E'] + ev_expr(e[2]) + ['b:' + e[1]]
        for x in e[3]:
            out += ev_expr(x)
        return out
    if t == 'un':
        return ['E', 'u:' + e[1]] + ev_expr(e[2])
    return ['E'] + ev_prim(e)


def ev_lhs(l):
    if l[0] == 'lid':
        return ['L'] + ev_ident(l[1])
    return ['L'] + ev_prim(l[1]) + ev_prim(l[2])


def ev_plit(elems):
    return [{'w': 'w', 's': 'x', 'dot': 'd'}[e[0]] for e in elems]


def ev_stmt(s):
    """events of one statement in field declaration order"""
    t = s[0]
    if t == 'assign':
        out = ev_lhs(s[1])
        if s[2]:
            out.append('b:' + s[2])
        out.append('R')
        for e in s[3]:
            out += ev_expr(e)
        return out
    if t == 'pnum':
        out = ev_lhs(s[1]) + ['Q']
        return out + (ev_expr(s[2][1]) if s[2][0] == 'pexpr' else ev_plit(s[2][1]))
    if t == 'pstr':
        return ev_lhs(s[1])
    if t == 'if':
        out = ev_expr(s[1]) + ev_block(s[2])
        if s[3] is not None:
            out += ev_block(s[3])
        return out
    if t in ('while', 'until'):
        return ev_expr(s[1]) + ev_block(s[2])
    if t in ('inc', 'dec'):
        return ev_ident(s[1])
    if t == 'input':
        return [] if s[1] is None else ev_lhs(s[1])
    if t == 'output':
        return ev_expr(s[1])
    if t == 'mut':
        out = ev_prim(s[2])
        if s[3] is not None:
            out += ev_lhs(s[3])
        if s[4] is not None:
            out += ev_expr(s[4])
        return out
    if t == 'round':
        return ev_expr(s[2])
    if t in ('continue', 'break'):
        return []
    if t == 'push':
        out = ev_prim(s[1])
        if s[2] is not None:
            out.append('U')
            if s[2][0] == 'list':
                for e in s[2][1]:
                    out += ev_expr(e)
            else:
                out += ev_plit(s[2][1])
        return out
    if t == 'pop':
        out = ['O'] + ev_prim(s[1])
        if s[2] is not None:
            out += ev_lhs(s[2])
        return out
    if t == 'return':
        return ev_expr(s[1])
    if t == 'func':
        out = ev_name(s[1])
        for p in s[2]:
            out += ev_name(p)
        return out + ev_block(s[3])
    if t == 'callstmt':
        out = ev_name(s[1])
        for a in s[2]:
            out += ev_expr(a)
        return out
    raise ValueError(s)


def ev_block(stmts):
    out = []
    for s in stmts:
        out += ev_stmt(s)
    return out


def ev_program(blocks):
    out = []
    for b in blocks:
        out += ev_block(b)
    return out


def is_leaf(e):
    return e[0].islower()


def c16(run):
    rng = run.rng
    n = run.n(400, 15000)
    run.rule = ('parsed C02 programs (all statement kinds, else blocks, mutation parameters, function parameters, list tails, nested '
                'subscripts) walked by a recording visitor written against the public traits only, once without failure and at fail '
                'indices spread over the walk (every index in the thorough tier for small trees); oracle: an independent enumeration of the '
                'tree in field order, computed in the check from the generated tree; non-trivial = >= 10 events; distinct by (program, fail index)')
    progs_ = []
    for i in range(n):
        g = rock.Gen(rng, max_depth=rng.randint(1, 3))
        prog = g.program(depth=rng.randint(0, 2))
        src = rock.Speller(rng, noise=0, comments=0, recase=0.1).program(prog)
        progs_.append((prog, src, ev_program(prog)))
    reqs, meta = [], []
    for prog, src, evs in progs_:
        fails = ['-']
        k = len(evs)
        if k:
            if run.tier == 'thorough' and k <= 40:
                fails += [str(i) for i in range(k + 1)]
            else:
                fails += [str(i) for i in sorted(set([0, k - 1, k, rng.randrange(k), rng.randrange(k), rng.randrange(k)]))]
        for f in fails:
            reqs.append('walk %s %s' % (hx(src), f))
            meta.append((src, evs, f))
    m, im = run.tie(reqs, functional=True, desc=lambda i: {'program': meta[i][0], 'fail': meta[i][2]})
    for (src, evs, f), r in zip(meta, im):
        if r is None:
            continue
        run.case((src, f), len(evs) >= 10, sample={'program': src[:200], 'fail': f, 'answer': r[:200]} if rng.random() < 0.002 else None,
                 events=min(len(evs) // 10 * 10, 100), fail=(f != '-'))
        case = {'program': src, 'fail': f, 'answer': r[:600], 'expected_events': ','.join(evs)[:600]}
        w = first_word(r)
        if w not in ('ok', 'err'):
            run.fail(case, 'walking a program does not return: ' + r[:40])
            continue
        if f == '-' or int(f) >= len(evs):
            if w != 'ok':
                run.fail(case, 'the walk fails although no callback failed')
                continue
            body = r[3:]
            got_ev, got_out = body.split(' | ') if ' | ' in body else (body.rstrip(' |'), '')
            got_ev = [x for x in got_ev.strip().split(',') if x]
            if got_ev != evs:
                run.fail(case, 'the visitor did not see every node exactly once in field order')
                continue
            want_out = [str(i) for i, e in enumerate(evs) if is_leaf(e)]
            if [x for x in got_out.strip().split(',') if x] != want_out:
                run.fail(case, 'results are not folded left to right from the default')
        else:
            k = int(f)
            if w != 'err' or r.split(' ')[1] != f:
                run.fail(case, 'the first error returned by a callback is not returned unchanged by the walk')
                continue
            got_ev = [x for x in r.split(' ', 2)[2].split(',') if x] if len(r.split(' ', 2)) > 2 else []
            if got_ev != evs[:k + 1]:
                run.fail(case, 'callbacks invoked up to the failing one are not exactly the first i+1 nodes')


    # a visitor whose output records the SHAPE of the fold (neither associative nor with a neutral default): results are
    # combined from the default, left to right, exactly as the model's walk combines them
    shq = ['walkshape ' + hx(src) for _, src, _ in progs_]
    run.tie(shq, functional=True, desc=lambda i: {'program': progs_[i][1], 'section': 'fold shape'})
    for _, src, _ in progs_:
        run.case(('shape', src), True, kind='fold-shape')
    # a visitor that overrides the LEAF callbacks only (every dispatching method is the library's default body, which the full
    # recorder re-implements and so cannot observe): the leaves, in order, are those of the independent enumeration
    lq, lmeta = [], []
    for prog, src, evs in progs_:
        leaves = [e for e in evs if is_leaf(e)]
        fs = ['-'] + ([str(rng.randrange(len(leaves)))] if leaves else [])
        for f in fs:
            lq.append('walkleaf %s %s' % (hx(src), f))
            lmeta.append((src, leaves, f))
    lans = common.impl(lq)
    for (src, leaves, f), r in zip(lmeta, lans):
        if r == 'skipped':
            continue
        run.case(('leaf', src, f), True, kind='leaves-only-visitor')
        case = {'program': src, 'fail': f, 'answer': r[:600], 'expected_leaves': ','.join(leaves)[:600]}
        if f == '-':
            got = [x for x in r[3:].strip().split(',') if x] if r.startswith('ok') else None
            if got != leaves:
                run.fail(case, 'a visitor overriding only leaf callbacks is not presented every leaf exactly once in field order')
        else:
            k = int(f)
            got = [x for x in r.split(' ', 2)[2].split(',') if x] if r.startswith('err %s ' % f) or r == 'err %s' % f else None
            if got != leaves[:k + 1]:
                run.fail(case, 'the first error returned by a leaf callback is not returned unchanged / leaves before it differ')
    # TREE level: trees no source text parses to (one-word / zero-word proper names, NaN and negative literals, erased
    # positions, inc by 0), obtained by rewriting the printed tree; walked on both sides from the tree itself
    from . import trees
    tsrc = [src for _, src, _ in progs_[:run.n(150, 3000)]]
    pans = common.impl(['parse ' + hx(t) for t in tsrc])
    tq, tmeta = [], []
    for src, a in zip(tsrc, pans):
        t = trees.tree_of(a)
        if t is None:
            continue
        for lab, mt in trees.mutations(t, rng):
            for f in ['-', str(rng.randint(0, 12))]:
                tq.append('walkt %s %s' % (hx(mt), f))
                tmeta.append((lab, mt, f))
    tm, tim = run.tie(tq, functional=True, desc=lambda i: {'tree': tmeta[i][1][:1500], 'variant': tmeta[i][0], 'fail': tmeta[i][2], 'section': 'tree level'})
    for lab, mt, f in tmeta:
        run.case(('tree', mt, f), True, kind='tree-level:' + lab)
    # ... and by the leaves-only visitor: its leaves are the leaf events of the model's walk of the same tree
    lq = ['walkleaft %s -' % hx(mt) for (lab, mt, f) in tmeta if f == '-']
    lexp = [a for (lab, mt, f), a in zip(tmeta, tm) if f == '-']
    lmt = [(lab, mt) for (lab, mt, f) in tmeta if f == '-']
    for (lab, mt), want, got in zip(lmt, lexp, common.impl(lq)):
        if got == 'skipped' or not want.startswith('ok '):
            continue
        evs_ = [x for x in want[3:].split(' | ')[0].strip().split(',') if x]
        leaves = [e for e in evs_ if is_leaf(e)]
        g = [x for x in got[3:].strip().split(',') if x] if got.startswith('ok') else None
        run.case(('tree-leaf', mt), True, kind='tree-level-leaves:' + lab)
        if g != leaves:
            run.fail({'tree': mt[:1500], 'variant': lab, 'answer': got[:400], 'expected_leaves': ','.join(leaves)[:400]},
                     'a visitor overriding only leaf callbacks is not presented every leaf of the TREE exactly once in field order')
    # (a) deeply nested blocks (8 ... 600 levels: nothing may be skipped however deep), (b) ONE runner reused: K walks that fail
    # at callback W, then the reported walk -- a runner carries no state from walk to walk, so the answer is that of a fresh
    # `walk` (the model's, and the implementation's own `walk` answer)
    deep = []
    for nn in [8, 9, 64, 255, 256, 257, 400, 511, 512, 513, 600]:
        deep.append('while x\n' * nn + 'say y plus 1\n' + '\n' * nn + 'say z\n')
        deep.append('if x\n' * nn + 'put 1 into y\n' + '\n' * nn)
    dreqs = ['walk %s -' % hx(t) for t in deep]
    dm, dim = run.tie(dreqs, functional=True, desc=lambda i: {'program': deep[i][:100] + ' ...', 'section': 'deep nesting'})
    for t, r in zip(deep, dim):
        run.case(('deep', t), True, kind='deep-nesting')
        if r is not None and first_word(r) not in ('ok', 'err'):
            run.fail({'program': t[:100] + ' ...', 'answer': r[:100]}, 'walking a deeply nested program does not return')
    seq_src = [src for _, src, evs in progs_[:run.n(60, 1000)] if len(evs) >= 3]
    sq, sqm = [], []
    for src in seq_src:
        for k in (1, 3, 300):
            w = rng.randint(0, 6)
            f = rng.choice(['-', '-', str(rng.randint(0, 6))])
            sq.append('walkseq %s %d %d %s' % (hx(src), w, k, f))
            sqm.append('walk %s %s' % (hx(src), f))
    got = common.impl(sq)
    ref_m = common.model(sqm)
    ref_i = common.impl(sqm)
    for q, q1, g, a, b in zip(sq, sqm, got, ref_m, ref_i):
        run.case(('walkseq', q), True, kind='reused-runner')
        if g != b or (a.split(' ')[0] not in ('fuel', 'resource') and g != a):
            run.fail({'request': q, 'reused_runner': g[:300], 'fresh_runner': b[:300], 'model': a[:300]},
                     'a runner that has been used for earlier (failing) walks presents the tree differently from a fresh one')


# ----------------------------------------------------------------------------- C17

def const_expr(rng, d):
    """built solely from number literals, unary minus and + - * / with list operands"""
    g = rock.Gen(rng, max_depth=d, allow_calls=False, allow_pop=False, funcs=[])
    g.nonsub = lambda dd, open_ok: ('lit', ('num', g.number()))
    g.primary = lambda dd, open_ok: ('lit', ('num', g.number()))
    orig_unary = g.unary

    def unary(dd, open_ok, neg_ok=True):
        if dd > 0 and rng.random() < 0.2 and neg_ok:
            return ('un', 'minus', unary(dd - 1, open_ok))
        return ('lit', ('num', g.number()))
    g.unary = unary
    return g.term(d)


def special_mixed_expr(rng):
    """a constant sub-expression with a SPECIAL value (NaN, +-inf, 0, -0, 1) combined by + - * / with an operand that is not a
    numeric constant (variable, call, pop, element, string/boolean/null literal), in either order or inside a list"""
    S = rng.choice([bin_('divide', num(0), num(0)), bin_('divide', num(1), num(0)), bin_('divide', neg(num(1)), num(0)),
                    num(0), bin_('multiply', num(0), neg(num(5))), num(1), num(5),
                    bin_('minus', bin_('divide', num(1), num(0)), bin_('divide', num(1), num(0))),
                    bin_('multiply', bin_('divide', num(1), num(0)), num(0))])
    g = rock.Gen(rng, names=[sv('xx'), sv('yy')], funcs=[sv('ff')], max_depth=1)
    R = rng.choice([v(sv('xx')), v(sv('yy')), st('abc'), st('2'), TRUE, NULL, MYST, call(sv('ff'), num(2)), call(sv('ff'), st('q')),
                    ('popx', v(sv('zz'))), sub(v(sv('zz')), num(0))])
    op = rng.choice(['plus', 'minus', 'multiply', 'divide'])
    low = op in ('plus', 'minus')
    if S[0] == 'bin' and S[1] in ('plus', 'minus') and not low:
        op, low = 'plus', True
    r = rng.random()
    if r < 0.5:
        return ('bin', op, S, [R])
    if r < 0.7:
        return ('bin', op, S, [num(rng.randint(0, 3)), R])
    if r < 0.8:
        return ('bin', op, S, [R, num(rng.randint(0, 3))])
    if low:
        return ('bin', op, R, [S])
    return ('bin', op, R, [num(0), S] if S[0] == 'lit' else [num(0)])


def reads(e):
    t = e[0]
    if t == 'bin':
        return reads(e[2]) or any(reads(x) for x in e[3])
    if t == 'un':
        return reads(e[2])
    return t in ('id', 'sub', 'call', 'popx')


def is_const(e):
    t = e[0]
    if t == 'bin':
        return e[1] in ('plus', 'minus', 'multiply', 'divide') and is_const(e[2]) and all(is_const(x) for x in e[3])
    if t == 'un':
        return e[1] == 'minus' and is_const(e[2])
    return t == 'lit' and not isinstance(e[1], str) and e[1][0] == 'num'


def c17(run):
    rng = run.rng
    n = run.n(3000, 120000)
    run.rule = ('random expressions: constant ones (number literals, unary minus, + - * / with list operands, nested to depth 4) and '
                'non-constant ones (all operators, variables, pronouns, subscripts, calls, pops, every literal kind), and constants of special '
                'value (NaN, +-inf, 0, -0) combined with a non-constant operand in either order or in a list; the folders are run '
                'through the public API and the same expression is executed by `say`; the printed text must be the Display of the folded '
                'value (numbers through the implementation\'s own formatter), constants must fold, expressions that read must not; '
                'non-trivial = at least 2 operators; distinct by expression text')
    cases = []
    names = [sv('xx'), sv('yy'), ('common', 'my', 'heart'), ('proper', ['Doctor', 'Feelgood'])]
    for i in range(n):
        r = rng.random()
        if r < 0.45:
            e = const_expr(rng, rng.randint(0, 4))
        elif r < 0.6:
            e = special_mixed_expr(rng)
        else:
            g = rock.Gen(rng, names=names, funcs=[sv('ff')], max_depth=rng.randint(0, 3))
            e = g.expr()
        sp = rock.Speller(rng, noise=0.02, comments=0)
        text = sp.join([sp.kw('Say')] + sp.expr(e)) + '\n'
        cases.append((e, text))
    reqs = ['fold ' + hx(t) for _, t in cases]
    m, im = run.tie(reqs, functional=True, desc=lambda i: {'expression': cases[i][1]})
    pre = 'put 3 into xx\nput "s" into yy\nput 4 into my heart\nput 6 into Doctor Feelgood\nrock zz with 7, 8, 9\nff takes pp\ngive back pp\n\n'
    rreqs = [run_req(pre + t) for _, t in cases]
    rm, rim = run.tie(rreqs, proj=proj_run, functional=True, desc=lambda i: {'program': pre + cases[i][1]})
    fmt_reqs, fmt_idx = [], []
    for i, r in enumerate(im):
        if r and r.startswith('num=ok:'):
            fmt_reqs.append('fmt ' + r[7:23])
            fmt_idx.append(i)
    fm = dict(zip(fmt_idx, common.impl(fmt_reqs)))
    for i, ((e, text), r, rr) in enumerate(zip(cases, im, rim)):
        if r is None or rr is None:
            continue
        d = rock.dump_expr(e)
        nops = d.count('(bin ') + d.count('(un ')
        run.case(text, nops >= 2, sample={'expression': text.strip(), 'fold': r, 'run': rr[:80]} if rng.random() < 0.002 else None,
                 const=is_const(e), reads=reads(e), folded=r.split(' ')[0][:6])
        case = {'expression': text, 'fold': r, 'run': rr[:200]}
        if first_word(r) in ('crash', 'hang', 'bad'):
            run.fail(case, 'constant folding does not return: ' + r[:40])
            continue
        nf, sf = r.split(' ')
        c, det, out, _ = run_parts(rr)
        if nf.startswith('num=ok:'):
            want = unhx(fm[i]).decode() + '\n'
            if c != 'ok' or out.decode('utf-8', 'replace') != want:
                run.fail(case, 'the folder reports %s but executing the expression gives %s %r' % (want.strip(), c, out.decode('utf-8', 'replace')))
        if sf.startswith('str=ok:'):
            want = unhx(sf[7:]).decode() + '\n'
            if c != 'ok' or out.decode('utf-8', 'replace') != want:
                run.fail(case, 'the string folder reports %r but executing the expression gives %s %r' % (want, c, out))
        if is_const(e) and not nf.startswith('num=ok:'):
            run.fail(case, 'an expression built solely from number literals and arithmetic does not fold')
        if reads(e) and (nf.startswith('num=ok:') or sf.startswith('str=ok:')):
            run.fail(case, 'a value is reported for an expression that reads a variable, pronoun, element, call or pop')


    # the folders asked at STATEMENT level through the trait's public dispatchers (`rock A like/with ...`, `X is ...`): a value
    # they report must be the value the executed statement stores (model-free: the statement is run and the stored value
    # printed)
    g = rock.Gen(rng, names=[sv('xx')], funcs=[sv('ff')], max_depth=1)
    sq, smeta = [], []
    for _ in range(run.n(400, 8000)):
        r = rng.random()
        if r < 0.12:
            # 14..24 plain words: integers around and beyond 2^53 / 2^64, where every shortcut rounds differently
            words = [('w', ''.join(rng.choice('abcdefghij') for _ in range(rng.randint(1, 9)))) for _ in range(rng.randint(14, 24))]
            if rng.random() < 0.5:
                stmt = ('push', v(sv('qs')), ('plit', words)); obs = 'say qs at 0\n'
            else:
                stmt = ('pnum', ('lid', sv('zz')), ('plit', words)); obs = 'say zz\n'
        elif r < 0.35:
            words = g.poetic_words()
            stmt = ('push', v(sv('qs')), ('plit', words)); obs = 'say qs at 0\n'
        elif r < 0.55:
            e = const_expr(rng, rng.randint(0, 2)) if rng.random() < 0.7 else special_mixed_expr(rng)
            stmt = ('push', v(sv('qs')), ('list', [e])); obs = 'say qs at 0\n'
        elif r < 0.8:
            stmt = ('pnum', ('lid', sv('zz')), ('plit', g.poetic_words())); obs = 'say zz\n'
        else:
            x = rng.choice([5.0, 0.25, 42.0])
            e = rng.choice([num(x), bin_('plus', num(x), num(1)), bin_('multiply', num(x), v(sv('xx'))), st('lit'), TRUE])
            stmt = ('pnum', ('lid', sv('zz')), ('pexpr', e)); obs = 'say zz\n'
        try:
            text = rock.Speller(rng, noise=0.02, comments=0).program([[stmt]])
        except Exception:
            continue
        sq.append('foldstmt ' + hx(text)); smeta.append((text, obs))
    sans = common.impl(sq)
    pre2 = 'put 3 into xx\nff takes pp\ngive back pp\n\n'
    exq = [run_req(pre2 + t + o) for (t, o) in smeta]
    exa = common.impl(exq)
    fq = ['fmt ' + a[7:23] for a in sans if a.startswith('num=ok:')]
    fa = iter(common.impl(fq))
    for (text, obs), a, ra in zip(smeta, sans, exa):
        if a in ('skipped', 'bad') or ra == 'skipped':
            continue
        run.case(('foldstmt', text), True, kind='statement-level-fold', folded=a.split(' ')[0][:6])
        nf, sf = a.split(' ')
        c, det, out, _ = run_parts(ra)
        case = {'statement': text, 'fold': a, 'run': ra[:200]}
        if 'crash' in a:
            run.fail(case, 'constant folding of a statement\'s right-hand side does not return')
        if nf.startswith('num=ok:'):
            want = unhx(next(fa)).decode() + '\n'
            if c != 'ok' or out.decode('utf-8', 'replace') != want:
                run.fail(case, 'the folder reports %s for the right-hand side but the executed statement stores %s %r' % (want.strip(), c, out.decode('utf-8', 'replace')))
        if sf.startswith('str=ok:'):
            want = unhx(sf[7:]).decode() + '\n'
            if c != 'ok' or out.decode('utf-8', 'replace') != want:
                run.fail(case, 'the string folder reports %r for the right-hand side but the executed statement stores %s %r' % (want, c, out))


# ----------------------------------------------------------------------------- C18 / C19

def parse_lint(r):
    f = r.split(' ', 2)
    if f[0] != 'ok':
        return None
    out = []
    body = f[2] if len(f) > 2 else ''
    if body:
        for d in body.split(';'):
            k = d.split(',')
            out.append({'line': int(k[0]), 'issue': unhx(k[1]).decode(), 'suggestions': [unhx(x).decode() for x in k[3:]]})
    return out


BQ = re.compile(r'`([^`]*)`', re.S)


def diag_struct(d):
    """what a diagnostic NAMES, independent of its wording: the back-quoted fields of the issue
    (2 = value and target of a constant assignment, 1 = the repeated identifier), its line, and the
    back-quoted payload of each suggestion"""
    fields = BQ.findall(d['issue'])
    return {'line': d['line'], 'kind': 'boring' if len(fields) == 2 else 'missed' if len(fields) == 1 else 'other',
            'fields': fields, 'payloads': [BQ.findall(s_)[-1] if BQ.findall(s_) else '' for s_ in d['suggestions']]}


def lint_proj(r):
    d = parse_lint(r)
    if d is None:
        return r.split(' x')[0]
    return [diag_struct(x) for x in d]


def lint_program(rng):
    """programs with assignments of every form at every depth whose right-hand sides are constants
    of every class and non-constants; returns (blocks, expectations) where expectations are
    (kind, target render, value descriptor) in traversal order for the boring-assignment pass"""
    names = [sv('xx'), ('common', 'my', 'heart'), ('proper', ['Doctor', 'Feelgood'])]
    g = rock.Gen(rng, names=names, funcs=[sv('ff')], max_depth=2)
    exp = []

    def render_name(n):
        if n[0] == 'simple':
            return n[1]
        if n[0] == 'common':
            return n[1] + ' ' + n[2]
        if n[0] == 'proper':
            return ' '.join(n[1])
        return '<pronoun>'

    def render_lhs(l):
        return render_name(l[1]) if l[0] == 'lid' else '<expression>'

    def rhs():
        """(expression, constant descriptor or None)"""
        r = rng.random()
        if r < 0.3:
            x = rng.choice([0.0, 5.0, 10.0, 105.0, 3.14, 0.5, 100.0, 1e21, 0.001, 123456789.0, 2.0 ** 60])
            return num(x), ('num', x)
        if r < 0.45:
            e = const_expr(rng, 2)
            return e, ('numexpr', e)
        if r < 0.55:
            x = rng.choice([5.0, 0.5, 1e300])
            e = rng.choice([neg(num(x)), bin_('divide', num(1), num(0)), bin_('divide', num(0), num(0)), bin_('minus', num(1), num(x + 2)),
                            neg(num(0)), bin_('multiply', num(0), neg(num(5))), bin_('divide', num(0), neg(num(2))), bin_('divide', neg(num(1)), num(0))])
            return e, ('numexpr', e)
        if r < 0.7:
            s = rng.choice(['hello', '', 'with spaces', 'pun,ct!', 'two\nlines', 'é', ' lead', 'a (b) c', '(open', 'close)', 'x (y) (z',
                            ')(', '(a) (b)', 'say 5', 'trail '])
            return st(s), ('str', s)
        if r < 0.8:
            return rng.choice([TRUE, NULL, MYST]), None
        if r < 0.86:
            # not constants although built from literals only: a pop or a call whose operand is a literal
            e = rng.choice([('popx', st('abc')), ('popx', num(5)), ('popx', ('popx', st('q'))), call(sv('ff'), st('a')), call(sv('ff'), num(1)),
                            bin_('plus', num(1), ('popx', num(2))), ('popx', ('lit', ('str', '')))])
            return e, 'unknown'
        e = g.expr(2)
        while not reads(e):
            e = g.expr(2)
        return e, 'unknown'

    def stmts(depth):
        out = []
        for _ in range(rng.randint(1, 4)):
            r = rng.random()
            if depth > 0 and r < 0.15:
                out.append(('if', g.expr(1), stmts(depth - 1), stmts(depth - 1) if rng.random() < 0.5 else None))
            elif depth > 0 and r < 0.25:
                out.append((rng.choice(['while', 'until']), g.expr(1), stmts(depth - 1)))
            elif depth > 0 and r < 0.32:
                body = stmts(depth - 1)
                for i, s_ in enumerate(body[:-1]):
                    if s_[0] == 'if' and s_[3] is not None:
                        body[i] = ('if', s_[1], s_[2], None)
                out.append(('func', sv('ff'), [sv('pp')], body))
            elif r < 0.5:
                e, c = rhs()
                l = g.lhs()
                le = rock.left_edge(e)
                if rng.random() < 0.5 or (le[0] == 'un' and le[1] == 'minus'):
                    # (`let x be -…` would read the minus as a compound operator)
                    out.append(('assign', l, None, [e], 'put'))
                else:
                    out.append(('assign', l, None, [e], 'let'))
                out[-1] = out[-1] + (('boring', render_lhs(l), c),)
            elif r < 0.58:
                e, c = rhs()
                out.append(('assign', g.lhs(), rng.choice(['plus', 'minus']), [e], 'let', ('boring', None, None)))
            elif r < 0.68:
                # poetic assignment with an expression: must start with a literal word
                x = rng.choice([5.0, 42.0, 0.25])
                e = rng.choice([num(x), st('lit'), bin_('plus', num(x), num(1)), TRUE,
                                bin_('plus', num(x), v(names[0])), bin_('multiply', num(x), call(sv('ff'), num(1))),
                                bin_('plus', st('lit'), v(names[1])), bin_('plus', num(x), ('popx', v(names[0])))])
                c = ('num', x) if e == num(x) else ('str', 'lit') if e[0] == 'lit' and e[1][0] == 'str' else \
                    'unknown' if reads(e) else ('numexpr', e) if e[0] == 'bin' else None
                l = g.lhs()
                out.append(('pnum', l, ('pexpr', e), ('boring', render_lhs(l), c)))
            elif r < 0.74:
                out.append(('pnum', g.lhs(), ('plit', g.poetic_words()), ('boring', None, None)))
            elif r < 0.86:
                e, c = rhs()
                arr = rng.choice([v(rng.choice(names)), sub(v(names[0]), num(1))])
                n_el = rng.random()
                if n_el < 0.2:
                    # (a binary expression may not be the first of several elements: its own list takes the comma)
                    out.append(('push', arr, ('list', [num(1), e]), ('boring', None, None)))
                elif n_el < 0.3:
                    out.append(('push', arr, ('plit', g.poetic_words()), ('boring', None, None)))
                else:
                    if c is not None and c != 'unknown' and c[0] == 'str':
                        c = None
                    out.append(('push', arr, ('list', [e]), ('boring', render_name(arr[1]) if arr[0] == 'id' else '<expression>', c)))
            else:
                s_ = g.simple_stmt(2)
                while s_[0] in ('assign', 'pnum', 'push'):
                    s_ = g.simple_stmt(2)
                out.append(s_)
        return out
    return [stmts(2) for _ in range(rng.randint(1, 2))]


def strip_marks(t):
    """remove the ('boring', …) annotations (always the last element of an annotated statement)"""
    if isinstance(t, tuple):
        if t and isinstance(t[-1], tuple) and t[-1] and t[-1][0] == 'boring':
            t = t[:-1]
        return tuple(strip_marks(x) for x in t)
    if isinstance(t, list):
        return [strip_marks(x) for x in t]
    return t


def fill_stars(payload, rng):
    return ''.join(rng.choice('bcdfghjklmqrvwxz') if c == '*' else c for c in payload)


def string_spellable(value):
    """a quoted string value has a poetic spelling iff it has no line break and leaves no comment open"""
    if not value.startswith('"'):
        return True
    inc = False
    for c in value[1:-1]:
        if c == '\n':
            return False
        if c == '(':
            inc = True
        elif c == ')':
            inc = False
    return not inc


SUGG = re.compile(r'^Consider using a poetic literal such as: `(.*)`$', re.S)


def c18(run):
    rng = run.rng
    n = run.n(700, 30000)
    run.rule = ('programs with assignments of every form (put, let, compound let, poetic with an expression, poetic literal, rock with '
                'one / several / poetic operands) at every nesting depth whose right-hand sides are constants of every class (zero digits, '
                'fractions, negatives, huge, non-finite, strings with spaces, punctuation, newlines) and non-constants; oracle: each '
                'suggestion, with every * replaced by a letter, is parsed and run by the implementation and must give the variable the '
                'reported value; non-trivial = at least 2 diagnostics; distinct by program text')
    cases = []
    for i in range(n):
        prog = lint_program(rng)
        clean = strip_marks(prog)
        src = rock.Speller(rng, noise=0.02, comments=0.03, recase=0.1).program(clean)
        cases.append((prog, src))
    reqs = ['lint ' + hx(src) for _, src in cases]

    def proj(r):
        p_ = lint_proj(r)
        return p_ if isinstance(p_, str) else [x for x in p_ if x['kind'] == 'boring']
    m, im = run.tie(reqs, proj=proj, functional=True, desc=lambda i: {'program': cases[i][1]})
    # constant assignments whose VALUE starts on a later line than their target (a comment or a string key with a line break in
    # between), in every assignment form: the line reported is where the value is
    spread = []
    for gap in ['(the\nchorus\ngoes here) ', '(a\nb) ', '(x) (y\n) ']:
        spread += ['x is %s5\n' % gap, 'x is %s"lit"\n' % gap, 'put %s5 into x\n' % gap, 'put 5 %sinto x\n' % gap, 'let x be %s5\n' % gap, 'let x %sbe 5\n' % gap,
                   'rock x with %s5\n' % gap, 'rock x %swith 5\n' % gap, "x's %s5\n" % gap, 'x %sis 5\n' % gap, 'say 1\nx is %s1 plus 2\nsay 2\n' % gap]
    spread += ['x at "a\nb" is 5\n', 'put 5 into x at "a\nb"\n', 'let x at "a\n\nb" be 5\n', 'rock x at "a\nb" with 5\n', 'x at "a\nb" is "s"\n']
    run.tie(['lint ' + hx(t) for t in spread], proj=proj, functional=True, desc=lambda i: {'program': spread[i], 'section': 'value on a later line than its target'})
    for t in spread:
        run.case(('spread', t), True, ndiags=1)
    follow, fmeta = [], []
    for (prog, src), r in zip(cases, im):
        if r is None:
            continue
        diags = parse_lint(r)
        if diags is None:
            run.fail({'program': src, 'answer': r[:200]}, 'linting a valid program fails: ' + r[:60])
            continue
        boring = [d for d in diags if diag_struct(d)['kind'] == 'boring']
        run.case(src, len(boring) >= 2, sample={'program': src[:300], 'diagnostics': boring[:3]} if rng.random() < 0.004 else None, ndiags=min(len(boring), 8))
        for d in boring:
            ds = diag_struct(d)
            value, target = ds['fields']
            for payload in ds['payloads']:
                if not payload:
                    run.fail({'program': src, 'diagnostic': d}, 'a suggestion names no statement')
                    continue
                if target.startswith('<'):
                    continue
                stmt = fill_stars(payload, rng)
                follow.append(run_req(stmt + '\nsay ' + target + (' at 0' if stmt.startswith('Rock ') else '') + '\n'))
                fmeta.append((src, d, value, target, stmt))
            if not d['suggestions']:
                run.count('no-suggestion')
                ok_none = value.startswith('-') or value in ('inf', 'NaN') or not string_spellable(value)
                if not ok_none:
                    run.fail({'program': src, 'diagnostic': d}, 'no suggestion although the value has a poetic spelling')
            else:
                if value.startswith('-') or value in ('inf', 'NaN', '-inf') or not string_spellable(value):
                    run.fail({'program': src, 'diagnostic': d}, 'a misleading suggestion is made for a value without poetic spelling')
    fr = common.impl(follow)
    for (src, d, value, target, stmt), r in zip(fmeta, fr):
        c, det, out, _ = run_parts(r)
        run.case(('sugg', stmt), True, kind='suggestion-replayed')
        case = {'program': src, 'diagnostic': d, 'suggested_statement': stmt, 'run': r[:200]}
        if c != 'ok':
            run.fail(case, 'the suggested line is not a valid statement (%s %s)' % (c, det))
            continue
        printed = out.decode('utf-8', 'replace')
        if value.startswith('"'):
            if printed != value[1:-1] + '\n':
                run.fail(case, 'the suggested poetic string does not give the variable the reported value')
        else:
            try:
                a, b = float(printed.strip()), float(value)
            except ValueError:
                run.fail(case, 'the suggested poetic number prints %r' % printed)
                continue
            from .p_front import ulp_distance
            if len(value) > 250:
                # literals with hundreds of digits: the rounding of poetic literals is not bounded there
                # (powers of ten over/underflow: recorded finding F2 of C11); not part of this comparison
                run.count('suggestion-with->250-digits-not-compared')
                continue
            if a != b and ulp_distance(a, b) > 8:
                run.fail(case, 'the suggested poetic words spell %r, the reported value is %s' % (printed.strip(), value))
    # expectations from the generator: a diagnostic exactly for the marked statements
    exp_reqs, exp_meta = [], []
    for (prog, src), r in zip(cases, im):
        if r is None:
            continue
        diags = parse_lint(r)
        if diags is None:
            continue
        boring = [d for d in diags if diag_struct(d)['kind'] == 'boring']
        want = expected_boring(prog)
        got = [diag_struct(d)['fields'][1] for d in boring]
        if sorted(got) != sorted(t for t, c in want):
            run.fail({'program': src, 'reported_targets': got, 'expected_targets': [t for t, c in want]},
                     'diagnostics are not reported exactly for the constant, non-compound, non-poetic right-hand sides')


def expected_boring(prog):
    """(target, descriptor) for every statement the pass must report, from the generator's marks"""
    out = []

    def foldable(c):
        return c is not None and c != 'unknown'

    def walk(t):
        if isinstance(t, tuple):
            if t and isinstance(t[-1], tuple) and t[-1] and t[-1][0] == 'boring':
                _, target, c = t[-1]
                if target is not None and foldable(c):
                    out.append((target, c))
                t = t[:-1]
            for x in t:
                walk(x)
        elif isinstance(t, list):
            for x in t:
                walk(x)
    walk(prog)
    return out


def mentions(prog):
    """variable-name mentions in traversal order: (name tuple, callee?)"""
    out = []

    def name(n, callee=False):
        out.append((repr(n), callee, n))

    def ident(i):
        if i[0] != 'pronoun':
            name(i)

    def prim(p):
        t = p[0]
        if t == 'id':
            ident(p[1])
        elif t == 'sub':
            prim(p[1]); prim(p[2])
        elif t == 'call':
            name(p[1], True)
            for a in p[2]:
                expr(a)
        elif t == 'popx':
            prim(p[1])

    def expr(e):
        if e[0] == 'bin':
            expr(e[2])
            for x in e[3]:
                expr(x)
        elif e[0] == 'un':
            expr(e[2])
        else:
            prim(e)

    def lhs(l):
        if l[0] == 'lid':
            ident(l[1])
        else:
            prim(l[1]); prim(l[2])

    def stmt(s):
        t = s[0]
        if t == 'assign':
            lhs(s[1])
            for e in s[3]:
                expr(e)
        elif t == 'pnum':
            lhs(s[1])
            if s[2][0] == 'pexpr':
                expr(s[2][1])
        elif t == 'pstr':
            lhs(s[1])
        elif t == 'if':
            expr(s[1]); block(s[2])
            if s[3] is not None:
                block(s[3])
        elif t in ('while', 'until'):
            expr(s[1]); block(s[2])
        elif t in ('inc', 'dec'):
            ident(s[1])
        elif t == 'input':
            if s[1] is not None:
                lhs(s[1])
        elif t in ('output', 'return'):
            expr(s[1])
        elif t == 'mut':
            prim(s[2])
            if s[3] is not None:
                lhs(s[3])
            if s[4] is not None:
                expr(s[4])
        elif t == 'round':
            expr(s[2])
        elif t == 'push':
            prim(s[1])
            if s[2] is not None and s[2][0] == 'list':
                for e in s[2][1]:
                    expr(e)
        elif t == 'pop':
            prim(s[1])
            if s[2] is not None:
                lhs(s[2])
        elif t == 'func':
            name(s[1])
            for p in s[2]:
                name(p)
            block(s[3])
        elif t == 'callstmt':
            name(s[1], True)
            for a in s[2]:
                expr(a)

    def block(b):
        for s in b:
            stmt(s)
    for b in prog:
        block(b)
    return out


def c19(run):
    rng = run.rng
    n = run.n(900, 40000)
    run.rule = ('parsed C02 programs rich in calls with arguments, parameters, subscripts, list operands, few names of mixed kinds and '
                'cases (so that repeated mentions are frequent); oracle: the mention list recomputed from the generated tree, the rule '
                '"same spelling as the previous mention, not a callee" applied, sortedness and stability of the report; non-trivial = '
                'the report has >= 2 diagnostics; distinct by program text')
    cases = []
    for i in range(n):
        names = [sv('xx'), sv('Xx'), ('common', 'the', 'cat'), ('common', 'The', 'cat'), ('proper', ['Bad', 'Joe'])][:rng.randint(1, 5)]
        if rng.random() < 0.15:
            # distinct names that agree on a long prefix (consecutive mentions of DIFFERENT names must not be reported)
            fam = rock.long_prefix_family(rng)
            names = rng.sample(fam, rng.randint(2, 4))
        g = rock.Gen(rng, names=names, funcs=names[:rng.randint(1, 2)], max_depth=rng.randint(1, 3))
        g.fresh_name = lambda: rng.choice(names + [sv('pp')])
        prog = g.program(depth=rng.randint(0, 2))
        if rng.random() < 0.12:
            # a LARGE report with many ties: both passes report on the same lines, interleaved over many lines
            X = names[0]
            big = [rng.choice([say(v(X)), put(num(rng.randint(0, 9)), X), put(st('s'), X), say(num(1)), ('inc', X, 1)])
                   for _ in range(rng.randint(18, 70))]
            prog = [big] + prog
        # parameter lists must not repeat a name… they may: parsing accepts it
        src = rock.Speller(rng, noise=0.02, comments=0.03).program(prog)
        cases.append((prog, src))
    reqs = ['lint ' + hx(src) for _, src in cases]
    m, im = run.tie(reqs, proj=lint_proj, functional=True, desc=lambda i: {'program': cases[i][1]})
    # the entry point the command line uses, called for program after program in ONE server process: each report is that of
    # a fresh linter (nothing is remembered from one program to the next)
    seqn = run.n(300, 5000)
    cseq = common.serve([common.harness_bin(), 'serve'], ['clilint ' + hx(src) for _, src in cases[:seqn]], tag='c19cli')
    for (prog, src), a, b in zip(cases[:seqn], cseq, im):
        if b is None or a == 'skipped':
            continue
        run.case(('clilint', src), True, ndiags=0)
        if (a == 'parseerr') != b.startswith('parseerr') or (a != 'parseerr' and lint_proj(a) != lint_proj(b)):
            run.fail({'program': src, 'cli_entry_point_in_a_long_lived_process': a[:300], 'fresh_linter': b[:300]},
                     'linting through the command line\'s entry point in a process that linted other programs before gives another report')
    # TREE level (trees no source text parses to): linted on both sides from the tree itself
    from . import trees
    pans = common.impl(['parse ' + hx(src) for _, src in cases[:run.n(200, 4000)]])
    tq, tmeta = [], []
    for a in pans:
        t = trees.tree_of(a)
        if t is not None:
            for lab, mt in trees.mutations(t, rng):
                tq.append('lintt ' + hx(mt)); tmeta.append((lab, mt))
    tm, tim = run.tie(tq, proj=lint_proj, functional=True, desc=lambda i: {'tree': tmeta[i][1][:1500], 'variant': tmeta[i][0], 'section': 'tree level'})
    for (lab, mt), r in zip(tmeta, tim):
        run.case(('tree', mt), True, kind='tree-level:' + lab)
        if r is not None and parse_lint(r) is None:
            run.fail({'tree': mt[:1500], 'variant': lab, 'answer': r[:200]}, 'linting a syntax tree does not return normally: ' + r[:60])
    for (prog, src), r in zip(cases, im):
        if r is None:
            continue
        diags = parse_lint(r)
        if diags is None:
            run.fail({'program': src, 'answer': r[:200]}, 'linting a parsed program does not return normally: ' + r[:60])
            continue
        run.case(src, len(diags) >= 2, sample={'program': src[:300], 'report': diags[:3]} if rng.random() < 0.003 else None, ndiags=min(len(diags), 10))
        lines = [d['line'] for d in diags]
        if lines != sorted(lines):
            run.fail({'program': src, 'lines': lines}, 'diagnostics are not ordered by line')
        # ties in pass order: on one line every constant-assignment diagnostic precedes every repeated-identifier one
        for ln in set(lines):
            kinds = ['B' if diag_struct(d)['kind'] == 'boring' else 'M' for d in diags if d['line'] == ln]
            if 'MB' in ''.join(kinds):
                run.fail({'program': src, 'line': ln, 'kinds': kinds}, 'diagnostics on one line are not in pass order')
        missed = [d for d in diags if diag_struct(d)['kind'] == 'missed']
        ms = mentions(prog)
        want = []
        prev = None
        for key, callee, nm in ms:
            if not callee and prev == key:
                want.append(' '.join([nm[1]] if nm[0] == 'simple' else [nm[1], nm[2]] if nm[0] == 'common' else nm[1]))
            else:
                prev = key
        got = [diag_struct(d)['fields'][0] for d in missed]
        if sorted(got) != sorted(want):
            run.fail({'program': src, 'reported': got, 'expected': want},
                     'the repeated-identifier pass does not report exactly the mentions that repeat the previous mention')
    # purity: linting twice, and running after linting, change nothing
    again = common.impl(reqs[:200])
    for (prog, src), a, b in zip(cases[:200], im[:200], again):
        if a is not None and a != b:
            run.fail({'program': src, 'first': a[:200], 'second': b[:200]}, 'linting the same program twice gives different reports')


# ----------------------------------------------------------------------------- C20

def c20(run):
    rng = run.rng
    n = run.n(60, 1500)
    run.rule = ('the rrss binary built from the working tree: programs succeeding, failing at parse time, failing at run time after '
                'output x stdin contents (text; bytes that are not UTF-8 at any line; unwritable stdout), for exec/lint/parse; stdout/stderr/exit compared with the in-process library run (harness) '
                'and with the model; usage matrix (no args, unknown subcommand, missing/extra operand, missing file, directory); '
                'non-trivial = the program prints and/or fails; distinct by (subcommand, program, stdin)')
    rc, out, err = common.sh('cargo build --offline', cwd=common.REPO, timeout=1800)
    if rc != 0:
        raise common.BuildError('rrss binary does not build: ' + err[-2000:])
    binp = os.path.join(common.REPO, 'target', 'debug', 'rrss')
    env = dict(os.environ, NO_COLOR='1', CLICOLOR='0')
    os.makedirs(common.WORK, exist_ok=True)

    def cli(args, stdin=b''):
        p = subprocess.run([binp] + args, input=stdin, capture_output=True, env=env, timeout=60)
        return p.returncode, p.stdout, p.stderr
    cases = []
    from .p_exec import Funcs, io_program, DEGENERATE
    for i in range(n):
        r = rng.random()
        if r < 0.4:
            prog = io_program(rng)
            src = progs.render(rng, prog)
        elif r < 0.6:
            fg = Funcs(rng)
            a, b = fg.program()
            src = progs.render(rng, [a + b])
        elif r < 0.8:
            src = rng.choice(DEGENERATE)
        else:
            from . import texts
            src = texts.mutate(rng, progs.render(rng, io_program(rng)))
        stdin = rng.choice(['', 'one\ntwo\nthree\n', 'no newline', 'é\n\nΩ\n'])
        cases.append((src, stdin))
    # source FILES saved with CR LF line ends, and without a final line end
    for src0, stdin0 in list(cases[:40]):
        cases.append((src0.replace('\n', '\r\n'), stdin0))
        cases.append((src0.rstrip('\n'), stdin0))
    # programs full of constant assignments of every class (with and WITHOUT a poetic spelling: negative, non-finite, multi-line
    # strings), so that `rrss lint` has reports with every shape of record to print
    for _ in range(run.n(40, 600)):
        cases.append((rock.Speller(rng, noise=0.02, comments=0.03, recase=0.1).program(strip_marks(lint_program(rng))), ''))
    cases.append(('put -3 into x\nput 1 over 0 into y\nput "two\nlines" into z\nput -1 into x\n', ''))
    # characters that an editor, a shell or a "helpful" front end might normalise on the way from the FILE to the library:
    # typographic quotes and dashes, no-break and zero-width spaces, byte order mark, CR / CRLF / NEL line ends, tabs, NUL,
    # full-width forms, combining marks -- inside a string, a poetic string, a poetic number, a name, between tokens
    for ch in ['\u2018', '\u2019', '\u201c', '\u201d', '\u2013', '\u2014', '\u2026', '\u00a0', '\u200b', '\ufeff', '\r', '\r\n', '\u0085', '\u2028',
               '\t', '\x00', '\uff07', '\uff11', 'e\u0301', '\u00e9', '\u00ad', '\x0c', '\x1a', '`', '\u00b4']:
        cases.append(('say "a%sb"\nsay "end"\n' % ch, ''))
        cases.append(('x says it%ss only rock %sn%s roll\nsay x\n' % (ch, ch, ch), ''))
        cases.append(('Joey was a dancer%ss dream\nsay Joey\n' % ch, ''))
        cases.append(('put 1 into x%sput 2 into y\nsay x%ssay y\n' % (ch, ch), ''))
        cases.append(('%ssay 1\nsay 2%s' % (ch, ch), ''))
        cases.append(('if 1 ain%st 2\nsay "ne"\n\nsay 3\n' % ch, ''))
    # output whose size and shape meets the buffering of a real standard output: one `say` of a multi-line string whose
    # last line has N bytes, a single line of N bytes, N short lines, an echoed input line of N bytes
    for nn in ([100, 1023, 1024, 1025, 8192, 70000] if run.tier == 'quick' else [100, 511, 512, 1023, 1024, 1025, 2048, 4095, 4096, 8191, 8192, 8193, 65536, 70000, 300000]):
        cases.append(('say "first line\n%s"\nsay "end"\n' % ('x' * nn), ''))
        cases.append(('say "%s"\nsay "end"\n' % ('é' * (nn // 2)), ''))
        cases.append(('say "a\n\n%s\n"\nlisten to it\nsay it\n' % ('y' * nn), 'z' * nn + '\nrest\n'))
        cases.append(('put 0 into ii\nwhile ii is less than %d\nsay ii\nbuild ii up\n\nsay nosuchname\n' % min(nn, 3000), ''))
    reqs = [run_req(s, i) for s, i in cases]
    m, im = run.tie(reqs, proj=proj_run, functional=True, desc=lambda i: {'program': cases[i][0], 'stdin': cases[i][1]})
    lreqs = ['lint ' + hx(s) for s, _ in cases]
    lm, lim = run.tie(lreqs, proj=lint_proj, functional=True, desc=lambda i: {'program': cases[i][0]})
    with tempfile.TemporaryDirectory(dir=common.WORK) as td:
        for k, ((src, stdin), r, lr) in enumerate(zip(cases, im, lim)):
            if r is None:
                continue
            path = os.path.join(td, 'p%d.rock' % k)
            with open(path, 'w') as f:
                f.write(src)
            c, det, out, _ = run_parts(r)
            run.case(('exec', src, stdin), c != 'ok' or len(out) > 0, sample={'program': src[:200], 'stdin': stdin, 'library': r[:100]} if rng.random() < 0.02 else None,
                     sub='exec', outcome=c)
            code, so, se = cli(['exec', path], stdin.encode())
            case = {'program': src, 'stdin': stdin, 'library': r[:300], 'cli_stdout': so.decode('utf-8', 'replace')[:300],
                    'cli_stderr': se.decode('utf-8', 'replace')[:300], 'exit': code}
            if c in ('crash', 'hang'):
                continue
            if so != out:
                run.fail(case, '`rrss exec` writes something else to standard output than the library interpreter')
            f = r.split(' ')
            if c == 'ok':
                if se != b'' or code != 0:
                    run.fail(case, '`rrss exec` of a succeeding program reports an error')
            elif c == 'rterr':
                msg = unhx(f[2]).decode('utf-8', 'replace')
                if se.decode('utf-8', 'replace') != 'Runtime error: ' + msg + '\n':
                    run.fail(case, 'runtime error is not reported on standard error, prefixed as such')
                # both streams into one sink: the error must come after all output produced before it
                pm = subprocess.run([binp, 'exec', path], input=stdin.encode(), stdout=subprocess.PIPE, stderr=subprocess.STDOUT, env=env, timeout=60)
                if pm.stdout != out + ('Runtime error: ' + msg + '\n').encode():
                    case['merged'] = pm.stdout.decode('utf-8', 'replace')[:400]
                    run.fail(case, 'with stdout and stderr going to one sink the error is not reported after all output produced before it')
            elif c == 'parseerr':
                lib = common.impl(['parse ' + hx(src)])[0].split(' ')
                msg = unhx(lib[3]).decode('utf-8', 'replace') if len(lib) > 3 and lib[0] == 'err' else None
                if msg is None or se.decode('utf-8', 'replace') != 'Parse error: ' + msg + '\n':
                    run.fail(case, 'parse error is not reported on standard error, prefixed as such')
            # lint
            run.case(('lint', src), True, sub='lint')
            code, so, se = cli(['lint', path])
            d = parse_lint(lr)
            if d is None:
                if not se.startswith(b'Parse error: '):
                    run.fail({'program': src, 'cli_stderr': se.decode('utf-8', 'replace')[:200]}, '`rrss lint` does not report the parse error')
            else:
                text = so.decode('utf-8', 'replace')
                pos = 0
                ok_ = True
                for x in d:
                    for piece in ['%d' % x['line'], x['issue']] + x['suggestions']:
                        k = text.find(piece, pos)
                        if k < 0:
                            ok_ = False
                            break
                        pos = k + len(piece)
                # one record per diagnostic: no output line carries two diagnostics, and the report ends with a line break
                glued = [ln for ln in text.split('\n') if sum(ln.count(x['issue']) for x in {y['issue']: y for y in d}.values()) > 1]
                if d and (glued or not text.endswith('\n')):
                    run.fail({'program': src, 'library': d[:4], 'cli_stdout': text[:400]},
                             '`rrss lint` does not print one record per diagnostic (two diagnostics on one line, or no final line break)')
                if not ok_ or (not d and ('\n\t' in text or not text)):
                    run.fail({'program': src, 'library': d[:4], 'cli_stdout': text[:400]},
                             '`rrss lint` does not print the library\'s diagnostics (each line, issue and suggestion, in the library\'s order)')
            # parse: the library's tree is what `parse` prints (compared structurally: statement count per kind)
            code, so, se = cli(['parse', path])
            run.case(('parse', src), True, sub='parse')
            if c == 'parseerr':
                if so != b'' or not se.startswith(b'Parse error: '):
                    run.fail({'program': src, 'cli_stdout': so[:100].decode('utf-8', 'replace')}, '`rrss parse` accepts a program the library rejects')
            else:
                lib = common.impl(['debugtree ' + hx(src)])[0]
                if not lib.startswith('ok ') or so != unhx(lib[3:]):
                    run.fail({'program': src, 'cli_stdout': so[:200].decode('utf-8', 'replace'), 'cli_stderr': se[:200].decode('utf-8', 'replace'),
                              'library': unhx(lib[3:])[:200].decode('utf-8', 'replace') if lib.startswith('ok ') else lib},
                             '`rrss parse` does not print the library\'s syntax tree of a program the library accepts')
        # I/O errors of the run itself: standard input that is not valid UTF-8 (at any line), standard output that cannot be
        # written (/dev/full): the library reports them as runtime errors, so must the tool (library vs binary, model-free:
        # the model's protocol carries text only)
        iocases = []
        for k in range(run.n(25, 400)):
            src = progs.render(rng, io_program(rng))
            lines = [rng.choice([b'one', b'', b'\xc3\xa9t\xc3\xa9', b'12']) for _ in range(rng.randint(1, 5))]
            lines[rng.randrange(len(lines))] = rng.choice([b'ab\xff', b'\xc3', b'\xed\xa0\x80', b'ok\xc3\x28', b'\xf8\x88\x80\x80\x80'])
            iocases.append((src, b'\n'.join(lines) + rng.choice([b'\n', b''])))
        ioreqs = ['run %s x%s - - 20000' % (hx(src), sb.hex()) for src, sb in iocases]
        iolib = common.impl(ioreqs)
        for k, ((src, sb), r) in enumerate(zip(iocases, iolib)):
            c, det, out, _ = run_parts(r)
            if c in ('crash', 'hang'):
                run.fail({'program': src, 'stdin_hex': sb.hex(), 'library': r[:200]}, 'the library panics on standard input that is not valid UTF-8')
                continue
            path = os.path.join(td, 'io%d.rock' % k)
            with open(path, 'w') as f:
                f.write(src)
            run.case(('exec-io', src, sb), True, sub='exec-invalid-utf8-stdin', outcome=c)
            code, so, se = cli(['exec', path], sb)
            case = {'program': src, 'stdin_hex': sb.hex(), 'library': r[:300], 'cli_stdout': so.decode('utf-8', 'replace')[:300],
                    'cli_stderr': se.decode('utf-8', 'replace')[:300], 'exit': code}
            if so != out:
                run.fail(case, '`rrss exec` writes something else to standard output than the library interpreter (invalid UTF-8 on standard input)')
            if c == 'rterr':
                msg = unhx(r.split(' ')[2]).decode('utf-8', 'replace')
                if se.decode('utf-8', 'replace') != 'Runtime error: ' + msg + '\n':
                    run.fail(case, 'a runtime error (unreadable standard input) is not reported on standard error, prefixed as such')
            elif c == 'ok' and se != b'':
                run.fail(case, '`rrss exec` of a succeeding program reports an error')
            # the same program with a standard output that cannot be written
            lib_w = common.impl(['run %s x%s 0 - 20000' % (hx(src), b'one\ntwo\n'.hex())])[0]
            if lib_w.startswith('rterr '):
                run.case(('exec-full', src), True, sub='exec-stdout-full')
                with open('/dev/full', 'wb') as full:
                    pf = subprocess.run([binp, 'exec', path], input=b'one\ntwo\n', stdout=full, stderr=subprocess.PIPE, env=env, timeout=60)
                if not pf.stderr.startswith(b'Runtime error: '):
                    run.fail({'program': src, 'stdout': '/dev/full', 'library (failing writer)': lib_w[:200], 'cli_stderr': pf.stderr.decode('utf-8', 'replace')[:300]},
                             'a runtime error (unwritable standard output) is not reported on standard error, prefixed as such')
        # usage matrix
        good = os.path.join(td, 'good.rock')
        open(good, 'w').write('say 1\n')
        for args in [[], ['frobnicate'], ['exec'], ['lint'], ['parse'], ['exec', good, good], ['exec', os.path.join(td, 'missing.rock')],
                     ['lint', os.path.join(td, 'missing.rock')], ['parse', os.path.join(td, 'missing.rock')], ['exec', td], ['--nope'], ['frobnicate', good]]:
            code, so, se = cli(args)
            run.case(('usage', tuple(a.replace(td, '') for a in args)), True, sub='usage')
            if code == 0:
                run.fail({'args': [a.replace(td, '<dir>') for a in args], 'stdout': so[:100].decode(), 'stderr': se[:200].decode()},
                         'bad usage or a missing file yields exit status 0')
        code, so, se = cli(['exec', good])
        if code != 0 or so != b'1\n':
            run.fail({'args': ['exec', 'good.rock'], 'exit': code, 'stdout': so.decode()}, 'a good invocation does not succeed')
