"""Front-end checks: C01 (totality), C02 (spelling-independence), C11 (poetic literals),
C12 (token positions), C13 (syntax errors on the right line)."""
import struct
from fractions import Fraction

from . import common, rock, texts
from .common import hx, unhx


def first_word(r):
    return r.split(' ', 1)[0] if r else ''


def small_scope(run, proj, why):
    """bounded-exhaustive correspondence for the parser: every token sequence up to length 2 (quick) / 3 (thorough) over one
    spelling of every token kind, with and without a final newline, plus a random sample of longer ones; the model's and
    the implementation's answers are compared under the property's own projection"""
    if run.tier == 'quick':
        ts = texts.small_scope_texts(run.rng, 2, 25000, (3, 5))
    else:
        ts = texts.small_scope_texts(run.rng, 3, 400000, (4, 7))
    reqs = ['parse ' + hx(t) for t in ts]
    m, im = run.tie(reqs, proj=proj, functional=True, desc=lambda i: {'text': ts[i], 'section': 'small-scope'})
    for t, r in zip(ts, im):
        if r is None:
            continue
        run.case(('ss', t), True, kind='small-scope', outcome=first_word(r))
        if first_word(r) not in ('ok', 'err'):
            run.fail({'text': t, 'answer': r[:200]}, why + ': parse does not return (%s)' % first_word(r))
    run.extra['small_scope'] = {'vocabulary': len(texts.small_scope_vocabulary()), 'sequences': len(ts),
                                'exhaustive_up_to_length': 2 if run.tier == 'quick' else 3}


def binary_pass(run, prop):
    """FLAT inputs of large size (no operator chains or nesting: the property excludes depth beyond a few hundred) through the built `rrss lint` with the process's ORDINARY stack (the harness runs with an
    unlimited stack so that deep nesting, which the property excludes, does not overflow): long runs of ignorable characters,
    blanks, line breaks, apostrophes, words, comments, one construct repeated N times. The process must end by itself
    (exit status of a normal end or of the error path), not by a signal or a panic."""
    import subprocess, tempfile, os
    rc, out, err = common.sh('cargo build --offline', cwd=common.REPO, timeout=1800)
    if rc != 0:
        raise common.BuildError('rrss binary does not build: ' + err[-2000:])
    binp = os.path.join(common.REPO, 'target', 'debug', 'rrss')
    big = [2000, 20000, 200000] if run.tier == 'quick' else [2000, 7000, 20000, 100000, 500000]
    extra_big = []
    if prop == 'C01' and run.tier == 'quick':
        big = [2000, 20000]           # (the C12 check runs the 200 000 sizes in its quick tier; here only for comments / punctuation)
        extra_big = [('gap:%r' % u, 200000, 'say x' + u * 200000 + ' y\n') for u in ('(c) ', '?', "'", ' ')]
    texts_ = []
    for n in big:
        for unit in ['?', '!', ';', "'", ' ', '\t', '\n', '?! ', "' ", '; \n', '.', ',', '(c) ', '"s" ', 'x ', 'x\n', '5 ', 'é ']:
            texts_.append(('gap:%r' % unit, n, 'say x' + unit * n + ' y\n'))
            texts_.append(('lead:%r' % unit, n, unit * n + 'say x\n'))
    texts_ += extra_big
    for k, n, t in texts.scale_programs(run.tier == 'quick'):
        if not k.startswith(('nested', 'nots', 'subscript', 'operands', 'arguments', 'list-elements', 'params')):
            texts_.append((k, n, t))
    # WIDE valid programs (width is not depth): one block of n statements, n blocks, n list elements, n arguments, n poetic words
    for n in big:
        texts_.append(('wide:statements', n, 'say 1\n' * n))
        texts_.append(('wide:blocks', n, 'say 1\n\n' * n))
        texts_.append(('wide:list-elements', n, 'rock x with 1' + ', 1' * n + '\n'))
        texts_.append(('wide:arguments', n, 'say f taking 1' + ', 1' * n + '\n'))
        texts_.append(('wide:poetic-words', n, 'x is' + ' ab' * n + '\n'))
        texts_.append(('wide:assignments', n, 'put 1 into x\n' * n))
    os.makedirs(common.WORK, exist_ok=True)
    with tempfile.TemporaryDirectory(dir=common.WORK) as td:
        for i, (k, n, t) in enumerate(texts_):
            path = os.path.join(td, 'b%d.rock' % i)
            with open(path, 'w', encoding='utf-8') as f:
                f.write(t)
            try:
                # (`lint` = parse + the linter; `parse` would also pretty-print the tree)
                p = subprocess.run([binp, 'lint', path], capture_output=True, timeout=120)
                code = p.returncode
            except subprocess.TimeoutExpired:
                code = 'timeout'
            run.case(('binary', k, n), True, kind='binary-ordinary-stack')
            if code == 'timeout' or code < 0 or code in (101, 134, 139):
                run.fail({'kind': k, 'repeated': n, 'text_head': t[:60], 'exit': code, 'stderr': (p.stderr[-300:].decode('utf-8', 'replace') if code != 'timeout' else '')},
                         '`rrss lint` on a flat input of %d repetitions of %s does not end normally (exit %s)' % (n, k, code))
    run.extra['binary_pass'] = len(texts_)


LAYOUT_LINES = ['f takes x', 'if x', 'else', 'while x', 'say 1', '', 'give back x', 'say 2']


def layout_scope(run, proj, why):
    """bounded-exhaustive BLOCK LAYOUT: every sequence of up to 4 (quick) / 6 (thorough) lines over a vocabulary with a function
    header, if, else, a loop header, statements, a return and the blank line (which closes blocks); every sequence of up to
    7 / 8 lines over the five lines that make the block structure; plus a sample of longer ones; how blank lines, `else` and the end of a function body interact is exactly what only whole layouts exercise"""
    import itertools
    L = 4 if run.tier == 'quick' else 6
    ts = []
    for k in range(1, L + 1):
        for ls in itertools.product(LAYOUT_LINES, repeat=k):
            ts.append('\n'.join(ls) + '\n')
    # deeper, over the five lines that make the block structure (function, if, else, statement, blank)
    core = ['f takes x', 'if x', 'else', 'say 1', '']
    for k in range(L + 1, (7 if run.tier == 'quick' else 8) + 1):
        for ls in itertools.product(core, repeat=k):
            ts.append('\n'.join(ls) + '\n')
    for _ in range(run.n(15000, 300000)):
        k = run.rng.randint(5, 10)
        t = '\n'.join(run.rng.choice(LAYOUT_LINES) for _ in range(k))
        ts.append(t + ('\n' if run.rng.random() < 0.8 else ''))
    reqs = ['parse ' + hx(t) for t in ts]
    m, im = run.tie(reqs, proj=proj, functional=True, desc=lambda i: {'text': ts[i], 'section': 'block layout'})
    for t, r in zip(ts, im):
        if r is None:
            continue
        run.case(('layout', t), True, kind='block-layout', outcome=first_word(r))
        if first_word(r) not in ('ok', 'err'):
            run.fail({'text': t, 'answer': r[:200]}, why + ': parse does not return (%s)' % first_word(r))
    run.extra['block_layout'] = {'lines': len(LAYOUT_LINES), 'exhaustive_up_to': L, 'core_lines_exhaustive_up_to': 7 if run.tier == 'quick' else 8, 'texts': len(ts)}


# ----------------------------------------------------------------------------- C01

def c01(run):
    rng = run.rng
    n = run.n(2500, 120000)
    cases = []
    for i in range(n):
        r = rng.random()
        if r < 0.40:
            t, kind = texts.soup(rng), 'soup'
        elif r < 0.50:
            t, kind = texts.soup(rng, rng.randint(1, 4)), 'short-soup'
        elif r < 0.58:
            t, kind = texts.valid_program(rng)[1], 'valid'
        elif r < 0.95:
            t, kind = texts.mutate(rng, texts.valid_program(rng)[1]), 'mutated'
        else:
            t, kind = texts.nested(rng, rng.choice([5, 50, 150, 300])), 'nested'
        cases.append((t, kind))
    for _ in range(run.n(40, 1500)):
        for t in texts.token_prefixes(rng, texts.valid_program(rng, depth=1, max_depth=2)[1]):
            cases.append((t, 'prefix'))
    # tokens of every class at every byte length 1..40/80 and at powers of two +-1, a multi-byte letter on each boundary;
    # words around letters whose case mapping changes their length; each alone, as an operand, and as the last line
    for t in texts.sized_tokens(run.tier == 'quick'):
        cases += [(t, 'sized-token'), ('say ' + t + '\n', 'sized-token'), ('say 1\n' + t, 'sized-token')]
    # three characters of every Unicode general category, in every position of a token
    for t in texts.category_tokens():
        cases += [(t, 'category'), ('say ' + t + '\n', 'category'), ('say 1\n' + t, 'category')]
    # one thing repeated N times (N = powers of two +-1, 1000): paragraphs, statements, arguments, operands, nesting, ...
    for k, nn, t in texts.scale_programs(run.tier == 'quick'):
        cases += [(t, 'scale:' + k), (t + 'put\n', 'scale:' + k)]
    run.rule = ('texts: token soup over the full vocabulary (keywords in any case, identifiers with digits/underscores/'
                'non-ASCII, numbers incl. malformed, strings/comments open and closed across lines, apostrophe forms, '
                'punctuation, CR/LF, stray else), valid programs, token-level mutations and truncations of valid programs, every '
                'token-boundary prefix of valid programs (no final newline; with trailing blank/comment), tokens of every class at every '
                'byte length 1..40 (thorough: 80) and at powers of two +-1 up to 1025 with a multi-byte letter on each boundary, words '
                'around the 16 letters whose case mapping changes length, one construct repeated N times (N = 8 ... 1025), '
                'nests up to depth 300; non-trivial = the text is rejected (error path) or contains a string, comment, '
                'apostrophe or non-ASCII character; distinct by text')
    reqs = ['parse ' + hx(t) for t, _ in cases]
    # observable of THIS property: parsing returns (a program or an error) — which of the two is C02/C13's business
    m, im = run.tie(reqs, proj=lambda r: 'returns' if first_word(r) in ('ok', 'err') else 'crash:' + r[:40],
                    functional=False, desc=lambda i: {'text': cases[i][0], 'kind': cases[i][1]})
    profiles = [('debug', im)]
    if run.tier == 'thorough':
        profiles.append(('release', common.impl(reqs, 'release')))
    for prof, resps in profiles:
        for (t, kind), r in zip(cases, resps):
            if r is None:
                continue
            w = first_word(r)
            if prof == 'debug':
                nt = w == 'err' or any(c in t for c in '"(\'') or not t.isascii()
                run.case(t, nt, sample={'text': t[:200], 'kind': kind, 'answer': r[:60]} if rng.random() < 0.01 else None,
                         kind=kind, outcome=w)
                if w == 'err':
                    run.count('errcode=' + r.split(' ')[1])
            if w not in ('ok', 'err'):
                run.fail({'text': t, 'profile': prof, 'answer': r}, 'parse does not return (%s) in the %s build' % (w, prof))
            elif w == 'err':
                f = r.split(' ')
                if len(f) < 4 or f[3] == 'crash' or len(f[3]) <= 1:
                    run.fail({'text': t, 'profile': prof, 'answer': r}, 'parse error message cannot be rendered')
    small_scope(run, lambda r: 'returns' if first_word(r) in ('ok', 'err') else 'crash:' + r[:40], 'totality')
    binary_pass(run, 'C01')


# ----------------------------------------------------------------------------- C12

def parse_tokens(resp):
    f = resp.split(' ', 2)
    if f[0] != 'ok':
        return None
    toks = []
    body = f[2] if len(f) > 2 else ''
    if body:
        for t in body.split(';'):
            k = t.split(',')
            toks.append({'kind': k[0], 'start': int(k[1]), 'len': int(k[2]), 'l1': int(k[3]), 'c1': int(k[4]),
                         'l2': int(k[5]), 'c2': int(k[6]), 'payload': k[7]})
    return toks


def ignorable_gap(b):
    """bytes between tokens: whitespace other than newline, ignorable punctuation, apostrophes"""
    try:
        s = b.decode('utf-8')
    except UnicodeDecodeError:
        return False
    for c in s:
        o = ord(c)
        if c == '\n':
            return False
        if o in texts.WHITE_SPACE:
            continue
        if o < 128 and (33 <= o <= 47 or 58 <= o <= 64 or 91 <= o <= 96 or 123 <= o <= 126) and c != '_':
            continue
        return False
    return True


def c12_oracle(src, toks):
    """model-free: recompute everything the property states from the byte offsets"""
    b = src.encode('utf-8')
    prev_stop = 0
    for i, t in enumerate(toks):
        st, ln = t['start'], t['len']
        stop = st + ln
        if ln <= 0 or stop > len(b):
            return 'token %d has an empty or out-of-range span' % i
        if st < prev_stop:
            return 'token %d overlaps its predecessor' % i
        if not ignorable_gap(b[prev_stop:st]):
            return 'text between tokens %d and %d is not ignorable: %r' % (i - 1, i, b[prev_stop:st])
        prev_stop = stop
        line, col = texts.true_position(b, st)
        if (t['l1'], t['c1']) != (line, col):
            return 'token %d (%s) starts at line %d col %d, reported %d:%d' % (i, t['kind'], line, col, t['l1'], t['c1'])
        spelling = b[st:stop]
        if t['kind'] == 'Newline':
            if spelling != b'\n' or (t['l2'], t['c2']) != (line, col + 1):
                return 'newline token %d has a wrong spelling or end' % i
        elif not spelling.endswith(b'\n'):
            l2, c2 = texts.true_position(b, stop - 1)
            # one byte past the last character, on that character's line
            last_char_start = stop - 1
            while last_char_start > st and (b[last_char_start] & 0xC0) == 0x80:
                last_char_start -= 1
            l2, c2 = texts.true_position(b, last_char_start)
            c2 += stop - last_char_start
            if (t['l2'], t['c2']) != (l2, c2):
                return 'token %d (%s) ends at %d:%d, reported %d:%d' % (i, t['kind'], l2, c2, t['l2'], t['c2'])
        if t['kind'] in ('StringLiteral', 'Comment'):
            if unhx(t['payload']) != spelling[1:-1]:
                return 'token %d payload is not the text between its delimiters' % i
        if t['kind'] == 'Number' and spelling.isascii():
            try:
                v = float(spelling.decode())
                bits = '%016x' % struct.unpack('<Q', struct.pack('<d', v))[0]
                if '_' not in spelling.decode() and bits != t['payload']:
                    return 'number token %d denotes %s, reported bits %s' % (i, spelling, t['payload'])
            except ValueError:
                pass
    if not ignorable_gap(b[prev_stop:]):
        return 'text after the last token is not ignorable: %r' % b[prev_stop:][:40]
    return None


def c12_text(rng):
    t = c12_text_(rng)
    if rng.random() < 0.04:
        # something odd at the very start of the source (byte order mark, zero-width characters, …)
        t = rng.choice(texts.ODD) + t
    return t


def c12_text_(rng):
    r = rng.random()
    if r < 0.35:
        return texts.soup(rng)
    if r < 0.55:
        return texts.valid_program(rng)[1]
    # biased: multi-line strings/comments followed by suffixes and further tokens, multi-byte chars
    parts = []
    for _ in range(rng.randint(1, 8)):
        parts.append(rng.choice(['"a\nb"', '(x\ny)', '"a\n\nb"', '(\n)', '"é\nΩ"', 'été', '中文', 'x', '5', '"q"', '(c)', 'Tommy', 'it']))
        parts.append(rng.choice(["'s", "'re", "'s", '', '', ' ', '\n', ' \n', "'s x", "'re 5", '.', ',', " 's"]))
        parts.append(rng.choice([' ', ' ', '\n', '', '\t', '\r\n', 'é ', '　']))
    if rng.random() < 0.2:
        parts.append(rng.choice(['"open\n', '(open\nmore', '"', '(']))
    return ''.join(parts)


LEX_ALPHABET = ['a', 's', 'r', 'e', 'n', 'X', '0', '5', '.', ',', "'", '"', '(', ')', ' ', '\n', '\r', '\t', '-', '+', '<', '>',
                '=', '&', '*', '/', '_', '?', 'é', 'İ', '\u00a0', '\ufeff', 'ß']


def c12(run):
    rng = run.rng
    n = run.n(3000, 150000)
    cases = [c12_text(rng) for _ in range(n)]
    # bounded-exhaustive: EVERY string up to length 3 (quick) / 4 (thorough) over an alphabet with one character of every
    # class the lexer distinguishes
    import itertools
    for L in range(1, (3 if run.tier == 'quick' else 4) + 1):
        cases += [''.join(cs) for cs in itertools.product(LEX_ALPHABET, repeat=L)]
    run.extra['small_scope'] = {'alphabet': len(LEX_ALPHABET), 'exhaustive_up_to_length': 3 if run.tier == 'quick' else 4}
    for t in texts.sized_tokens(run.tier == 'quick'):
        cases += [t, 'x ' + t + "'s y\n" + t]
    cases += texts.category_tokens()
    # every string of up to 6 (quick) / 7 (thorough) characters over the letters of the suffixes and the apostrophe
    for L in range(1, (6 if run.tier == 'quick' else 7) + 1):
        cases += [''.join(cs) for cs in itertools.product("a'sre", repeat=L)]
    cases += [t for _, _, t in texts.scale_programs(run.tier == 'quick')]
    run.rule = ('every string up to length 3 (quick) / 4 (thorough) over a %d-character alphabet (letters of the suffixes and of a '
                'keyword, digits, quote, parentheses, apostrophe, period, comma, hyphen, symbols, blanks incl. CR/TAB/NBSP, line '
                'feed, multi-byte and case-length-changing letters, BOM); ' % len(LEX_ALPHABET) +
                'texts from the C01 generator biased to multi-line strings/comments followed by suffix tokens, '
                'multi-byte characters, CR/LF, tokens at end of input; non-trivial = contains a multi-line token, a suffix '
                'token or a multi-byte character; distinct by text')
    binary_pass(run, 'C12')
    reqs = ['lex ' + hx(t) for t in cases]

    def proj12(r):
        # what this property fixes: spans, positions, payloads, which tokens are line breaks -- not the NAME of the token
        # kind (keyword classification is C02's observable, through the tree)
        f = r.split(' ', 2)
        if len(f) < 3 or f[0] != 'ok':
            return r
        return ';'.join(','.join([k.split(',')[0] if k.split(',')[0] in ('Newline', 'Number', 'StringLiteral', 'Comment', 'Error') else 'tok'] +
                                 k.split(',')[1:]) for k in f[2].split(';'))
    m, im = run.tie(reqs, proj=proj12, functional=True, desc=lambda i: {'text': cases[i]})
    for t, r in zip(cases, im):
        if r is None:
            continue
        toks = parse_tokens(r)
        nt = ('\n' in t and ('"' in t or '(' in t)) or "'s" in t or "'re" in t or not t.isascii()
        run.case(t, nt, sample={'text': t[:120], 'tokens': r[:200]} if rng.random() < 0.005 else None,
                 ntokens=min(len(toks), 20) if toks is not None else -1)
        if toks is None:
            run.fail({'text': t, 'answer': r}, 'lexing does not return: ' + r[:40])
            continue
        for k in toks:
            run.count('kind=' + k['kind'])
        why = c12_oracle(t, toks)
        if why:
            run.fail({'text': t, 'answer': r}, why)


# ----------------------------------------------------------------------------- C02

def tree_features(prog):
    s = rock.dump_program(prog)
    return s.count('(bin '), s.count('(if ') + s.count('(while ') + s.count('(until ') + s.count('(func ')


def c02(run):
    rng = run.rng
    n = run.n(700, 40000)
    k = run.n(3, 5)
    run.rule = ('random expressible trees (all 18 statement kinds, stratified expression grammar with list operands, '
                'argument lists, nested blocks/functions) x %d renderings each (alias, case, noise, comments, separators, '
                'optional words); non-trivial = at least one binary operator or one compound statement; distinct by rendered text' % k)
    cases = []
    for i in range(n):
        g = rock.Gen(rng, max_depth=rng.randint(1, 4))
        prog = g.program(depth=rng.randint(0, 2))
        exp = 'ok ' + rock.dump_program(prog)
        for j in range(k):
            sp = rock.Speller(rng, noise=rng.choice([0, 0.15, 0.4]), comments=rng.choice([0, 0.05, 0.2]),
                              recase=rng.choice([0, 0.2, 0.6]), multiline_comments=rng.random() < 0.5)
            cases.append((prog, sp.program(prog), exp))
    reqs = ['parse ' + hx(t) for _, t, _ in cases]
    m, im = run.tie(reqs, proj=lambda r: rock.erase_positions(r).split(' x')[0] if r.startswith('err') else rock.erase_positions(r),
                    functional=True, desc=lambda i: {'text': cases[i][1], 'expected': cases[i][2]})
    pairs = set()
    for (prog, t, exp), r in zip(cases, im):
        if r is None:
            continue
        nb, nc = tree_features(prog)
        run.case(t, nb + nc > 0, sample={'text': t[:300], 'tree': exp[:300]} if rng.random() < 0.002 else None,
                 binops=min(nb, 10), compound=min(nc, 5))
        got = rock.erase_positions(r)
        if got != exp:
            run.fail({'text': t, 'expected': exp, 'got': r}, 'a spelling of a tree parses to a different tree (or is rejected)')
    run.extra['renderings_per_tree'] = k
    # the function text -> tree itself, on every short token sequence (accepted: the tree; rejected: that it is rejected)
    small_scope(run, lambda r: 'err' if r.startswith('err') else rock.erase_positions(r), 'spelling -> tree')
    layout_scope(run, lambda r: 'err' if r.startswith('err') else rock.erase_positions(r), 'block layout -> tree')
    # the same programs saved with CR LF line ends (a carriage return is a blank to the lexer, and text to a poetic string),
    # with CR alone in place of some blanks, and with a final line that has no line end
    crlf = []
    for prog, t, exp in cases[:run.n(600, 20000)]:
        crlf.append(t.replace('\n', '\r\n'))
        crlf.append(t.replace(' ', '\r', 3))
        crlf.append(t.rstrip('\n'))
    run.tie(['parse ' + hx(t) for t in crlf], proj=lambda r: 'err' if r.startswith('err') else rock.erase_positions(r), functional=True,
            desc=lambda i: {'text': crlf[i][:2000], 'section': 'CR LF / CR / no final line end'})
    for t in crlf:
        run.case(('crlf', t), True, kind='line-ends')
    # one construct repeated N times (N = powers of two +-1, 1000), words and names of every byte length: the tree
    sc = [t for _, _, t in texts.scale_programs(run.tier == 'quick')]
    sc += ['put ' + t + ' into ' + t + '\nsay ' + t + '\n' for t in texts.sized_tokens(run.tier == 'quick')[::7]]
    sreqs = ['parse ' + hx(t) for t in sc]
    run.tie(sreqs, proj=lambda r: 'err' if r.startswith('err') else rock.erase_positions(r), functional=True,
            desc=lambda i: {'text': sc[i][:2000], 'section': 'scale'})
    for t in sc:
        run.case(('scale', t), True, kind='scale')


# ----------------------------------------------------------------------------- C13

FAULTS = [
    ('missing-operand', ['put', 'say', 'shout', 'let', 'build', 'knock', 'turn', 'turn up', 'rock', 'roll', 'listen to',
                         'cut', 'join', 'cast', 'give back', 'return', 'if', 'while', 'until', 'put 5 into',
                         'let x be', 'say 1 plus', 'say x is', 'say x at', 'say not', 'x taking', 'rock x with',
                         'roll x into', 'cut x into', 'take', 'take it', 'take it to', 'take it to the', 'break it']),
    ('missing-keyword', ['put 5 x', 'put 5', 'let x 5', 'build x', 'knock x', 'turn x', 'say x is bigger 5',
                         'say x is as big 5', 'say x is as big as', 'take it to top', 'take to the top', 'x 5',
                         'listen x', 'the is 5', 'my']),
    ('two-statements', ['say 1 say 2', 'put 1 into x put 2 into y', 'break continue', 'listen listen', 'build x up say x',
                        'say 1 x is 2', 'continue 5']),
    ('error-token', ['5x', '_', '_x', 'foo1 is 5', 'a_b', '"unterminated', '1.2.3', '٣', 'x1']),
    ('not-a-statement', ['and', 'plus 1', 'is 5', 'into x', '5', '"str"', 'true', 'up', 'taking 1', 'than', ', say 1', '& x',
                         'at 5', 'with 1']),
    # faults inside or right after a poetic literal / a literal right-hand side, at the END of the line
    ('poetic', ['x is a lady-', 'x is a lovestruck lady- .', 'x is -', 'x is - big', 'rock x like',
                'rock x like -', 'rock x like a-', "x's", 'x is', 'x are', "it's", 'x says', 'x says"s"', 'x is 5 5',
                'x is true false', 'x is "a" b', 'x is 5 big', 'x is null 5', "x's a lady-", 'x is a big-- deal']),
    ('list-tail', ['say 1 plus 2,', 'say x taking 1,', 'say x taking 1 and', 'rock x with 1,', 'say 1, 2', 'say 1 &',
                   "say x taking 1 'n'"]),
    ('operand-kind', ['cut 5', 'join "a"', 'cast 5 with 2', 'your "s"', 'a 5', 'say 5 is as', 'say 5 is bigger than',
                      'put 5 into x at', 'let x at be 5', 'say x at 1 at', 'build 5 up', 'knock "s" down', 'listen to 5',
                      'cut ff taking 1', 'join x at 1', 'cast roll x', "say x 'n'", "x taking 1 'n' 'n' 2", 'say 1 is as big as', 'say x is as']),
]


def inject(rng, prog):
    """insert a raw fault line at a random statement boundary (any nesting depth)"""
    cat, lines = rng.choice(FAULTS)
    line = rng.choice(lines)
    # keyword case variations
    if rng.random() < 0.3:
        line = line.upper() if rng.random() < 0.5 else line.capitalize()
    # collect insertion points: (list, index)
    points = []

    def walk(stmts, in_func):
        for i in range(len(stmts) + 1):
            # nothing may follow an if-with-else inside a function body: it ends the function
            if in_func and i > 0 and stmts[i - 1][0] == 'if' and stmts[i - 1][3] is not None:
                continue
            points.append((stmts, i))
        for s in stmts:
            if s[0] == 'if':
                walk(s[2], False)
                if s[3] is not None:
                    walk(s[3], False)
            elif s[0] in ('while', 'until'):
                walk(s[2], False)
            elif s[0] == 'func':
                walk(s[3], True)
    import copy
    prog = copy.deepcopy(prog)
    for b in prog:
        walk(b, False)
    stmts, i = rng.choice(points)
    stmts.insert(i, ('raw', line))
    return prog, cat, line


class FaultSpeller(rock.Speller):
    def stmt_text(self, s, last_in_func=False):
        if s[0] == 'raw':
            return '\x00' + s[1]
        return super().stmt_text(s, last_in_func)


def c13(run):
    rng = run.rng
    n = run.n(2500, 100000)
    run.rule = ('valid program (C02 generator, multi-line comments and blank-line runs) x statement boundary at any nesting '
                'depth x fault from a catalogue of %d context-independent faults in %d classes; non-trivial = the fault is '
                'not on line 1 and not in the first statement; distinct by text' % (sum(len(l) for _, l in FAULTS), len(FAULTS)))
    cases = []
    while len(cases) < n:
        g = rock.Gen(rng, max_depth=rng.randint(1, 3))
        prog = g.program(depth=rng.randint(0, 2))
        p2, cat, line = inject(rng, prog)
        # an if-with-else that is the last statement of a function ends the function body:
        # a fault inserted after it belongs to the enclosing block, still a statement boundary
        sp = FaultSpeller(rng, comments=rng.choice([0, 0.1, 0.2]), noise=rng.choice([0, 0.2]), multiline_comments=True)
        text = sp.program(p2)
        off = text.index('\x00')
        text = text.replace('\x00', '')
        if '"unterminated' in line and rng.random() < 0.5:
            pass
        exp_line = 1 + text.count('\n', 0, off)
        cases.append((text, cat, line, exp_line, off))
    reqs = ['parse ' + hx(c[0]) for c in cases]

    def proj(r):
        # the observable of this property: rejected or not, and the LINE named (not the internal error code)
        f = r.split(' ')
        return 'err ' + f[2] if f[0] == 'err' else f[0]
    m, im = run.tie(reqs, proj=proj, functional=True,
                    desc=lambda i: {'text': cases[i][0], 'fault': cases[i][2], 'line': cases[i][3]})
    for (text, cat, line, exp_line, off), r in zip(cases, im):
        if r is None:
            continue
        run.case(text, exp_line > 1 and off > 0, sample={'text': text[:300], 'fault': line, 'line': exp_line, 'answer': r[:80]}
                 if rng.random() < 0.003 else None, fault=cat, line=min(exp_line, 12))
        f = r.split(' ')
        if f[0] == 'ok':
            run.fail({'text': text, 'fault': line, 'line': exp_line, 'answer': r[:200]},
                     'a program with a %s fault (%r on line %d) is accepted' % (cat, line, exp_line))
        elif f[0] != 'err':
            run.fail({'text': text, 'fault': line, 'answer': r[:200]}, 'parse does not return: ' + f[0])
        else:
            run.count('errcode=' + f[1])
            if int(f[2]) != exp_line:
                run.fail({'text': text, 'fault': line, 'line': exp_line, 'answer': r[:200]},
                         'the %s fault %r is on line %d but the error names line %s' % (cat, line, exp_line, f[2]))
    # NEIGHBOURS of keywords: one keyword (or `it` / `the`, which the parser recognises by their spelling) of a valid program
    # replaced by a word that extends it, truncates it or doubles a letter: whether and where the result is rejected
    kn = []
    import re as _re
    specials = set(w for forms in rock.ALIASES.values() for w in forms if w[0].isalpha()) | {'it', 'the', 'back', 'down', 'up', 'top'}
    for _ in range(run.n(2500, 60000)):
        g = rock.Gen(rng, max_depth=2)
        t = rock.Speller(rng, noise=0, comments=0, recase=0).program(g.program(depth=rng.randint(0, 1)))
        words = [mo for mo in _re.finditer(r"[A-Za-z']+", t) if mo.group(0).lower() in specials]
        if not words:
            continue
        mo = rng.choice(words)
        w = mo.group(0)
        nb = rng.choice([w + 's', w + 'm', w + w[-1], w[:-1] or w, w + 'x', w[0] + w, w + 'aly', w.capitalize() + 'odore'])
        kn.append(t[:mo.start()] + nb + t[mo.end():])
    # ... and every word of every multi-word statement form, systematically
    forms = ['while x\nbreak it down\n', 'while x\ntake it to the top\n', 'f takes x\ngive back x\n', 'f takes x\ngive x back\n', 'listen to x\n',
             'knock x down\n', 'build x up\n', 'turn x up\n', 'turn up x\n', 'say x is as great as y\n', 'say x is greater than y\n', 'put x into y\n',
             'let x be y\n', 'cut x into y with z\n', 'say f taking y\n', 'f takes x and y\nsay 1\n', 'rock x with y\n', 'rock x like a rolling stone\n',
             'roll x into y\n', 'if x\nsay 1\nelse\nsay 2\n', 'x is nothing\n', 'say it\n', 'my heart is true\n', 'the night says hello\n', 'until x\nsay 1\n',
             'join x with y\n', 'cast x into y\n', "x's 5\n", "say x ain't y\n", 'say x and y or z nor w\n', 'say not x\n', 'say 1 over 2 times 3 minus 4 plus 5\n']
    for f_ in forms:
        for mo in _re.finditer(r"[A-Za-z']+", f_):
            w = mo.group(0)
            for nb in (w + 's', w + 'm', w + w[-1], w[:-1], w + 'x', w[0] + w, w + 'aly', w.capitalize() + 'odore', w.upper(), w[1:], w + "'"):
                if nb and nb != w:
                    kn.append('say 1\n' + f_[:mo.start()] + nb + f_[mo.end():])
    run.tie(['parse ' + hx(t) for t in kn], proj=lambda r: ('err ' + r.split(' ')[2]) if r.startswith('err') else r.split(' ')[0], functional=True,
            desc=lambda i: {'text': kn[i], 'section': 'keyword neighbours'})
    for t in kn:
        run.case(('kw-neighbour', t), True, kind='keyword-neighbour')
    # an odd FIRST line (what other tools treat specially: shebang, byte order mark, editor modelines, comment styles of other
    # languages, front matter), then an ordinary program with a fault further down: rejected where the model says (line 1
    # unless the first line happens to be valid Rockstar)
    firsts = ['#!/usr/bin/env rrss', '#!', '#!say 1', '# comment', '// comment', '-- comment', '/* c */', ';; c', '%YAML 1.2', '---',
              '<?xml version="1.0"?>', '\ufeff', '\ufeffsay 1', '(a comment)', '(a comment', '"""', 'vim: set ft=rock:', '\x0c', '\r', ' ', '']
    fl = []
    for f0 in firsts:
        for body in ['say 1\nput\nsay 2\n', 'say 1\n\nif x\nsay 2\n\nsay 3 say 4\n', '\n\nx is\n']:
            fl.append(f0 + '\n' + body)
    run.tie(['parse ' + hx(t) for t in fl], proj=lambda r: ('err ' + r.split(' ')[2]) if r.startswith('err') else r.split(' ')[0], functional=True,
            desc=lambda i: {'text': fl[i], 'section': 'odd first line'})
    for t in fl:
        run.case(('first-line', t), True, kind='odd-first-line')
    # tokens of every class and byte length as the faulty line (whether each IS a fault is the model's call; the line must
    # agree), and a fault after one construct repeated N times (model-free: the line is the number of line breaks + 1)
    st = ['say 1\n\n' + t + '\nsay 2\n' for t in texts.sized_tokens(run.tier == 'quick') + texts.category_tokens()]
    sc = [(k, t + 'put\n') for k, _, t in texts.scale_programs(run.tier == 'quick')]
    sreqs = ['parse ' + hx(t) for t in st] + ['parse ' + hx(t) for _, t in sc]
    sm, sim = run.tie(sreqs, proj=lambda r: ('err ' + r.split(' ')[2]) if r.startswith('err') else r.split(' ')[0], functional=True,
                      desc=lambda i: {'text': (st + [t for _, t in sc])[i][:2000], 'section': 'sized / scale'})
    for (k, t), r in zip(sc, sim[len(st):]):
        run.case(('scale', t), True, kind='scale')
        if r is None:
            continue
        f = r.split(' ')
        if k in ('paragraphs', 'paragraphs-if', 'statements', 'leading-blank-lines'):
            want = t.count('\n')
            if f[0] != 'err' or int(f[2]) != want:
                run.fail({'text': t[:300] + ' ...', 'repeated': k, 'line': want, 'answer': r[:200]},
                         'a missing-operand fault on line %d after %s is not rejected on that line' % (want, k))
    for t, r in zip(st, sim):
        run.case(('sized', t), True, kind='sized-token')
        if r is not None and r.startswith('err'):
            f = r.split(' ')
            if len(f) < 4 or f[3] == 'crash' or len(f[3]) <= 1:
                run.fail({'text': t, 'answer': r[:200]}, 'the parse error cannot be rendered')
    # every short token sequence: which ones are rejected, with which code and on which line

    def proj13(r):
        f = r.split(' ')
        return 'err ' + f[2] if f[0] == 'err' else f[0]
    small_scope(run, proj13, 'rejection and its line')
    layout_scope(run, proj13, 'rejection and its line')


# ----------------------------------------------------------------------------- C11

def nearest_double(fr):
    """correctly rounded binary64 of a non-negative Fraction"""
    if fr == 0:
        return 0.0
    return float(fr)          # Fraction.__float__ is correctly rounded (integer division with rounding)


def ulp_distance(a, b):
    ia = struct.unpack('<q', struct.pack('<d', a))[0]
    ib = struct.unpack('<q', struct.pack('<d', b))[0]
    return abs(ia - ib)


def gen_poetic_line(rng):
    """a poetic number literal as source words; returns (text, digits, dotpos) where digits are
    computed from the WORDS as the property states (independent of the tokenisation)"""
    kws = sorted(w for w in rock.KEYWORDS)
    n = rng.randint(1, 10) if rng.random() < 0.8 else rng.randint(11, 40)
    text = ''
    digits = []
    dotpos = None
    first = True
    for i in range(n):
        r = rng.random()
        # a period / comma anywhere
        if r < 0.12 and not (first and False):
            text += rng.choice(['.', ' .', '. ', ' . '])
            if dotpos is None:
                dotpos = len(digits)
            continue
        if r < 0.18 and not first:
            text += rng.choice([',', ' ,'])
            continue
        if r < 0.45 and not first and text.rstrip().endswith('.'):
            # STRAY suffixes: hyphen or apostrophe parts right after a PERIOD have no word in front of them: each is a word of
            # its own (hyphen counted, apostrophe not); after a word (even across blanks or a comma) they belong to that word
            chain = ''
            for _ in range(rng.randint(1, 3)):
                if rng.random() < 0.7:
                    part = ''.join(rng.choice('abcdefgh') for _ in range(rng.randint(1, 5)))
                    chain += '-' + part
                    digits.append((1 + len(part)) % 10)
                else:
                    suf = rng.choice(["'s", "'re"])
                    chain += suf
                    digits.append(len(suf) - 1)
            text += (' ' if text and not text.endswith(' ') else '') + chain
            digits.append('stray')          # how stray suffixes group is not fixed by the property: such literals are TIED only
            continue
        L = rng.choice([1, 2, 3, 4, 5, 6, 7, 8, 9, 10, 10, 11, 13, 20, 21, 30])
        rr = rng.random()
        if rr < 0.15 and not first:
            w = rng.choice(kws)                      # keywords used as words
        elif rr < 0.25:
            w = ''.join(rng.choice('éüßñø') if rng.random() < 0.3 else rng.choice('abcdefghij') for _ in range(L))
        else:
            w = ''.join(rng.choice('abcdefghijklmnopqrstuvwxyz') for _ in range(L))
        if first:
            # the first word must not make the right-hand side an ordinary expression
            while w.lower() in rock.KEYWORDS:
                w = w + 'q'
        length = sum(1 for c in w if c != "'")
        rr = rng.random()
        if rr < 0.12:
            suf = rng.choice(["'s", "'re"])
            w += suf
            length += len(suf) - 1
        elif rr < 0.22:
            part = ''.join(rng.choice('abcdefgh') for _ in range(rng.randint(1, 5)))
            w += '-' + part                          # hyphenated part counted with its word (hyphen included)
            length += 1 + len(part)
        elif rr < 0.27 and w.lower() not in rock.KEYWORDS and len(w) > 2:
            k = rng.randint(1, len(w) - 1)
            w = w[:k] + "'" + w[k:]                   # apostrophe inside a word: not counted
        # words are separated by blanks of any kind (ASCII, Unicode spaces) or ignorable punctuation
        sep = ' '
        rs = rng.random()
        if rs < 0.12:
            sep = rng.choice(['\u00a0', '\u3000', '\u2009', '\u0085', '\t', '  ', ' \u00a0', '\u2003 ', '\u1680', '\u202f', '\u205f'])
        elif rs < 0.18:
            sep = rng.choice(['?', '!', ';', ':', '? ', ' !', '?!'])
        text += ((sep if not text.endswith(' ') or sep.strip(' ') else '') if text else '') + w
        digits.append(length % 10)
        first = False
    return text, digits, dotpos


def c11(run):
    rng = run.rng
    n = run.n(4000, 150000)
    run.rule = ('poetic number literals: 1-10 words of lengths 1..30 (multiples of 10 included), apostrophes inside words, '
                "'s/'re suffixes, hyphenated parts, keywords used as words, periods and commas in any position, non-ASCII "
                'letters, words separated by ASCII blanks, Unicode spaces or ignorable punctuation; poetic strings: line texts with balanced quotes/parens, leading/trailing/multiple spaces, non-ASCII; '
                'non-trivial = literal has a period, a suffix/hyphen/apostrophe, a keyword or a zero digit; distinct by text')
    cases = []
    for i in range(n):
        r = rng.random()
        if r < 0.75:
            text, digits, dotpos = gen_poetic_line(rng)
            if not digits and dotpos is None:
                continue
            stray = 'stray' in digits
            var = rng.choice(['X', 'my heart', 'Tommy'])
            isw = rng.choice(['is', 'are', 'was', 'were', "'s"]) if var != 'my heart' else rng.choice(['is', 'was'])
            src = var + ("'s" if isw == "'s" else ' ' + isw) + ' ' + text + '\nsay ' + var + '\n'
            cases.append(('numtie' if stray else 'num', src, digits, dotpos, text))
        else:
            k = rng.randint(0, 14)
            body = ''.join(rng.choice('abc XYZ,.!?\'- 09éΩ') for _ in range(k))
            if rng.random() < 0.3:
                body += rng.choice([' "quoted" ', ' (aside) ', '  ', ' said ', ' says '])
            if rng.random() < 0.2:
                body += rng.choice(['\r', ' \r', '\r\r', 'x\r', '\t', '\x0b', '\u00a0', '\u2028'])     # the line ends at the line feed, nothing else
            src = 'X says ' + body + '\nsay X\n'
            cases.append(('str', src, body, None, body))
    # word lengths and word counts sweeping powers of two +-1 and 1000 (a digit is the length modulo 10 whatever the length)
    for nn in (texts.SWEEP_QUICK if run.tier == 'quick' else texts.SWEEP):
        w = ''.join(rng.choice('abcdefghijklmnopqrstuvwxyz') for _ in range(nn))
        cases.append(('num', 'X is %s bc\nsay X\n' % w, [nn % 10, 2], None, 'word of %d letters' % nn))
        cases.append(('num', 'X is ab-%s. c\nsay X\n' % w, [(nn + 3) % 10, 1], 1, 'hyphenated part of %d letters' % nn))
        cases.append(('num', "X is %s's. c\nsay X\n" % w, [(nn + 1) % 10, 1], 1, 'suffixed word of %d letters' % nn))
        if nn <= 300:
            cases.append(('num', 'X is%s\nsay X\n' % (' abc' * nn), [3] * nn, None, '%d words' % nn))
    # degenerate shapes: a suffix with no word before it (after a comment / number / string), and the
    # recorded finding F2: hundreds of fractional digits (the power of ten underflows)
    cases.append(('num', "X is (c)'s foo\nsay X\n", [1, 3], None, "(c)'s foo"))
    cases.append(('num', "X is a . (c)'re b\nsay X\n", [1, 2, 1], 1, "a . (c)'re b"))
    cases.append(('num', 'X is abcdefghij. ' + 'abcdefghij ' * 322 + 'abcde\nsay X\n', [0] + [0] * 322 + [5], 1, 'F2-underflow-323'))
    # (repaired D17) leading zero digits of infinite weight: 309 ten-letter words and a five-letter one spell 5
    cases.append(('num', 'X is ' + 'abcdefghij ' * 309 + 'abcde\nsay X\n', [0] * 309 + [5], None, 'zeros-of-infinite-weight'))
    reqs = ['parse ' + hx(c[1]) for c in cases]
    m, im = run.tie(reqs, proj=rock.erase_positions, functional=True, desc=lambda i: {'text': cases[i][1]})
    # values are also observed through execution
    rreqs = ['run %s x - - 1000' % hx(c[1]) for c in cases]
    rm, rim = run.tie(rreqs, functional=True, desc=lambda i: {'text': cases[i][1], 'via': 'run'})
    maxulp = 0
    for c, r, rr in zip(cases, im, rim):
        if r is None:
            continue
        kind, src = c[0], c[1]
        if kind == 'numtie':
            run.case(src, True, kind_='stray-suffixes (tied only)')
            if not r.startswith('ok'):
                run.fail({'text': src, 'answer': r[:200]}, 'a poetic literal is not parsed as one: ' + r[:60])
            continue
        if kind == 'num':
            digits, dotpos, text = c[2], c[3], c[4]
            nt = dotpos is not None or "'" in text or '-' in text or 0 in digits or any(w in rock.KEYWORDS for w in text.lower().split())
            run.case(src, nt, sample={'text': src, 'digits': digits, 'dot': dotpos, 'answer': r[:160]} if rng.random() < 0.002 else None,
                     ndigits=len(digits), dot=dotpos is not None)
            i = r.find('(plit ')
            if not r.startswith('ok') or i < 0:
                run.fail({'text': src, 'answer': r[:200]}, 'a poetic literal is not parsed as one: ' + r[:60])
                continue
            bits = r[i + 6:i + 22]
            if bits.startswith('crash'):
                run.fail({'text': src, 'answer': r[:200]}, 'computing the value of a poetic literal panics')
                continue
            got = struct.unpack('<d', struct.pack('<Q', int(bits, 16)))[0]
            dp = len(digits) if dotpos is None else dotpos
            num = 0
            for d in digits:
                num = num * 10 + d
            exact = Fraction(num, 10 ** (len(digits) - dp))
            want = nearest_double(exact)
            d = ulp_distance(got, want) if got == got else 10 ** 9
            maxulp = max(maxulp, d) if d < 10 ** 9 else maxulp
            if exact.denominator == 1 and exact < 2 ** 53:
                if got != want:
                    run.fail({'text': src, 'digits': digits, 'want': want, 'got': got}, 'integer poetic literal below 2^53 is not exact')
            elif d > 8:
                run.fail({'text': src, 'digits': digits, 'want': want, 'got': got, 'ulps': d},
                         'poetic literal differs from the numeral its words spell by %d ulp' % d,
                         key='poetic:' + text if text.startswith('F2-') else None)
        else:
            body = c[2]
            run.case(src, len(body.strip()) > 0, dist='str')
            want = '(pstr (lid (simple x58)) %s)' % hx(body)
            if not r.startswith('ok') or want not in rock.erase_positions(r):
                run.fail({'text': src, 'answer': r[:200]}, 'poetic string is not the exact text after `says `')
            if rr is not None and rr.startswith('ok'):
                out = unhx(rr.split(' ')[1]).decode('utf-8', 'replace')
                if out != body + '\n':
                    run.fail({'text': src, 'printed': out}, 'poetic string prints as something else')
    run.extra['max_ulp_distance_to_exact_rational'] = maxulp
