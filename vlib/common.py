"""Shared machinery of the checks: builds, servers (model driver / harness), watchdog,
evidence, known findings, violation reporting."""
import hashlib
import json
import os
import re
import subprocess
import sys
import tempfile
import time
from concurrent.futures import ThreadPoolExecutor

VERIF = os.path.dirname(os.path.dirname(os.path.abspath(__file__)))
REPO = os.environ.get('VERIF_REPO', '/repo')
LEAN = os.path.join(VERIF, 'lean')
HARNESS = os.path.join(VERIF, 'harness')
WORK = os.path.join(VERIF, 'work')
DRIVER = os.path.join(LEAN, '.lake', 'build', 'bin', 'driver')
NCPU = os.cpu_count() or 4
MAX_BAD = 3

ALLOWED_AXIOMS = {'propext', 'Classical.choice', 'Quot.sound'}
FORBIDDEN = re.compile(r'\b(sorry|admit|native_decide|bv_decide|implemented_by|unsafe)\b|^\s*axiom\s|maxHeartbeats\s+0')


def hx(s):
    if isinstance(s, str):
        s = s.encode('utf-8')
    return 'x' + s.hex()


def unhx(f):
    assert f.startswith('x'), f
    return bytes.fromhex(f[1:])


def sh(cmd, cwd=None, timeout=None, env=None):
    e = dict(os.environ)
    e['CARGO_NET_OFFLINE'] = 'true'
    if env:
        e.update(env)
    p = subprocess.run(cmd, cwd=cwd, shell=isinstance(cmd, str), capture_output=True, text=True,
                       timeout=timeout, env=e)
    return p.returncode, p.stdout, p.stderr


class BuildError(Exception):
    pass


def harness_bin(profile='debug'):
    # development aid (tools/coverage.sh): an instrumented build of the same harness, to MEASURE which lines of /repo the
    # generated inputs reach; never set by a registered command
    if os.environ.get('VERIF_HARNESS_BIN'):
        return os.environ['VERIF_HARNESS_BIN']
    return os.path.join(HARNESS, 'target', profile, 'harness')


def build_harness(profile='debug'):
    """(re)build the harness against /repo's working tree"""
    if os.environ.get('VERIF_HARNESS_BIN'):
        return harness_bin(profile)
    args = 'cargo build --offline' + (' --release' if profile == 'release' else '')
    rc, out, err = sh(args, cwd=HARNESS, timeout=1800)
    if rc != 0:
        raise BuildError('harness does not build against %s (%s):\n%s' % (REPO, profile, err[-3000:]))
    return harness_bin(profile)


def write_if_changed(path, text):
    try:
        if open(path).read() == text:
            return False
    except FileNotFoundError:
        pass
    os.makedirs(os.path.dirname(path), exist_ok=True)
    with open(path, 'w') as f:
        f.write(text)
    return True


def candidate_words():
    """candidate keywords: every lowercase/apostrophe string literal in src/frontend/*.rs
    united with the committed alias list"""
    import glob
    cands = set(open(os.path.join(LEAN, 'Rrss', 'Spec', 'aliases.txt')).read().split())
    for f in glob.glob(os.path.join(REPO, 'src', 'frontend', '*.rs')):
        for m in re.finditer(r'"([a-z][a-z\']*)"', open(f, errors='replace').read()):
            cands.add(m.group(1))
    return sorted(cands)


def regen_tables():
    """regenerate Rrss/Generated/*.lean from the running code (keyword table behaviourally,
    Unicode tables from the std in use); returns True if anything changed"""
    hb = harness_bin()
    os.makedirs(WORK, exist_ok=True)
    cf = os.path.join(WORK, 'candidates.txt')
    with open(cf, 'w') as f:
        f.write('\n'.join(candidate_words()) + '\n')
    rc, kwsrc, err = sh([hb, 'keywords', cf])
    if rc != 0:
        raise BuildError('harness keywords failed: ' + err)
    rc, unisrc, err = sh([hb, 'unicode'])
    if rc != 0:
        raise BuildError('harness unicode failed: ' + err)
    a = write_if_changed(os.path.join(LEAN, 'Rrss', 'Generated', 'Keywords.lean'), kwsrc)
    b = write_if_changed(os.path.join(LEAN, 'Rrss', 'Generated', 'Unicode.lean'), unisrc)
    return a or b


def lake_build(targets):
    """returns (ok, log)"""
    rc, out, err = sh(['lake', 'build'] + list(targets), cwd=LEAN, timeout=3600)
    return rc == 0, out + err


# ----------------------------------------------------------------------------- servers

WALL_STALL = 900
# hangs and aborts confirmed in this whole run, over all batches: after a dozen the point is made (each costs seconds of
# watchdog time); later requests of every batch are answered `skipped`
TOTAL_BAD = 0
MAX_TOTAL_BAD = 12
_TICK = os.sysconf('SC_CLK_TCK')


def _cpu_seconds(pid):
    """user + system CPU time consumed so far by the process (all its threads)"""
    try:
        with open('/proc/%d/stat' % pid) as f:
            fields = f.read().rsplit(')', 1)[1].split()
        return (int(fields[11]) + int(fields[12])) / _TICK
    except Exception:
        return 0.0


def _serve_once(cmd, lines, out_path, stall_s):
    """run `cmd` over `lines`; returns responses received (list) and status"""
    with tempfile.NamedTemporaryFile('w', dir=WORK, suffix='.req', delete=False) as f:
        f.write('\n'.join(lines) + '\n')
        req_path = f.name
    try:
        with open(req_path) as fin, open(out_path, 'w') as fout:
            def pre():
                import resource
                try:
                    resource.setrlimit(resource.RLIMIT_STACK, (resource.RLIM_INFINITY, resource.RLIM_INFINITY))
                except Exception:
                    pass
            p = subprocess.Popen(cmd, stdin=fin, stdout=fout, stderr=subprocess.DEVNULL, preexec_fn=pre)
            # a request "hangs" when the server has burnt `stall_s` seconds of CPU TIME (not wall time: the machine may be
            # busy and the process descheduled) without producing output; a server that neither computes nor answers for
            # WALL_STALL seconds of wall time (blocked) counts as hung too
            last_size, last_cpu, last_t = -1, _cpu_seconds(p.pid), time.time()
            status = 'done'
            while True:
                try:
                    p.wait(timeout=0.2)
                    break
                except subprocess.TimeoutExpired:
                    pass
                sz = os.path.getsize(out_path)
                cpu = _cpu_seconds(p.pid)
                if sz != last_size:
                    last_size, last_cpu, last_t = sz, cpu, time.time()
                elif cpu - last_cpu > stall_s or time.time() - last_t > WALL_STALL:
                    p.kill()
                    p.wait()
                    status = 'hang'
                    break
            if status == 'done' and p.returncode != 0:
                status = 'died'
        with open(out_path, errors='replace') as f:
            data = f.read()
        resp = data.split('\n')
        if resp and resp[-1] == '':
            resp.pop()
        elif resp:
            resp.pop()      # partial last line
        return resp, status
    finally:
        os.unlink(req_path)


def serve(cmd, requests, stall_s=20, tag='srv'):
    """Answer all requests with the server `cmd`, surviving hangs and aborts: the request in
    flight when the server stalls is answered `hang`, when it dies `crash`."""
    os.makedirs(WORK, exist_ok=True)
    out = []
    todo = list(requests)
    n = 0
    bad = 0
    global TOTAL_BAD
    while todo:
        if bad >= MAX_BAD or TOTAL_BAD >= MAX_TOTAL_BAD:
            # enough hangs / aborts to establish the point; do not spend minutes on more
            out += ['skipped'] * len(todo)
            break
        n += 1
        op = os.path.join(WORK, '%s.%d.%d.out' % (tag, os.getpid(), n))
        resp, status = _serve_once(cmd, todo, op, stall_s)
        try:
            os.unlink(op)
        except OSError:
            pass
        resp = resp[:len(todo)]
        out += resp
        todo = todo[len(resp):]
        if not todo:
            break
        # the request in flight: confirm by running it ALONE in a fresh server (a verdict of `hang` or `crash` must be
        # reproducible; a server killed from outside or starved once is not the implementation's fault)
        n += 1
        op = os.path.join(WORK, '%s.%d.%d.out' % (tag, os.getpid(), n))
        r1, st1 = _serve_once(cmd, todo[:1], op, stall_s)
        try:
            os.unlink(op)
        except OSError:
            pass
        if r1:
            out.append(r1[0])          # answered normally on its own: not a hang / crash of this request
        else:
            bad += 1
            TOTAL_BAD += 1
            out.append('hang' if st1 == 'hang' else 'crash')       # died (abort / stack overflow / OOM) or exited early
        todo = todo[1:]
    return out


def serve_sharded(cmd, requests, stall_s=20, tag='srv', shards=None):
    shards = shards or min(NCPU, max(1, len(requests) // 50))
    if shards <= 1:
        return serve(cmd, requests, stall_s, tag)
    size = (len(requests) + shards - 1) // shards
    parts = [requests[i:i + size] for i in range(0, len(requests), size)]
    with ThreadPoolExecutor(max_workers=len(parts)) as ex:
        res = list(ex.map(lambda ip: serve(cmd, ip[1], stall_s, '%s%d' % (tag, ip[0])), enumerate(parts)))
    out = []
    for r in res:
        out += r
    return out


def model(requests, stall_s=30):
    return serve_sharded([DRIVER], requests, stall_s, 'model')


def impl(requests, profile='debug', stall_s=6):
    return serve_sharded([harness_bin(profile), 'serve'], requests, stall_s, 'impl-' + profile)


# ----------------------------------------------------------------------------- audit

def audit(prop, theorems):
    """`#print axioms` of every listed theorem + source grep. Returns (obligations, discharged, problems)"""
    problems = []
    import glob
    mods = sorted(os.path.basename(f)[:-5] for f in glob.glob(os.path.join(LEAN, 'Rrss', 'Thm', prop + '*.lean')))
    src = ['import Rrss.Thm.%s' % m for m in mods] + ['#print axioms %s' % t for t in theorems]
    os.makedirs(WORK, exist_ok=True)
    path = os.path.join(WORK, 'Audit_%s.lean' % prop)
    with open(path, 'w') as f:
        f.write('\n'.join(src) + '\n')
    rc, out, err = sh(['lake', 'env', 'lean', path], cwd=LEAN, timeout=1200)
    text = out + err
    discharged = 0
    for t in theorems:
        m = re.search(r"'%s' depends on axioms: \[([^\]]*)\]" % re.escape(t), text.replace('\n', ' '))
        m2 = re.search(r"'%s' does not depend on any axioms" % re.escape(t), text)
        if m2:
            discharged += 1
        elif m:
            ax = {a.strip() for a in m.group(1).split(',') if a.strip()}
            bad = ax - ALLOWED_AXIOMS
            if bad:
                problems.append('%s uses axioms %s' % (t, sorted(bad)))
            else:
                discharged += 1
        else:
            problems.append('%s: not found / does not check (%s)' % (t, text[-300:].strip()))
    # source grep over the whole Lean project (comments stripped)
    for root, _, files in os.walk(os.path.join(LEAN, 'Rrss')):
        for fn in files:
            if fn.endswith('.lean'):
                p = os.path.join(root, fn)
                body = strip_lean_comments(open(p, errors='replace').read())
                for i, line in enumerate(body.split('\n'), 1):
                    if FORBIDDEN.search(line):
                        problems.append('%s:%d: forbidden construct: %s' % (os.path.relpath(p, LEAN), i, line.strip()[:80]))
    return len(theorems), discharged, problems


def strip_lean_comments(s):
    out = []
    i, depth = 0, 0
    n = len(s)
    while i < n:
        if s.startswith('/-', i):
            depth += 1
            i += 2
        elif depth and s.startswith('-/', i):
            depth -= 1
            i += 2
        elif depth:
            if s[i] == '\n':
                out.append('\n')
            i += 1
        elif s.startswith('--', i):
            while i < n and s[i] != '\n':
                i += 1
        elif s[i] == '"':
            j = i + 1
            while j < n and s[j] != '"':
                j += 2 if s[j] == '\\' else 1
            out.append('""')
            i = j + 1
        else:
            out.append(s[i])
            i += 1
    return ''.join(out)


# ----------------------------------------------------------------------------- findings / evidence

def known_findings():
    """open findings of /verif/known_findings.txt: dicts {property, id, key, what, status};
    `fixed:` lines are history and suppress nothing"""
    out = []
    p = os.path.join(VERIF, 'known_findings.txt')
    if os.path.exists(p):
        for line in open(p):
            line = line.strip()
            if line.startswith('open:'):
                m = re.match(r'open: property=(\S+) id=(\S+) key=(\S+) (.*)', line)
                if m:
                    out.append({'property': m.group(1), 'id': m.group(2), 'key': m.group(3), 'what': m.group(4), 'status': 'open'})
    return out


def case_hash(*parts):
    h = hashlib.sha1()
    for p in parts:
        h.update(repr(p).encode())
    return h.hexdigest()[:16]


def clip(obj, n=4000):
    """keep replay / evidence files readable: clip very long strings (the full text is regenerated from the seed)"""
    if isinstance(obj, str):
        return obj if len(obj) <= n else obj[:n] + '…[%d more chars]' % (len(obj) - n)
    if isinstance(obj, dict):
        return {k: clip(v, n) for k, v in obj.items()}
    if isinstance(obj, (list, tuple)):
        return [clip(v, n) for v in obj]
    return obj


def write_json(path, obj):
    obj = clip(obj)
    os.makedirs(os.path.dirname(path), exist_ok=True)
    tmp = path + '.tmp'
    with open(tmp, 'w') as f:
        json.dump(obj, f, indent=1, ensure_ascii=False, default=str)
    os.replace(tmp, path)
