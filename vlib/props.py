"""registry of the checks"""
from . import p_front, p_exec, p_analysis

CHECKS = {
    'C01': p_front.c01,
    'C02': p_front.c02,
    'C11': p_front.c11,
    'C12': p_front.c12,
    'C13': p_front.c13,
    'C03': p_exec.c03,
    'C04': p_exec.c04,
    'C14': p_exec.c14,
    'C05': p_exec.c05,
    'C06': p_exec.c06,
    'C07': p_exec.c07,
    'C15': p_exec.c15,
    'C16': p_analysis.c16,
    'C17': p_analysis.c17,
    'C18': p_analysis.c18,
    'C19': p_analysis.c19,
    'C20': p_analysis.c20,
    'C08': p_exec.c08,
    'C09': p_exec.c09,
    'C10': p_exec.c10,
}

# properties whose thorough tier also runs the release build of the harness
RELEASE_TOO = {'C01', 'C09'}

# properties whose theorems take Unicode facts (CharLaws) as hypotheses
CHARLAWS = {'C01', 'C02', 'C12', 'C13', 'C15'}
