"""One check run: accumulate cases, disagreements (model vs implementation), oracle failures;
decide; write evidence and replays; print VIOLATION / KNOWN-FINDING lines."""
import collections
import json
import os
import random
import sys
import time

from . import common
from .theorems import THEOREMS, TRUSTED


class Run:
    def __init__(self, prop, tier, seed):
        self.prop = prop
        self.tier = tier
        self.seed = seed
        self.rng = random.Random((seed * 1000003) ^ hash_str(prop))
        self.t0 = time.time()
        self.evaluations = 0
        self.keys = set()
        self.nontrivial = set()
        self.samples = []
        self.dist = collections.Counter()
        self.disagreements = []      # dicts: case, model, impl, functional
        self.failures = []           # dicts: case, what, key
        self.notes = []
        self.proof_problems = []
        self.obligations = 0
        self.discharged = 0
        self.programs = 0
        self.skipped_budget = 0
        self.rule = ''
        self.extra = {}

    def n(self, quick, thorough):
        return quick if self.tier == 'quick' else thorough

    # --- bookkeeping
    def case(self, key, nontrivial=False, sample=None, **dist):
        self.evaluations += 1
        k = common.case_hash(key)
        self.keys.add(k)
        if nontrivial:
            self.nontrivial.add(k)
        if sample is not None and len(self.samples) < 6:
            self.samples.append(sample)
        for a, b in dist.items():
            self.dist['%s=%s' % (a, b)] += 1

    def count(self, what, k=1):
        self.dist[what] += k

    def disagree(self, case, model, impl, functional=True, what=''):
        self.disagreements.append({'case': case, 'model': model, 'impl': impl,
                                   'functional': functional, 'what': what})

    def fail(self, case, what, key=None):
        self.failures.append({'case': case, 'what': what, 'key': key or case})

    # --- the tie
    def tie(self, requests, proj=None, functional=True, profile='debug', desc=None, skip_budget=True):
        """send the requests to the model; those within the model's budget go to the
        implementation; compare after projection. Returns (model, impl) lists aligned with
        requests (impl is None where skipped)."""
        proj = proj or (lambda r: r)
        m = common.model(requests)
        idx = [i for i, r in enumerate(m) if not (skip_budget and over_budget(r))]
        self.skipped_budget += len(requests) - len(idx)
        im = common.impl([requests[i] for i in idx], profile)
        impl = [None] * len(requests)
        for i, r in zip(idx, im):
            impl[i] = r
        for i in idx:
            if impl[i] == 'skipped':
                impl[i] = None
                continue
            pm, pi = proj(m[i]), proj(impl[i])
            if pm != pi:
                d = desc(i) if desc else requests[i]
                self.disagree(d, m[i], impl[i], functional)
        self.programs += len(idx)
        return m, impl

    # --- finish
    def finish(self):
        prop = self.prop
        known = [k for k in common.known_findings() if k.get('property') == prop and k.get('status') == 'open']
        out_lines = []
        violations = []

        def is_known(f):
            for k in known:
                if k.get('key') is not None and k['key'] == f.get('key'):
                    return k
            return None

        seen_known = {}
        real_failures = []
        for f in self.failures:
            k = is_known(f)
            if k:
                seen_known[k['key']] = k
            else:
                real_failures.append(f)
        for k in seen_known.values():
            out_lines.append('KNOWN-FINDING: property=%s %s' % (prop, k['what']))

        os.makedirs(os.path.join(common.VERIF, 'replays'), exist_ok=True)
        stamp = '%s_%s_%d' % (prop, self.tier, self.seed)
        for suffix in ('_oracle.json', '_tie.json', '_proof.json'):
            try:
                os.unlink(os.path.join(common.VERIF, 'replays', stamp + suffix))
            except OSError:
                pass
        if real_failures:
            f = real_failures[0]
            path = os.path.join('replays', stamp + '_oracle.json')
            common.write_json(os.path.join(common.VERIF, path), {
                'property': prop, 'kind': 'oracle failure on the implementation', 'what': f['what'],
                'case': f['case'], 'more': [x['what'] for x in real_failures[1:20]],
                'count': len(real_failures)})
            violations.append((path, ''))
        if self.disagreements:
            # a disagreement on an observable that the property fixes IS a failing input (the
            # model's answer is the one the theorems prescribe); otherwise none was found
            func = [d for d in self.disagreements if d['functional']]
            d = (func or self.disagreements)[0]
            path = os.path.join('replays', stamp + '_tie.json')
            common.write_json(os.path.join(common.VERIF, path), {
                'property': prop,
                'kind': 'correspondence model/implementation broken',
                'correspondence': 'Rrss model (theorems %s) vs /repo on the observables of %s' % (
                    ', '.join(THEOREMS.get(prop, [])[:6]), prop),
                'failing_input_found': bool(func) or bool(real_failures),
                'case': d['case'], 'model_says': d['model'], 'implementation_says': d['impl'],
                'what': d['what'], 'count': len(self.disagreements),
                'more': [{'case': x['case'], 'model': x['model'], 'impl': x['impl']} for x in self.disagreements[1:10]]})
            if not real_failures:
                violations.append((path, '' if func else ' no-failing-input-found'))
        if self.proof_problems:
            path = os.path.join('replays', stamp + '_proof.json')
            common.write_json(os.path.join(common.VERIF, path), {
                'property': prop, 'kind': 'proof obligation no longer checks',
                'theorems': THEOREMS.get(prop, []), 'problems': self.proof_problems[:20],
                'failing_input_found': bool(real_failures) or bool(self.disagreements)})
            if not violations:
                violations.append((path, ' no-failing-input-found'))

        wall = time.time() - self.t0
        ev = {
            'property_id': prop, 'tier': self.tier, 'seed': self.seed,
            'level': 'proof' if (self.obligations > 0 and self.discharged == self.obligations) else 'exploration',
            'coverage': {
                'obligations': self.obligations, 'discharged': self.discharged,
                'checker_cmd': 'cd /verif/lean && lake build Rrss.Thm.%s && lake env lean work/Audit_%s.lean  (#print axioms of every listed theorem; allowed: propext, Classical.choice, Quot.sound)' % (prop, prop),
                'trusted_base': TRUSTED.get(prop, TRUSTED['*']),
                'theorems': THEOREMS.get(prop, []),
                'programs': self.programs,
                'disagreements_checked': self.programs,
                'disagreements_found': len(self.disagreements),
                'evaluations': self.evaluations,
                'distinct_nontrivial': len(self.nontrivial),
                'distinct': len(self.keys),
                'skipped_over_model_budget': self.skipped_budget,
                'rule': self.rule,
                'samples': self.samples[:6] or ['(none)'],
                'distribution': dict(self.dist.most_common(60)),
                'notes': self.notes,
            },
            'assumptions': TRUSTED.get(prop, TRUSTED['*']),
            'wall_s': round(wall, 2),
            'violations': len(violations),
        }
        ev['coverage'].update(self.extra)
        common.write_json(os.path.join(common.VERIF, 'evidence', prop + '.json'), ev)
        for l in out_lines:
            print(l)
        for path, suffix in violations:
            print('VIOLATION property=%s replay=%s%s' % (prop, path, suffix))
        print('%s %s: %d evaluations, %d distinct non-trivial, %d compared with the model, %d theorems (%d discharged), %.1fs' % (
            prop, self.tier, self.evaluations, len(self.nontrivial), self.programs, self.obligations, self.discharged, wall))
        return 1 if violations else 0


def over_budget(resp):
    w = resp.split(' ', 1)[0]
    return w in ('fuel', 'resource')


def hash_str(s):
    h = 0
    for c in s:
        h = (h * 131 + ord(c)) & 0xFFFFFFFF
    return h
