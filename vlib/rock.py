"""Rockstar syntax trees for the checks: random generation of *expressible* trees (the
stratified grammar of DESIGN §6 C02), rendering with a free choice of alias / case / noise /
optional words (`Speller`), and the canonical s-expression of PROTOCOL.md with positions
erased (`dump_*`).  Pure Python, stdlib only.

Trees are nested tuples:
  name   : ('simple', w) | ('common', pre, w) | ('proper', [w..])
  ident  : name | ('pronoun', spelling)
  prim   : ('lit', L) | ('id', ident) | ('sub', prim, prim) | ('call', name, [expr..]) | ('popx', prim)
           L: 'mysterious' | 'null' | 'true' | 'false' | ('num', float) | ('str', text)
  expr   : prim | ('bin', op, lhs, [e..]) | ('un', 'minus'|'not', e)
  lhs    : ('lid', ident) | ('lsub', prim, prim)
  stmt   : see gen_stmt / dump_stmt
"""
import math
import struct

# ----------------------------------------------------------------------------- vocabulary

ALIASES = {
    'Mysterious': ['mysterious'],
    'Null': ['null', 'nothing', 'nowhere', 'nobody', 'gone'],
    'True': ['true', 'right', 'yes', 'ok'],
    'False': ['false', 'wrong', 'no', 'lies'],
    'Empty': ['empty', 'silent', 'silence'],
    'Pronoun': ['it', 'he', 'she', 'him', 'her', 'they', 'them', 'ze', 'hir', 'zie', 'zir',
                'xe', 'xem', 've', 'ver'],
    'Plus': ['plus', '+'], 'With': ['with'],
    'Minus': ['minus', 'without', '-'],
    'Multiply': ['times', 'of', '*'],
    'Divide': ['over', 'between', '/'],
    'Into': ['in', 'into'],
    'Is': ['is', 'are', 'was', 'were'],
    'Isnt': ['isnt', "isn't", 'aint', "ain't", 'arent', "aren't", 'wasnt', "wasn't", 'werent',
             "weren't"],
    'Says': ['says', 'said'],
    'Bigger': ['higher', 'greater', 'bigger', 'stronger'],
    'Smaller': ['lower', 'less', 'smaller', 'weaker'],
    'Big': ['high', 'great', 'big', 'strong'],
    'Small': ['low', 'little', 'small', 'weak'],
    'Say': ['say'], 'SayAlias': ['shout', 'whisper', 'scream'],
    'Cut': ['cut', 'split', 'shatter'],
    'Join': ['join', 'unite'],
    'Cast': ['cast', 'burn'],
    'Round': ['round', 'around'],
    'Takes': ['takes', 'wants'],
    'Return': ['return', 'give', 'send'],
    'Put': ['put'], 'Let': ['let'], 'Be': ['be'], 'And': ['and'], 'Or': ['or'], 'Nor': ['nor'],
    'Not': ['not'], 'As': ['as'], 'Than': ['than'], 'If': ['if'], 'Else': ['else'],
    'While': ['while'], 'Until': ['until'], 'Build': ['build'], 'Knock': ['knock'],
    'Up': ['up'], 'Down': ['down'], 'Listen': ['listen'], 'To': ['to'], 'Turn': ['turn'],
    'Continue': ['continue'], 'Break': ['break'], 'Take': ['take'], 'Top': ['top'],
    'Rock': ['rock'], 'Roll': ['roll'], 'At': ['at'], 'Like': ['like'], 'Taking': ['taking'],
    'Back': ['back'],
    'CommonVariablePrefix': ['a', 'an', 'the', 'my', 'your', 'our'],
    'Greater': ['>'], 'GreaterEq': ['>='], 'Less': ['<'], 'LessEq': ['<='],
    'Ampersand': ['&'], 'ApostropheNApostrophe': ["'n'"], 'Comma': [','], 'Dot': ['.'],
}
KEYWORDS = {w for ws in ALIASES.values() for w in ws if w[0].isalpha()}

NOUNS = ['x', 'y', 'z', 'foo', 'bar', 'baz', 'tommy', 'gina', 'heart', 'soul', 'fire', 'night',
         'dream', 'world', 'love', 'thunder', 'lightning', 'whiskey', 'rebel', 'angel', 'devil',
         'road', 'guitar', 'crowd', 'city', 'river', 'ocean', 'desire', 'union', 'counter',
         'limit', 'total', 'result', 'value', 'index', 'queue', 'stack', 'names', 'things',
         'été', 'señor', 'müller', 'straße', 'ångström', 'İstanbul', 'groẞ', '\u212aelvin', '\u212bngström', 'Ωmega']
NOUNS = [w for w in NOUNS if w not in KEYWORDS]

BINOPS = ['plus', 'minus', 'multiply', 'divide', 'and', 'or', 'nor', 'eq', 'noteq',
          'greater', 'greatereq', 'less', 'lesseq']


def f64_bits(x):
    if x != x:
        return '7ff8000000000000'
    return '%016x' % struct.unpack('<Q', struct.pack('<d', x))[0]


def hx(s):
    return 'x' + s.encode('utf-8').hex()


# ----------------------------------------------------------------------------- dump (positions erased)

def dump_name(n):
    if n[0] == 'simple':
        return '(simple %s)' % hx(n[1])
    if n[0] == 'common':
        return '(common %s %s)' % (hx(n[1]), hx(n[2]))
    return '(proper %s)' % ' '.join(hx(w) for w in n[1])


def dump_ident(i):
    return 'pronoun' if i[0] == 'pronoun' else dump_name(i)


def dump_lit(l):
    if isinstance(l, str):
        return l
    if l[0] == 'num':
        return '(num %s)' % f64_bits(l[1])
    return '(str %s)' % hx(l[1])


def dump_args(tag, es):
    return '(%s%s)' % (tag, ''.join(' ' + dump_expr(e) for e in es))


def dump_prim(p):
    t = p[0]
    if t == 'lit':
        return '(lit %s)' % dump_lit(p[1])
    if t == 'id':
        return '(id %s)' % dump_ident(p[1])
    if t == 'sub':
        return '(sub %s %s)' % (dump_prim(p[1]), dump_prim(p[2]))
    if t == 'call':
        return '(call %s %s)' % (dump_name(p[1]), dump_args('args', p[2]))
    if t == 'popx':
        return '(popx %s)' % dump_prim(p[1])
    raise ValueError(p)


def dump_expr(e):
    t = e[0]
    if t == 'bin':
        return '(bin %s %s %s)' % (e[1], dump_expr(e[2]), dump_args('list', e[3]))
    if t == 'un':
        return '(un %s %s)' % (e[1], dump_expr(e[2]))
    return dump_prim(e)


def dump_lhs(l):
    if l[0] == 'lid':
        return '(lid %s)' % dump_ident(l[1])
    return '(lsub %s %s)' % (dump_prim(l[1]), dump_prim(l[2]))


def poetic_value(elems):
    """compute_value of a poetic literal given elems [('w',s)|('s',s)|('dot',)] (repaired iterator)."""
    items = []
    cur = None
    for e in elems:
        if e[0] == 'dot':
            if cur is not None:
                items.append(cur); cur = None
            items.append('.')
        elif e[0] == 'w':
            if cur is not None:
                items.append(cur)
            cur = wlen(e[1])
        else:
            if cur is None:
                items.append(wlen(e[1]))
            else:
                cur += wlen(e[1])
    if cur is not None:
        items.append(cur)
    pos = 0
    for it in items:
        if it == '.':
            break
        pos += 1
    exponent = pos - 1
    acc = -0.0
    idx = 0
    for it in items:
        if it == '.':
            continue
        acc = acc + (0.0 if it % 10 == 0 else float(it % 10) * powi(10.0, exponent - idx))
        idx += 1
    return acc


def powi(a, n):
    """compiler-builtins __powidf2"""
    recip = n < 0
    n = abs(n)
    r = 1.0
    while True:
        if n & 1:
            r *= a
        n >>= 1
        if n == 0:
            break
        a *= a
    return 1.0 / r if recip else r


def wlen(s):
    return sum(1 for c in s if c != "'")


def dump_plit(elems):
    parts = []
    for e in elems:
        if e[0] == 'dot':
            parts.append('dot')
        else:
            parts.append('(%s %s)' % (e[0], hx(e[1])))
    return '(plit %s%s)' % (f64_bits(poetic_value(elems)), ''.join(' ' + p for p in parts))


def dump_block(stmts):
    if not stmts:
        return '(block)'
    return '(block %s)' % ' '.join(dump_stmt(s) for s in stmts)


def dump_opt(x, f):
    return '-' if x is None else f(x)


def dump_stmt(s):
    t = s[0]
    if t == 'assign':
        return '(assign %s %s %s)' % (dump_lhs(s[1]), s[2] or '-', dump_args('list', s[3]))
    if t == 'pnum':
        rhs = s[2]
        r = '(pexpr %s)' % dump_expr(rhs[1]) if rhs[0] == 'pexpr' else dump_plit(rhs[1])
        return '(pnum %s %s)' % (dump_lhs(s[1]), r)
    if t == 'pstr':
        return '(pstr %s %s)' % (dump_lhs(s[1]), hx(s[2]))
    if t == 'if':
        return '(if %s %s %s)' % (dump_expr(s[1]), dump_block(s[2]), dump_opt(s[3], dump_block))
    if t in ('while', 'until'):
        return '(%s %s %s)' % (t, dump_expr(s[1]), dump_block(s[2]))
    if t in ('inc', 'dec'):
        return '(%s %s %d)' % (t, dump_ident(s[1]), s[2])
    if t == 'input':
        return '(input%s)' % ('' if s[1] is None else ' ' + dump_lhs(s[1]))
    if t == 'output':
        return '(output %s)' % dump_expr(s[1])
    if t == 'mut':
        return '(mut %s %s %s %s)' % (s[1], dump_prim(s[2]), dump_opt(s[3], dump_lhs), dump_opt(s[4], dump_expr))
    if t == 'round':
        return '(round %s %s)' % (s[1], dump_expr(s[2]))
    if t in ('continue', 'break'):
        return '(%s)' % t
    if t == 'push':
        rhs = s[2]
        if rhs is None:
            r = '-'
        elif rhs[0] == 'list':
            r = dump_args('list', rhs[1])
        else:
            r = dump_plit(rhs[1])
        return '(push %s %s)' % (dump_prim(s[1]), r)
    if t == 'pop':
        return '(pop %s %s)' % (dump_prim(s[1]), dump_opt(s[2], dump_lhs))
    if t == 'return':
        return '(return %s)' % dump_expr(s[1])
    if t == 'func':
        ps = ''.join(' (%s)' % dump_name(p) for p in s[2])
        return '(func %s (params%s) %s)' % (dump_name(s[1]), ps, dump_block(s[3]))
    if t == 'callstmt':
        return '(callstmt %s %s)' % (dump_name(s[1]), dump_args('args', s[2]))
    raise ValueError(s)


def dump_program(blocks):
    return '(prog%s)' % ''.join(' ' + dump_block(b) for b in blocks if b)


import re
_POS = re.compile(r' @\d+:\d+(-\d+:\d+)?')


def erase_positions(sexpr):
    """erase `@L:C` / `@L:C-L:C`; an empty block keeps no location"""
    return _POS.sub('', sexpr)


# ----------------------------------------------------------------------------- generation

def left_edge(e):
    while e[0] == 'bin':
        e = e[2]
    return e


class Gen:
    """Random expressible trees. `rng` is a random.Random. Knobs bias what is generated."""

    def __init__(self, rng, names=None, max_depth=4, allow_calls=True, allow_pop=True,
                 allow_lists=True, funcs=None, unicode_names=True, keyword_nouns=True):
        self.rng = rng
        self.max_depth = max_depth
        self.allow_calls = allow_calls
        self.allow_pop = allow_pop
        self.allow_lists = allow_lists
        self.keyword_nouns = keyword_nouns
        nouns = NOUNS if unicode_names else [w for w in NOUNS if w.isascii()]
        self.nouns = nouns
        self.names = names or [self.fresh_name() for _ in range(5)]
        self.funcs = funcs if funcs is not None else [self.fresh_name() for _ in range(2)]

    # --- names
    def word(self):
        return self.rng.choice(self.nouns)

    def cap(self, w):
        return w[0].upper() + w[1:]

    def fresh_name(self):
        r = self.rng.random()
        if r < 0.45:
            w = self.word()
            if self.rng.random() < 0.3:
                w = self.cap(w)
            return ('simple', w)
        if r < 0.8:
            pre = self.rng.choice(ALIASES['CommonVariablePrefix'])
            if self.rng.random() < 0.2:
                pre = pre.capitalize()
            if self.keyword_nouns and self.rng.random() < 0.08:
                noun = self.rng.choice(['top', 'back', 'round', 'rock', 'silence', 'lies', 'right'])
            else:
                noun = self.word()
            return ('common', pre, noun)
        n = self.rng.randint(2, 3)
        return ('proper', [self.cap(self.word()) for _ in range(n)])

    def name(self):
        return self.rng.choice(self.names)

    def ident(self, pronoun_ok=True):
        if pronoun_ok and self.rng.random() < 0.12:
            return ('pronoun', self.rng.choice(ALIASES['Pronoun']))
        return self.name()

    # --- literals
    def number(self):
        r = self.rng.random()
        if r < 0.5:
            return float(self.rng.randint(0, 12))
        if r < 0.7:
            return float(self.rng.randint(0, 10 ** self.rng.randint(1, 17)))
        if r < 0.9:
            return round(self.rng.uniform(0, 100), self.rng.randint(1, 6))
        return self.rng.choice([0.1, 0.5, 1e21, 1e-7, 3.14159, 1e300, 5e-324, 0.30000000000000004,
                                123456789012345678.0, 9007199254740993.0])

    def string(self):
        r = self.rng.random()
        if r < 0.15:
            return ''
        alphabet = 'abc xyz,.!?-+*/<>&_\'()01239 éßΩ'
        n = self.rng.randint(1, 8)
        s = ''.join(self.rng.choice(alphabet) for _ in range(n))
        if self.rng.random() < 0.05:
            s += '\n' + self.rng.choice(['x', '', ' y'])
        return s

    def literal(self):
        r = self.rng.random()
        if r < 0.45:
            return ('lit', ('num', self.number()))
        if r < 0.7:
            return ('lit', ('str', self.string()))
        return ('lit', self.rng.choice(['mysterious', 'null', 'true', 'false']))

    # --- expressions. `open_ok`: the right edge may be a function call (its argument list
    # would swallow a following `,` `&` `'n'` `and` or `at`). `neg_ok`: may start with unary minus.
    def nonsub(self, d, open_ok):
        r = self.rng.random()
        if d <= 0:
            return ('id', self.ident()) if r < 0.6 else self.literal()
        if r < 0.42:
            return ('id', self.ident())
        if r < 0.75:
            return self.literal()
        if r < 0.9 and self.allow_calls and open_ok and self.funcs:
            return self.call(d - 1)
        if self.allow_pop and r >= 0.9:
            return ('popx', self.primary(d - 1, open_ok))
        return ('id', self.ident())

    def call(self, d):
        n = self.rng.randint(1, 3)
        args = []
        for i in range(n):
            args.append(self.unary(d, open_ok=(i == n - 1)))
        return ('call', self.rng.choice(self.funcs), args)

    def primary(self, d, open_ok):
        # array operand: identifier, literal or subscript chain (never a call or a pop);
        # indices: non-subscript primaries; only the LAST index may be open (call / pop)
        k = 0
        if d > 0 and self.rng.random() < 0.25:
            k = self.rng.randint(1, 2)
        if k == 0:
            return self.nonsub(d, open_ok)
        base = ('id', self.ident()) if self.rng.random() < 0.85 else self.literal()
        p = base
        for i in range(k):
            last = (i == k - 1)
            idx = self.index_operand(d - 1, open_ok and last)
            p = ('sub', p, idx)
        return p

    def index_operand(self, d, open_ok):
        r = self.rng.random()
        if r < 0.5:
            return self.literal()
        if r < 0.85 or not open_ok:
            return ('id', self.ident())
        if r < 0.93 and self.allow_calls and self.funcs:
            return self.call(d)
        if self.allow_pop:
            return ('popx', self.primary(d, open_ok))
        return ('id', self.ident())

    def unary(self, d, open_ok, neg_ok=True):
        r = self.rng.random()
        if d > 0 and r < 0.12:
            op = 'not' if (not neg_ok or self.rng.random() < 0.5) else 'minus'
            return ('un', op, self.unary(d - 1, open_ok))
        return self.primary(d, open_ok)

    def oplist(self, level, d, open_ok, in_list):
        """right operand list of an operator whose operands live at `level`"""
        first_single = True
        n = 1
        if self.allow_lists and not in_list and self.rng.random() < 0.2:
            n = self.rng.randint(2, 3)
        elems = []
        for i in range(n):
            last = (i == n - 1)
            ok = open_ok and last
            if n > 1 and i == 0:
                # a first element followed by a comma must not contain a binary operator at
                # its top (its own list would take the comma): stay at the unary level
                elems.append(self.unary(d, ok))
            elif n > 1:
                elems.append(level(d, ok, True))
            else:
                elems.append(level(d, ok, in_list))
        return elems

    def chain(self, ops, sub, d, open_ok, in_list, neg_ok, p=0.3):
        """lhs (op list)* at one ladder level; `sub` generates operands one level down"""
        e = sub(d, open_ok=False if False else open_ok, in_list=in_list, neg_ok=neg_ok) \
            if False else None
        # decide the number of operators first so that we know which operand is the right edge
        k = 0
        while d > 0 and k < 2 and self.rng.random() < p:
            k += 1
        e = sub(d - (1 if k else 0), (open_ok if k == 0 else True), in_list, neg_ok)
        for i in range(k):
            last = (i == k - 1)
            op = self.rng.choice(ops)
            # the lhs of `and` must not be open (the call would take `and x` as an argument)
            rhs = self.oplist(lambda dd, ok, il: sub(dd, ok, il, True), d - 1, open_ok if last else True, in_list)
            e = ('bin', op, e, rhs)
        return e

    def factor(self, d, open_ok=True, in_list=False, neg_ok=True):
        return self.chain(['multiply', 'divide'],
                          lambda dd, ok, il, ng: self.unary(dd, ok, ng), d, open_ok, in_list, neg_ok)

    def term(self, d, open_ok=True, in_list=False, neg_ok=True):
        return self.chain(['plus', 'minus'], self.factor, d, open_ok, in_list, neg_ok)

    def comparison(self, d, open_ok=True, in_list=False, neg_ok=True):
        r = self.rng.random()
        if d <= 0 or r < 0.6:
            return self.term(d, open_ok, in_list, neg_ok)
        if r < 0.8:
            # is-chain: each right operand is a single term
            k = self.rng.randint(1, 2)
            e = self.term(d - 1, True, in_list, neg_ok)
            for i in range(k):
                last = (i == k - 1)
                op = self.rng.choice(['eq', 'noteq', 'greater', 'greatereq', 'less', 'lesseq'])
                # a term operand inside a list element may not hold a list (parsing_list)
                rhs = self.term(d - 1, open_ok if last else True, in_list, True)
                # `x is not y` is NotEq: an Eq operand cannot start with `not`
                while op == 'eq' and left_edge(rhs)[0] == 'un' and left_edge(rhs)[1] == 'not':
                    rhs = self.term(d - 1, open_ok if last else True, in_list, True)
                e = ('bin', op, e, [rhs], 'is')
            return e
        return self.chain(['greater', 'greatereq', 'less', 'lesseq', 'noteq'], self.term, d,
                          open_ok, in_list, neg_ok, p=0.9)

    def logical(self, d, open_ok=True, in_list=False, neg_ok=True):
        k = 0
        while d > 0 and k < 2 and self.rng.random() < 0.25:
            k += 1
        ops = [self.rng.choice(['and', 'or', 'nor']) for _ in range(k)]
        # the operand before `and` must not be open
        e = self.comparison(d - (1 if k else 0), open_ok if k == 0 else (ops[0] != 'and'), in_list, neg_ok)
        for i, op in enumerate(ops):
            last = (i == k - 1)
            nxt_and = (not last and ops[i + 1] == 'and')
            ok_edge = (open_ok if last else not nxt_and)
            n = 1
            if self.allow_lists and not in_list and self.rng.random() < 0.15:
                n = 2
            elems = []
            for j in range(n):
                lastj = (j == n - 1)
                ok = ok_edge and lastj
                if n > 1 and j == 0:
                    elems.append(self.unary(d - 1, ok))
                else:
                    elems.append(self.comparison(d - 1, ok, in_list or n > 1, True))
            e = ('bin', op, e, elems)
        return e

    def expr(self, d=None, open_ok=True, in_list=False, neg_ok=True):
        return self.logical(self.max_depth if d is None else d, open_ok, in_list, neg_ok)

    def toplist(self, d, neg_ok=True):
        """`parse_toplevel_expression_list`"""
        n = 1
        if self.allow_lists and self.rng.random() < 0.25:
            n = self.rng.randint(2, 3)
        out = []
        for i in range(n):
            last = (i == n - 1)
            if n > 1 and i == 0:
                out.append(self.unary(d, False, neg_ok))
            elif n > 1:
                out.append(self.expr(d, last, True, True))
            else:
                out.append(self.expr(d, True, False, neg_ok))
        return out

    # --- statements
    def lhs(self, d=1):
        if self.rng.random() < 0.75:
            return ('lid', self.ident())
        k = self.rng.randint(1, 2)
        p = ('id', self.ident())
        for i in range(k - 1):
            p = ('sub', p, self.index_operand(d, False))
        # an assignment target may be followed by `be`, `is`, `into`…, never by `,`/`and`/`at`
        return ('lsub', p, self.index_operand(d, True))

    def poetic_words(self):
        """elements of a poetic literal, as words to be spelled literally"""
        rng = self.rng
        n = rng.randint(1, 6)
        elems = []
        first = True
        for i in range(n):
            r = rng.random()
            L = rng.choice([1, 2, 3, 4, 5, 6, 7, 8, 9, 10, 11, 12, 20])
            w = ''.join(rng.choice('abcdefghijklmnopqrstuvwxyz') for _ in range(L))
            if w in KEYWORDS and first:
                w = 'q' + w[1:] if len(w) > 1 else 'q'
            # the first word must not be a literal word (null, true, 5…): the rhs would be an expression
            if first and w in KEYWORDS:
                w = w + 'q'
            elems.append(('w', w))
            first = False
            if r < 0.1:
                elems.append(('s', rng.choice(["'s", "'re"])))
            elif r < 0.17 and i < n - 1:
                elems.append(('dot',))
            elif r < 0.22:
                w2 = ''.join(rng.choice('abcdefgh') for _ in range(rng.randint(1, 4)))
                elems.append(('s', '-' + w2))
        return elems

    def simple_stmt(self, d, in_loop=False, in_func=False):
        rng = self.rng
        r = rng.random()
        if r < 0.14:
            return ('assign', self.lhs(), None, [self.expr(d)], 'put')
        if r < 0.24:
            op = rng.choice([None, None, 'plus', 'minus', 'multiply', 'divide'])
            vals = self.toplist(d, neg_ok=False)
            return ('assign', self.lhs(), op, vals, 'let')
        if r < 0.32:
            return ('pnum', self.lhs(), ('plit', self.poetic_words()))
        if r < 0.38:
            e = self.rng.choice([self.literal(), ('un', 'minus', ('lit', ('num', self.number())))])
            # `X is <literal word | -number> …`: an ordinary expression continues from there
            return ('pnum', self.lhs(), ('pexpr', e))
        if r < 0.44:
            text = ''.join(rng.choice('abc XYZ,.!?\'"()- 09é') for _ in range(rng.randint(0, 10)))
            # quotes / parens opened in the text must be closed on the same line (C11 quantifier)
            if text.count('"') % 2 or '(' in text or ')' in text:
                text = text.replace('"', '').replace('(', '').replace(')', '')
            return ('pstr', self.lhs(), text)
        if r < 0.52:
            return ('output', self.expr(d))
        if r < 0.56:
            return ('input', self.lhs() if rng.random() < 0.7 else None)
        if r < 0.62:
            return (rng.choice(['inc', 'dec']), self.ident(), rng.randint(1, 3))
        if r < 0.68:
            op = rng.choice(['cut', 'join', 'cast'])
            dest = self.lhs() if rng.random() < 0.5 else None
            operand = self.primary(1, True) if dest is not None else ('id', self.ident())
            param = self.expr(d) if rng.random() < 0.5 else None
            return ('mut', op, operand, dest, param)
        if r < 0.73:
            return ('round', rng.choice(['up', 'down', 'nearest']), self.expr(min(d, 2)), rng.random() < 0.5)
        if r < 0.80:
            rr = rng.random()
            if rr < 0.3:
                rhs = None
            elif rr < 0.8:
                rhs = ('list', self.toplist(d))
            else:
                rhs = ('plit', self.poetic_words())
            return ('push', self.primary(1, True), rhs)
        if r < 0.85:
            return ('pop', self.primary(1, True), self.lhs() if rng.random() < 0.5 else None)
        if r < 0.90 and self.funcs and self.allow_calls:
            c = self.call(d)
            return ('callstmt', c[1], c[2])
        if r < 0.94 and in_loop:
            return (rng.choice(['break', 'continue']), rng.random() < 0.5)
        if r < 0.97 and in_func:
            return ('return', self.expr(d), rng.random() < 0.3, rng.random() < 0.3)
        return ('output', self.expr(d))

    def block(self, depth, n=None, in_loop=False, in_func=False, func_body=False):
        rng = self.rng
        n = rng.randint(0 if depth > 0 else 1, 3) if n is None else n
        out = []
        for i in range(n):
            s = self.stmt(depth, in_loop, in_func)
            out.append(s)
        if func_body:
            # inside a function body an if-with-else ends the function: only allowed last
            for i, s in enumerate(out[:-1]):
                if s[0] == 'if' and s[3] is not None:
                    out[i] = ('if', s[1], s[2], None)
        return out

    def stmt(self, depth, in_loop=False, in_func=False):
        rng = self.rng
        r = rng.random()
        d = min(self.max_depth, 3)
        if depth > 0 and r < 0.12:
            els = self.block(depth - 1, None, in_loop, in_func) if rng.random() < 0.5 else None
            return ('if', self.expr(d), self.block(depth - 1, None, in_loop, in_func), els)
        if depth > 0 and r < 0.2:
            return (rng.choice(['while', 'until']), self.expr(d), self.block(depth - 1, None, True, in_func))
        if depth > 0 and r < 0.26 and self.funcs:
            k = rng.randint(1, 3)
            params = [self.fresh_name() for _ in range(k)]
            return ('func', rng.choice(self.funcs), params,
                    self.block(depth - 1, None, False, True, func_body=True))
        return self.simple_stmt(d, in_loop, in_func)

    def program(self, nblocks=None, depth=2):
        nb = self.rng.randint(1, 3) if nblocks is None else nblocks
        return [self.block(depth, self.rng.randint(1, 4)) for _ in range(nb)]


# ----------------------------------------------------------------------------- rendering

def long_prefix_family(rng):
    """distinct names that agree on a LONG prefix (N bytes, N around powers of two) and differ only at the end: two simple
    names, two common names, two proper names of many words differing in the last word"""
    n = rng.choice([8, 15, 16, 17, 31, 32, 33, 62, 63, 64, 65, 70, 127, 128, 129, 255, 256, 257])
    stem = ''.join(rng.choice('bcdfgjklmpqvwxz') for _ in range(n))
    words = max(2, n // 5)
    pw = [''.join(rng.choice('bcdfgjklmpqvwxz') for _ in range(4)).capitalize() for _ in range(words)]
    return [('simple', stem + 'b'), ('simple', stem + 'c'), ('common', 'the', stem + 'b'), ('common', 'the', stem + 'c'),
            ('proper', pw + ['Zab']), ('proper', pw + ['Zac'])]


class Speller:
    """Renders a tree as source text, choosing aliases, case, gaps, optional words."""

    def __init__(self, rng, noise=0.15, comments=0.05, recase=0.2, aliases=True,
                 optional=True, symbols=True, eol_punct=0.15, multiline_comments=False):
        self.multiline_comments = multiline_comments
        self.rng = rng
        self.noise = noise
        self.comments = comments
        self.recase = recase
        self.aliases = aliases
        self.optional = optional
        self.symbols = symbols
        self.eol_punct = eol_punct

    # tokens are strings; WORD tokens need a separator when adjacent
    def kw(self, kind, only_words=False):
        forms = ALIASES[kind]
        if only_words or not self.symbols:
            forms = [f for f in forms if f[0].isalpha()] or forms
        w = self.rng.choice(forms) if self.aliases else forms[0]
        return self.case(w)

    def case(self, w):
        if not w[0].isalpha() or self.rng.random() >= self.recase:
            return w
        if 'k' in w and self.rng.random() < 0.25:
            # U+212A KELVIN SIGN lower-cases to the ASCII letter k: a keyword spelled with it is that keyword
            w = w.replace('k', '\u212a', 1)
        r = self.rng.random()
        if r < 0.4:
            return w.upper()
        if r < 0.7:
            return w.capitalize()
        return ''.join(c.upper() if self.rng.random() < 0.5 else c for c in w)

    def name(self, n):
        if n[0] == 'simple':
            return [n[1]]
        if n[0] == 'common':
            return [n[1], n[2]]
        return list(n[1])

    def ident(self, i):
        if i[0] == 'pronoun':
            return [self.case(i[1])]
        return self.name(i)

    def number(self, x):
        rng = self.rng
        if x == int(x) and abs(x) < 1e15:
            forms = [str(int(x)), '%d.0' % int(x), '0%d' % int(x), '%d.' % int(x)]
            if rng.random() < 0.7:
                return forms[0]
            return rng.choice(forms)
        r = repr(x)
        if 'e' in r or 'E' in r:
            # exponent forms with a sign cannot be lexed as one token: print positionally
            if 'e+' in r:
                return '%d' % int(x)
            return ('%.340f' % x).rstrip('0')
        return r

    def lit(self, l):
        if isinstance(l, str):
            return [self.kw({'mysterious': 'Mysterious', 'null': 'Null', 'true': 'True', 'false': 'False'}[l])]
        if l[0] == 'num':
            return [self.number(l[1])]
        if l[1] == '' and self.aliases and self.rng.random() < 0.6:
            return [self.kw('Empty')]
        return ['"%s"' % l[1]]

    def args(self, es):
        out = []
        for i, e in enumerate(es):
            if i:
                r = self.rng.random()
                if not self.optional:
                    out.append(',')
                elif r < 0.3:
                    out.append(',')
                elif r < 0.5:
                    out += [',', self.kw('And')]
                elif r < 0.7:
                    out.append('&')
                elif r < 0.85:
                    out.append("'n'" if self.rng.random() < 0.7 else "'N'")
                else:
                    out.append(self.kw('And'))
            out += self.expr(e)
        return out

    def prim(self, p):
        t = p[0]
        if t == 'lit':
            return self.lit(p[1])
        if t == 'id':
            return self.ident(p[1])
        if t == 'sub':
            return self.prim(p[1]) + [self.kw('At')] + self.prim(p[2])
        if t == 'call':
            return self.name(p[1]) + [self.kw('Taking')] + self.args(p[2])
        if t == 'popx':
            return [self.kw('Roll')] + self.prim(p[1])
        raise ValueError(p)

    def oplist(self, es):
        out = []
        for i, e in enumerate(es):
            if i:
                out.append(',')
                if self.optional and self.rng.random() < 0.3:
                    out.append(self.kw('And'))
            out += self.expr(e)
        return out

    OPKW = {'plus': ['Plus', 'With'], 'minus': ['Minus'], 'multiply': ['Multiply'],
            'divide': ['Divide'], 'and': ['And'], 'or': ['Or'], 'nor': ['Nor'],
            'greater': ['Greater'], 'greatereq': ['GreaterEq'], 'less': ['Less'],
            'lesseq': ['LessEq'], 'noteq': ['Isnt']}

    def expr(self, e):
        t = e[0]
        if t == 'un':
            if e[1] == 'not':
                return [self.kw('Not')] + self.expr(e[2])
            return [self.kw('Minus')] + self.expr(e[2])
        if t == 'bin':
            op = e[1]
            lhs = self.expr(e[2])
            if len(e) > 4 and e[4] == 'is':
                isw = self.is_word_(lhs)
                if op == 'eq':
                    mid = []
                elif op == 'noteq':
                    mid = [self.kw('Not')]
                elif op == 'greater':
                    mid = [self.kw('Bigger'), self.kw('Than')]
                elif op == 'less':
                    mid = [self.kw('Smaller'), self.kw('Than')]
                elif op == 'greatereq':
                    mid = [self.kw('As'), self.kw('Big'), self.kw('As')]
                else:
                    mid = [self.kw('As'), self.kw('Small'), self.kw('As')]
                return lhs + isw + mid + self.expr(e[3][0])
            kind = self.rng.choice(self.OPKW[op]) if self.aliases else self.OPKW[op][0]
            return lhs + [self.kw(kind)] + self.oplist(e[3])
        return self.prim(e)

    def lhs(self, l):
        if l[0] == 'lid':
            return self.ident(l[1])
        return self.prim(l[1]) + [self.kw('At')] + self.prim(l[2])

    def poetic(self, elems):
        """literal text of a poetic number literal (no noise, no recasing of its words)"""
        out = ''
        for i, e in enumerate(elems):
            if e[0] == 'w':
                out += (' ' if out else '') + e[1]
            elif e[0] == 's':
                out += e[1]
            else:
                out += '.' if self.rng.random() < 0.5 else ' .'
            if e[0] == 'w' and self.rng.random() < 0.1 and not (i + 1 < len(elems) and elems[i + 1][0] == 's'):
                out += ','
        return out

    def stmt_tokens(self, s):
        """(tokens, raw_tail): tokens are joined with gaps; raw_tail is appended verbatim"""
        t = s[0]
        rng = self.rng
        if t == 'assign':
            if s[4] == 'put':
                return [self.kw('Put')] + self.expr(s[3][0]) + [self.kw('Into')] + self.lhs(s[1]), None
            op = []
            if s[2]:
                op = [self.kw({'plus': rng.choice(['Plus', 'With']), 'minus': 'Minus',
                               'multiply': 'Multiply', 'divide': 'Divide'}[s[2]])]
            return [self.kw('Let')] + self.lhs(s[1]) + [self.kw('Be')] + op + self.oplist(s[3]), None
        if t == 'pnum':
            lhs = self.lhs(s[1])          # spelled ONCE: the form of `is` depends on the last token as spelled
            isw = self.is_word_(lhs)
            if s[2][0] == 'pexpr':
                e = s[2][1]
                if e[0] == 'un':
                    # `-` must be spelled "-" and directly precede a number token
                    return lhs + isw + ['-'] + self.expr(e[2]), None
                return lhs + isw + self.expr(e), None
            return lhs + isw, ' ' + self.poetic(s[2][1])
        if t == 'pstr':
            return self.lhs(s[1]) + [self.kw('Says')], ' ' + s[2]
        if t == 'output':
            return [self.kw(rng.choice(['Say', 'SayAlias']))] + self.expr(s[1]), None
        if t == 'input':
            if s[1] is None:
                return [self.kw('Listen')], None
            return [self.kw('Listen'), self.kw('To')] + self.lhs(s[1]), None
        if t in ('inc', 'dec'):
            k1, k2 = ('Build', 'Up') if t == 'inc' else ('Knock', 'Down')
            toks = [self.kw(k1)] + self.ident(s[1]) + [self.kw(k2)]
            for _ in range(s[2] - 1):
                if self.optional and rng.random() < 0.5:
                    toks.append(',')
                toks.append(self.kw(k2))
            return toks, None
        if t == 'mut':
            toks = [self.kw({'cut': 'Cut', 'join': 'Join', 'cast': 'Cast'}[s[1]])] + self.prim(s[2])
            if s[3] is not None:
                toks += [self.kw('Into')] + self.lhs(s[3])
            if s[4] is not None:
                toks += [self.kw('With')] + self.expr(s[4])
            return toks, None
        if t == 'round':
            d = [self.kw({'up': 'Up', 'down': 'Down', 'nearest': 'Round'}[s[1]])]
            e = self.expr(s[2])
            before = s[3] if len(s) > 3 else True
            return ([self.kw('Turn')] + (d + e if before else e + d)), None
        if t == 'break':
            if len(s) > 1 and s[1] and self.optional:
                return [self.kw('Break'), self.case('it'), self.kw('Down')], None
            return [self.kw('Break')], None
        if t == 'continue':
            if len(s) > 1 and s[1] and self.optional:
                return [self.kw('Take'), self.case('it'), self.kw('To'), self.case('the'), self.kw('Top')], None
            return [self.kw('Continue')], None
        if t == 'push':
            toks = [self.kw('Rock')] + self.prim(s[1])
            if s[2] is None:
                return toks, None
            if s[2][0] == 'list':
                return toks + [self.kw('With')] + self.oplist(s[2][1]), None
            return toks + [self.kw('Like')], ' ' + self.poetic(s[2][1])
        if t == 'pop':
            toks = [self.kw('Roll')] + self.prim(s[1])
            if s[2] is not None:
                toks += [self.kw('Into')] + self.lhs(s[2])
            return toks, None
        if t == 'return':
            lead = len(s) > 2 and s[2] and self.optional
            trail = len(s) > 3 and s[3] and self.optional
            if lead:
                toks = [self.case('give'), self.kw('Back')]
            else:
                toks = [self.kw('Return')]
            toks += self.expr(s[1])
            if trail:
                toks.append(self.kw('Back'))
            return toks, None
        if t == 'callstmt':
            return self.name(s[1]) + [self.kw('Taking')] + self.args(s[2]), None
        raise ValueError(s)

    def is_word_(self, toks):
        """`is` after the given tokens: a keyword alias, or — when the preceding token is a word — the
        apostrophe forms 's / 're (in any letter case)"""
        last = toks[-1]
        if self.aliases and self.rng.random() < 0.25:
            if last[-1].isalpha():
                return [self.rng.choice(["'s", "'re", "'S", "'RE", "'Re", "'s", "'re"])]
            if last[-1].isdigit() or last[-1] == '"':
                return [self.rng.choice(["'s", "'re", "'S", "'RE", "'Re"])]      # (any case since the repair D18)
        return [self.kw('Is')]

    def gap(self, a, b):
        """separator between tokens a and b"""
        rng = self.rng
        if b in ("'s", "'re", "'S", "'RE", "'Re"):
            return ''
        need = (a[-1].isalnum() or a[-1] in '\'"_' or ord(a[-1]) > 127) and \
               (b[0].isalnum() or b[0] in '\'"_' or ord(b[0]) > 127)
        # `<` `>` followed by `=` would fuse; symbols may abut words
        if a in ('<', '>') and b.startswith('='):
            need = True
        # a number followed by '.'-starting token etc.
        if a[-1].isdigit() and b[0] == '.':
            need = True
        if a[0].isdigit() and a[-1] == '.' and (b[0].isalnum() or b[0] == '.'):
            need = True
        if a == '.' and b[0].isdigit():
            need = True
        if a == '-' and rng.random() < 0.5 and not need:
            pass
        g = ''
        if need or rng.random() < 0.8:
            g = ' '
        if rng.random() < self.noise:
            g += rng.choice([' ', '\t', '  ', ' ; ', ' ! ', ' ? ', ':', '\r', '\u00a0', '\u3000', '\x0b', '\x0c', '\u2003', '\u2028'])
            if not g.strip(' \t\r') and need and not g:
                g = ' '
        if rng.random() < self.comments:
            pool = ['note', 'la la', 'x, y & z', 'it\'s 5', '']
            if self.multiline_comments:
                pool += ['two\nlines', '\nheader\n', 'a\n\nb\n', '\n']
            g += '(%s)' % rng.choice(pool) + ' '
        if need and not g:
            g = ' '
        # never let an apostrophe form attach: "'n'" needs to start a token
        return g

    def join(self, toks):
        out = toks[0]
        for a, b in zip(toks, toks[1:]):
            out += self.gap(a, b) + b
        return out

    def stmt_line(self, s):
        toks, tail = self.stmt_tokens(s)
        text = self.join(toks)
        if tail is not None:
            return text + tail
        if self.rng.random() < self.eol_punct and not text[-1].isdigit() and text[-1] not in '.,-+*/<>&':
            # a trailing comma would continue an expression list / argument list; it is only
            # safe after statements that do not end in an expression
            if s[0] in ('break', 'continue', 'inc', 'dec') or (s[0] == 'input' and s[1] is None):
                text += self.rng.choice([',', '.', ' ,', ' .'])
            else:
                text += self.rng.choice(['.', ' .'])
        return text

    def header(self, toks):
        text = self.join(toks)
        if self.rng.random() < self.eol_punct and not text[-1].isdigit() and text[-1] not in '.,-+*/<>&':
            text += '.'
        return text

    def stmt_text(self, s, last_in_func=False):
        """text of a statement WITHOUT its terminating newline"""
        t = s[0]
        if t == 'if':
            out = self.header([self.kw('If')] + self.expr(s[1])) + '\n' + self.block_text(s[2])
            if s[3] is not None:
                out += self.kw('Else') + '\n' + self.block_text(s[3])
            return out
        if t in ('while', 'until'):
            return self.header([self.kw('While' if t == 'while' else 'Until')] + self.expr(s[1])) + '\n' + self.block_text(s[2])
        if t == 'func':
            ps = []
            for i, p in enumerate(s[2]):
                if i:
                    r = self.rng.random()
                    if not self.optional or r < 0.3:
                        ps.append(',')
                    elif r < 0.5:
                        ps += [',', self.kw('And')]
                    elif r < 0.7:
                        ps.append('&')
                    elif r < 0.85:
                        ps.append("'n'")
                    else:
                        ps.append(self.kw('And'))
                ps += self.name(p)
            out = self.header(self.name(s[1]) + [self.kw('Takes')] + ps) + '\n'
            body = s[3]
            if not body:
                return out + '\n'
            for i, b in enumerate(body):
                last = (i == len(body) - 1)
                if last and b[0] == 'if' and b[3] is not None:
                    out += self.stmt_text(b)          # ends the function: no newline of its own
                else:
                    out += self.stmt_text(b) + '\n'
            return out
        return self.stmt_line(s)

    def block_text(self, stmts):
        """inner block: each statement followed by a newline; an empty block is one blank line"""
        if not stmts:
            return '\n'
        return ''.join(self.stmt_text(s) + '\n' for s in stmts)

    def program(self, blocks):
        out = ''
        for b in blocks:
            out += ''.join(self.stmt_text(s) + '\n' for s in b) + '\n'
            while self.rng.random() < 0.1:
                out += '\n'
        return out
