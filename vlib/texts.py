"""Raw source-text generators for the front-end checks (C01, C12, C13): token soup over the
full vocabulary, and token-level mutations of valid programs."""
from . import rock

WHITE_SPACE = set([9, 10, 11, 12, 13, 32, 0x85, 0xA0, 0x1680, 0x2028, 0x2029, 0x202F, 0x205F, 0x3000]) | set(range(0x2000, 0x200B))

PUNCT = list('.,&+-*/<>=!?;:#$%@[]^`{|}~\\')
IDENTS = ['x', 'Tommy', 'my', 'heart', 'Doctor', 'Feelgood', 'été', 'Ωmega', 'straße', 'İstanbul', 'x1', 'a_b',
          '_', '_x', 'it', "it's", "we're", "rock'n'roll", "'n'", "ain't", "Tommy's", "THEY'RE", "x''", "'", "''s",
          'ǅ', 'ß', 'ſ', 'K', 'ﬁ', '𝔘', '中文', 'é']
IDENTS += ["İstanbul's", "GROẞ's", "\u212aelvin're", 'é' * 40, 'x' * 100, 'é' * 35 + "'s", 'a' + 'é' * 36,
           'ab' + 'Ω' * 31 + '1', '_' + 'é' * 40]
NUMBERS = ['0', '1', '5', '10', '3.14', '.5', '5.', '1e5', '1E5', '1e', '1.2.3', '5x', '٣', '½', '007', '1e400',
           '0x10', '9007199254740993', '1_0', '..', '.', '5.s', "5's", "5're", '12ab']
STRINGS = ['"hello"', '""', '"a\nb"', '"unterminated', '"x"\'s', '"x"\'re', '"é"', '"(no comment)"', '"a\n\nb"\'s']
STRINGS += ['"' + 'é' * 40 + '"', '"' + 'a' + 'Ω' * 40, '"' + 'x' * 300 + '"']
COMMENTS = ['(c)', '()', '(a\nb)', '(unterminated', "(c)'s", "(c)'re", '(nested (x)', '("q")', "(a\nb)'s"]
WS = [' ', ' ', ' ', '  ', '\t', '\r', '\r\n', '\n', '\n', '\n\n', ' ', ' ', '　', '\u0085', '\x0b', '\x0c']


# characters that are neither letters, blanks nor ASCII punctuation: byte order mark, zero-width and format
# characters, line/paragraph separators, controls, a combining mark, a non-character
ODD = ['\ufeff', '\u200b', '\u00ad', '\u2028', '\u2029', '\x00', '\x7f', '\u200d', '\u0301', '\u2060', '\ufffe', '\U000e0001']


def soup(rng, n=None):
    t = soup_(rng, n)
    r = rng.random()
    if r < 0.04:
        t = rng.choice(ODD) + t
    elif r < 0.06:
        t = rng.choice(WS + PUNCT) + t
    return t


def soup_(rng, n=None):
    """any mix of keywords, identifiers, digits, punctuation, apostrophes, quotes, parentheses,
    newlines, non-ASCII letters"""
    n = rng.randint(1, 25) if n is None else n
    kws = sorted(rock.KEYWORDS)
    parts = []
    for _ in range(n):
        r = rng.random()
        if r < 0.35:
            w = rng.choice(kws)
            c = rng.random()
            if c < 0.2:
                w = w.upper()
            elif c < 0.4:
                w = w.capitalize()
            elif c < 0.5:
                w = ''.join(ch.upper() if rng.random() < 0.5 else ch for ch in w)
            if rng.random() < 0.08:
                w += rng.choice(["'s", "'re", "'S", "'RE", "'", "'d"])
            parts.append(w)
        elif r < 0.55:
            parts.append(rng.choice(IDENTS))
        elif r < 0.68:
            parts.append(rng.choice(NUMBERS))
        elif r < 0.75:
            parts.append(rng.choice(STRINGS))
        elif r < 0.82:
            parts.append(rng.choice(COMMENTS))
        elif r < 0.90:
            parts.append(rng.choice(PUNCT) + (rng.choice(PUNCT) if rng.random() < 0.3 else ''))
        elif r < 0.92:
            parts.append(rng.choice(ODD))
        else:
            parts.append(rng.choice(['\n', '\n', 'else', 'Else\n', '\nelse\n']))
        if rng.random() < 0.85:
            parts.append(rng.choice(WS))
    return ''.join(parts)


def valid_program(rng, depth=None, max_depth=None):
    g = rock.Gen(rng, max_depth=rng.randint(1, 3) if max_depth is None else max_depth)
    prog = g.program(depth=rng.randint(0, 2) if depth is None else depth)
    sp = rock.Speller(rng)
    return prog, sp.program(prog)


def split_tokens(text):
    """rough token split for mutations (words, numbers, single symbols, whitespace runs)"""
    import re
    return re.findall(r'\s+|[^\W_]+(?:\'[^\W_]+)*|"[^"]*"?|\([^)]*\)?|.', text, re.S)


def mutate(rng, text):
    toks = split_tokens(text)
    if not toks:
        return text
    k = rng.randint(1, 3)
    for _ in range(k):
        if not toks:
            break
        i = rng.randrange(len(toks))
        r = rng.random()
        if r < 0.25:
            del toks[i]
        elif r < 0.45:
            toks.insert(i, toks[i])
        elif r < 0.6 and len(toks) > 1:
            j = rng.randrange(len(toks))
            toks[i], toks[j] = toks[j], toks[i]
        elif r < 0.85:
            toks.insert(i, rng.choice(sorted(rock.KEYWORDS) + PUNCT + ['\n', 'else', '"', '(', "'s", '_', '5x']) + ' ')
        else:
            cut = rng.randrange(len(text) + 1)
            return text[:cut]
    return ''.join(toks)


def small_scope_vocabulary():
    """one spelling of every token kind the parser distinguishes (first alias of each keyword kind, names of each
    kind, literals, apostrophe suffixes, the hyphen, an error token, a comment, ignorable punctuation, the line break)"""
    V = [forms[0] for kind, forms in sorted(rock.ALIASES.items())]
    V += ['x', 'Tommy', 'Doctor', 'my', '5', '0', '"s"', "'s", "'re", '-', '_', '(c)', '?', '\n', 'true', 'give', 'lies', 'ten']
    out = []
    for w in V:
        if w not in out:
            out.append(w)
    return out


def small_scope_join(words, final_newline):
    t = ''
    for w in words:
        if w in ("'s", "'re") or w == '\n' or not t or t.endswith('\n'):
            t += w
        else:
            t += ' ' + w
    return t + ('\n' if final_newline else '')


def small_scope_texts(rng, exhaustive_len, sample_n, sample_len):
    """ALL token sequences up to `exhaustive_len` over the small-scope vocabulary, each with and without a final newline,
    plus `sample_n` random sequences of `sample_len` tokens (small-scope hypothesis: a fault in how the parser consumes
    tokens shows on some short sequence; round 2's `rock x like<EOF>` is one of length 3)"""
    import itertools
    V = small_scope_vocabulary()
    out = []
    for L in range(1, exhaustive_len + 1):
        for ws in itertools.product(V, repeat=L):
            if ws[-1] == '\n':
                out.append(small_scope_join(ws, False))
            else:
                out.append(small_scope_join(ws, False))
                out.append(small_scope_join(ws, True))
    lo, hi = sample_len
    for _ in range(sample_n):
        ws = [rng.choice(V) for _ in range(rng.randint(lo, hi))]
        out.append(small_scope_join(ws, rng.random() < 0.5))
    return out


SWEEP = [7, 8, 9, 10, 11, 15, 16, 17, 31, 32, 33, 63, 64, 65, 127, 128, 129, 255, 256, 257, 300, 1000, 1001, 1023, 1024, 1025]
SWEEP_QUICK = [8, 9, 10, 16, 17, 32, 33, 64, 65, 128, 255, 256, 257, 1000, 1001, 1025]
# letters whose lower- or upper-case form has another UTF-8 length, ligatures, titlecase, signs that fold to ASCII
ODD_LETTERS = ['İ', 'Ⱥ', 'Ⱦ', 'ẞ', 'ß', '\u212a', '\u212b', '\u2126', 'ǅ', 'ﬁ', 'ſ', 'ı', 'é', 'Ω', '𝔘', 'ŉ']


def category_chars():
    """three characters of EVERY Unicode general category (the first, a middle and the last one below U+3100, plus one astral
    where there is one): letters of every kind, marks, decimal / LETTER / other numbers, every punctuation and symbol class,
    separators, controls, format characters, private use, unassigned"""
    import unicodedata
    by = {}
    for cp in list(range(0x20, 0x3100)) + list(range(0x10000, 0x10200)) + list(range(0x1D400, 0x1D800)) + [0xE000, 0xF8FF, 0xFFFE, 0x10FFFF, 0xE0001]:
        if 0xD800 <= cp <= 0xDFFF:
            continue
        by.setdefault(unicodedata.category(chr(cp)), []).append(chr(cp))
    out = []
    for cat in sorted(by):
        cs = by[cat]
        for c in (cs[0], cs[len(cs) // 2], cs[-1]):
            if c not in out:
                out.append(c)
    return out


CATEGORY_CHARS = category_chars()


def category_tokens():
    """each category character alone, leading, inside and ending a word, after a digit, doubled"""
    out = []
    for c in CATEGORY_CHARS:
        out += [c, c + 'x', 'x' + c + 'y', 'x' + c, '5' + c, c + '5', c + c, c + ' is 5', c + c + ' says hello']
    return out


def sized_tokens(quick):
    """tokens of every class whose BYTE length sweeps 1..80 and the SWEEP sizes, with a multi-byte letter ending exactly at,
    straddling, or starting at that byte; words built around each letter of ODD_LETTERS at every byte length 1..14"""
    out = []
    lengths = list(range(1, 41 if quick else 81)) + [n for n in (SWEEP_QUICK if quick else SWEEP) if n > 40]
    for n in lengths:
        for k in (0, 1, 2):
            body = 'a' * max(0, n - 1 - k) + 'é' + 'a' * k          # the two bytes of é end at byte n-k+1
            out += [body, '"' + body, '"' + body + '"', '(' + body, '(' + body + ')', body + '1', '_' + body, '5' + body,
                    body + "'s", body.capitalize() + ' ' + body.capitalize()]
        out += ['9' * n, '0.' + '3' * n, 'x' * n, '"' + 'x' * n + '"']
    for L in ODD_LETTERS:
        for n in range(0, 14):
            for m in (0, 1, 2):
                w = 'a' * n + L + 'b' * m
                out += [w, w + "'s", w + "'re", w.upper(), w + ' ' + w]
    return out


def scale_programs(quick):
    """programs in which ONE thing is repeated N times, N sweeping powers of two +-1 and 1000: paragraphs, statements, blank
    lines, arguments, list elements, operands, subscripts, `up`s, nested blocks (up to 257), poetic words and word lengths"""
    out = []
    for n in (SWEEP_QUICK if quick else SWEEP):
        out.append(('paragraphs', n, ''.join('say %d\n\n' % i for i in range(n))))
        out.append(('paragraphs-if', n, ''.join('if x\nsay %d\n\n' % i for i in range(n))))
        out.append(('leading-blank-lines', n, '\n' * n + 'say 1\n'))
        out.append(('statements', n, ''.join('say %d\n' % i for i in range(n))))
        out.append(('arguments', n, 'say f taking ' + ', '.join(str(i) for i in range(n)) + '\n'))
        out.append(('list-elements', n, 'rock x with ' + ', '.join(str(i) for i in range(n)) + '\n'))
        out.append(('operands', n, 'say 1' + ' plus 1' * n + '\n'))
        out.append(('ups', n, 'build x' + ' up' * n + '\n'))
        out.append(('poetic-words', n, 'x is' + ' ab' * n + '\nsay x\n'))
        out.append(('poetic-word-length', n, 'x is ' + 'a' * n + ' bc\nsay x\n'))
        out.append(('poetic-word-length-hyphen', n, 'x is ab-' + 'a' * n + ' c\nsay x\n'))
        out.append(('params', n, 'f takes ' + ', '.join('p' + alpha_(i) for i in range(n)) + '\nsay 1\n\n'))
        if n <= 257:
            out.append(('subscripts', n, 'say x' + ' at 0' * n + '\n'))
            out.append(('subscript-target', n, 'put 1 into x' + ' at 0' * n + '\nsay x' + ' at 0' * n + '\n'))
            out.append(('nested-while', n, ''.join('while x\n' for _ in range(n)) + 'say 1\n' + '\n' * n))
            out.append(('nots', n, 'say ' + 'not ' * n + 'x\n'))
    return out


def alpha_(n):
    out = ''
    while True:
        out = 'abcdefghijklmnopqrstuvwxyz'[n % 26] + out
        n //= 26
        if n == 0:
            return out


def token_prefixes(rng, text, limit=80):
    """every prefix of a program that ends at a token boundary, without a final newline and with a trailing
    blank / comment / ignorable punctuation (truncation at every point where the parser may run out of tokens)"""
    toks = split_tokens(text)
    out = []
    acc = ''
    for t in toks:
        acc += t
        if t.strip():
            out.append(acc)
            out.append(acc + rng.choice([' ', ' (c)', ' ?!', '\t', ' (open']))
    if len(out) > limit:
        out = rng.sample(out, limit)
    return out


def nested(rng, depth):
    """deeply nested operator chains / blocks (within a few hundred levels)"""
    r = rng.random()
    if r < 0.25:
        return 'say ' + 'not ' * depth + 'x\n'
    if r < 0.5:
        return 'say ' + '- ' * depth + '1\n'
    if r < 0.75:
        return ''.join('if x\n' for _ in range(depth)) + 'say 1\n'
    return 'say ' + 'roll ' * depth + 'x\n'


def true_position(src_bytes, offset):
    """(line, byte column) of a byte offset: 1 + newlines before it, distance to the line start"""
    line = 1 + src_bytes.count(b'\n', 0, offset)
    ls = src_bytes.rfind(b'\n', 0, offset) + 1
    return line, offset - ls
