#!/bin/bash
# Run once after a fresh restore (offline): build the harness against /repo, regenerate the
# tables, build the Lean model, the driver and every theorem module.
set -e
cd "$(dirname "$0")"
export CARGO_NET_OFFLINE=true
(cd harness && cargo build --offline 2>&1 | tail -2 && cargo build --offline --release 2>&1 | tail -2)
python3 - <<'PY'
import sys
sys.path.insert(0, '.')
from vlib import common
common.regen_tables()
PY
cd lean
lake build Rrss driver 2>&1 | tail -3
for f in Rrss/Thm/*.lean; do
  m="Rrss.Thm.$(basename "$f" .lean)"
  lake build "$m" 2>&1 | tail -1
done
echo setup done
