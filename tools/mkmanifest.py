#!/usr/bin/env python3
"""regenerate /verif/MANIFEST.json from the table below + the theorem files present"""
import json
import os
import sys

sys.path.insert(0, os.path.dirname(os.path.dirname(os.path.abspath(__file__))))
from vlib.theorems import THEOREMS

V = os.path.dirname(os.path.dirname(os.path.abspath(__file__)))

# property -> (design section, what the theorems state, what only the tie carries)
T = {
 'C01': ('§6 C01', 'lexing is total and crash-free for every text < 4 GiB (well-founded loop, all slice / location preconditions proved); parser fuel bound proved sufficient (termination), no crash site reachable, every error renders',
         'stack depth (nests are exercised to depth 300 in both build profiles), release-mode manifestation of UB'),
 'C02': ('§6 C02', 'keyword lookup is case-blind and every alias of the regenerated table lexes to its kind; parser round trip on the stratified grammar',
         'most of the round trip is carried by the oracle run: parse(spell(tree)) = tree on generated trees x spellings'),
 'C03': ('§6 C03', 'every operation equals a flat 36-row coercion table (Spec.Coercion), operand order of +, left-to-right list folding, short circuit, which operations fail and with what', 'the tables themselves vs a language reference (the repository has none; they generalise src/exec/val/tests.rs)'),
 'C04': ('§6 C04', 'output only grows and survives errors, a falsy loop condition runs the body 0 times, break under any stack of ifs leaves exactly one loop, flag machine vs signal semantics', 'an independent reference interpreter in the check for the control-flow fragment'),
 'C05': ('§6 C05', 'scope-stack discipline on every exit path, innermost-binding resolution, call protocol, pronoun tracking', 'metamorphic oracles (unused parameter, if-true wrapping)'),
 'C06': ('§6 C06', 'get-after-set, frame for other keys, auto-extension with mysterious, FIFO roll, decay, error cases, frame lemma for variables', 'that Rc copy-on-write realises the value semantics of the model (copies are independent)'),
 'C07': ('§6 C07', 'join(split(s,d),d) = s for all s, d; cast and turn tables; no crash; operand untouched with `into`', '-'),
 'C08': ('§6 C08', 'each say appends exactly one line, each listen consumes exactly one; out/input monotone; writer-fault prefix theorem', 'BufReader chunking and the writeln! call pattern (every byte position is enumerated against the real writer)'),
 'C09': ('§6 C09', 'for all syntax trees (a superset of what the parser accepts), all inputs, fuel and budgets: execution never reaches any of the modelled panic / debug-assertion / unchecked-unsafe sites; every error renders', 'RefCell borrows, allocation and stack depth'),
 'C10': ('§6 C10', 'every observable of a value is invariant under permutation of every dictionary (so hash order cannot show); lint report order is a function of the program', 'hasher seeds across processes (runs are repeated in and across processes)'),
 'C11': ('§6 C11', 'digit rule of poetic literals (word lengths mod 10, suffixes/hyphens added, first dot), exactness below 2^53, poetic string capture', 'the few-ulp bound for fractions (measured against exact rationals; finding F2 beyond ~300 digits)'),
 'C12': ('§6 C12', 'every token is the exact slice at its offset, tokens do not overlap, true line/column of start (and end) for every text', '-'),
 'C13': ('§6 C13', 'no truncation (Ok implies all tokens consumed); errors are located at the current token', 'the fault catalogue over arbitrary block prefixes is carried by the injected-fault oracle'),
 'C14': ('§6 C14', 'symmetry of equality (incl. deep dictionaries), antisymmetry of ordering and error-iff-error, <= and >= vs equality, truthiness logic, compound assignment = expanded form, build/knock on booleans and exact integers', 'build/knock on non-dyadic fractions is false of binary64 (known finding F1)'),
 'C15': ('§6 C15', 'keys are case-blind and kind-sensitive; keyword recognition is case-blind', 'the simulation over whole programs is carried by the rename-and-rerun oracle'),
 'C16': ('§6 C16', 'walk with the recording visitor = independent node enumeration (every node once, in order), fold left to right, failure prefix', 'trait dispatch (that Rust resolves each call to the method the table says)'),
 'C17': ('§6 C17', 'soundness (folded value = interpreter value, environment untouched, with an exact fuel bound), completeness on constant expressions (iff), no false constants', '-'),
 'C18': ('§6 C18', 'exact when-reported equivalences, digit round trip of the suggested words through the poetic-literal reader, no suggestion without a spelling, pass never crashes', 'fmt shape of f64 Display (NumLaws); suggestions are replayed through the real parser and interpreter'),
 'C19': ('§6 C19', 'report = stable sort by line of pass1 ++ pass2 (sorted, permutation, stable), linting total, repeated-identifier rule exact', '-'),
 'C20': ('§6 C20', 'composition contract of the CLI over parse/exec/lint', 'process creation, clap, stdout buffering, exit status: decided by running the built binary'),
}

TITLES = {json.loads(l)['id']: json.loads(l)['title'] for l in open(os.path.join(V, 'properties.jsonl'))}

checks = []
for p in sorted(T):
    sec, thm, tie = T[p]
    n = len(THEOREMS.get(p))
    proved = n > 0
    checks.append({
        'property_id': p,
        'quick_cmd': './check %s --tier quick' % p,
        'thorough_cmd': './check %s --tier thorough' % p,
        'evidence_file': 'evidence/%s.json' % p,
        'replay_cmd_template': 'cat {path}   # the replay names the failing input (or the broken theorem / correspondence); re-run ./check %s' % p,
        'engine': 'lean-model+tie',
        'level_claimed': {
            'category': 'proof' if proved else 'exploration',
            'text': (('%d theorems in lean/Rrss/Thm/%s*.lean, kernel-checked and axiom-audited on every run: %s. ' % (n, p, thm)) if proved else
                     ('theorems for this property are not integrated yet; until then the property is decided by the correspondence run and the direct oracles only (planned: %s). ' % thm)) +
                    'The model is tied to /repo on every run by a differential correspondence check on generated inputs, and direct (model-free) oracles search the implementation for a failing input. Carried by the tie only: %s.' % tie,
            'design_ref': 'DESIGN.md ' + sec,
        },
        'level_note': 'trusted: Lean kernel + {propext, Classical.choice, Quot.sound}; the hand-written model (validated against /repo by this run, not for all inputs); NumLaws (IEEE-754 facts) and CharLaws (Unicode facts of Rust std, checked exhaustively by `harness charlaws`) where a theorem lists them as hypotheses; the harness and the Python generators. ' + tie,
        'technique': 'Lean 4 theorems on a hand-written executable model + differential correspondence check model/implementation + model-free oracles' if proved else 'differential correspondence check against the Lean model + model-free oracles (proof pending)',
    })

m = {
    'version': 1,
    'setup_cmd': './setup.sh',
    'hooks': {'guard': 'kepler_5_rrss_verif', 'enable': "reserved: RUSTFLAGS='--cfg kepler_5_rrss_verif'; no source hooks are needed (the public API suffices; tables are regenerated behaviourally)",
              'baseline_off_cmd': 'cd /repo && cargo test --workspace --no-fail-fast --offline', 'source_commits': [], 'add_only': True},
    'engines': [
        {'name': 'lean-model+tie', 'path': 'check', 'serves_properties': sorted(T),
         'kind_free_text': 'Lean 4.33 model lean/Rrss (lexer, parser, values, environment, interpreter, visitors, folders, linter) with per-property theorem files lean/Rrss/Thm/Cxx.lean; native model driver (lean/Main.lean) and Rust harness (harness/) answer the same line protocol (PROTOCOL.md); vlib/*.py generate inputs, diff the two, and run direct oracles'},
    ],
    'checks': checks,
    'notes': 'Genuine defects found are repaired in /repo as `fix:` commits and recorded in known_findings.txt (fixed:/open: lines). The pre-fix patches are kept under seeded/_prefix as regression inputs for the checks.',
    'not_applicable': [],
}
json.dump(m, open(os.path.join(V, 'MANIFEST.json'), 'w'), indent=1)
import glob
mods = sorted(os.path.basename(f)[:-5] for f in glob.glob(os.path.join(V, 'lean', 'Rrss', 'Thm', '*.lean')))
open(os.path.join(V, 'lean', 'Rrss', 'AllTheorems.lean'), 'w').write(
    '-- generated by tools/mkmanifest.py: every property-theorem module, imported together\n-- (shows that the theorem files are mutually consistent: no clashing declarations)\n' +
    ''.join('import Rrss.Thm.%s\n' % m_ for m_ in mods))
print('manifest written:', sum(1 for c in checks if c['level_claimed']['category'] == 'proof'), 'proof,', len(checks), 'checks')
