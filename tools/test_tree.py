#!/usr/bin/env python3
"""Test of the tree-level requests dumpt / walkt / runt / lintt of both servers.

  python3 /tmp/treework/test_tree.py [N] [SEED]

1. N random programs (rock.Gen / rock.Speller): `parse` on each server, the printed tree sent
   back as `dumpt` must come back identical (positions included), on BOTH servers and across;
   the position-erased tree and the Python printer's tree must be read to the same tree by both.
2. walkt == walk, runt == run, lintt == lint, per server, on the same programs.
3. cross-server agreement of walkt / runt / lintt on the position-erased trees (bonus).
4. hand-written parser-unreachable trees: accepted by both readers, no `bad`; disagreements listed.
5. (bonus) every `(simple W)` of the random trees turned into the one-word `(proper W)`: servers compared.
"""
import os
import random
import re
import sys

sys.path.insert(0, os.path.join(os.path.dirname(os.path.abspath(__file__)), 'vlib'))
import common   # noqa: E402
import rock     # noqa: E402

hx = common.hx
N = int(sys.argv[1]) if len(sys.argv) > 1 else 2500
SEED = int(sys.argv[2]) if len(sys.argv) > 2 else 20260926
STEPS = 3000
FAILS = []
COUNTS = {}


def model(reqs):
    return common.model(reqs, stall_s=60)


def impl(reqs):
    return common.impl(reqs, stall_s=10)


SERVERS = [('driver', model), ('harness', impl)]


def count(k, n=1):
    COUNTS[k] = COUNTS.get(k, 0) + n


def fail(kind, **kw):
    count('FAIL ' + kind)
    if len([f for f in FAILS if f[0] == kind]) < 5:
        FAILS.append((kind, kw))


def first(r):
    return r.split(' ')[0]


def norm(r):
    """the model names the crash site; comparisons use the first word only"""
    return re.sub(r'^crash Rrss\.Site\.\w+', 'crash', r)


def own_budget(r):
    return first(r) in ('fuel', 'resource', 'hang', 'skipped')


def main():
    rng = random.Random(SEED)
    progs, texts = [], []
    seen = set()
    while len(texts) < N:
        prog = rock.Gen(rng, max_depth=2).program(depth=1)
        t = rock.Speller(rng).program(prog)
        if t in seen:
            continue
        seen.add(t)
        progs.append(prog)
        texts.append(t)
    stdins = [rng.choice(['', '3\nhello\n\n4.5\n', 'x\n', '1\n2\n3\n4\n5\n6\n7\n8\n']) for _ in texts]
    ws = [rng.choice(['-', '-', '-', '0', '3', '20']) for _ in texts]
    rs = [rng.choice(['-', '-', '-', '0', '1']) for _ in texts]
    fs = [rng.choice(['-', '-', str(rng.randint(0, 12)), str(rng.randint(0, 60))]) for _ in texts]

    # ------------------------------------------------------------------ 1. round trip
    parsed = {}
    for name, srv in SERVERS:
        parsed[name] = srv(['parse ' + hx(t) for t in texts])
        for t, r in zip(texts, parsed[name]):
            if not r.startswith('ok '):
                fail('generated program does not parse', server=name, text=t, answer=r)
    ok = [i for i in range(N) if all(parsed[n][i].startswith('ok ') for n, _ in SERVERS)]
    count('programs', N)
    count('programs parsed by both', len(ok))
    for i in ok:
        if parsed['driver'][i] != parsed['harness'][i]:
            fail('parse differs between servers', text=texts[i])
    trees = {n: [parsed[n][i][3:] for i in ok] for n, _ in SERVERS}
    erased = [rock.erase_positions(trees['harness'][k]) for k in range(len(ok))]
    pydump = [rock.dump_program(progs[i]) for i in ok]
    for name, srv in SERVERS:
        for src_name in ('driver', 'harness'):
            back = srv(['dumpt ' + hx(t) for t in trees[src_name]])
            for k, r in enumerate(back):
                count('dumpt round trips (%s tree -> %s)' % (src_name, name))
                if r != 'ok ' + trees[src_name][k]:
                    fail('dumpt round trip', server=name, tree_of=src_name, tree=trees[src_name][k], answer=r)
    zero = {}
    for name, srv in SERVERS:
        zero[name] = srv(['dumpt ' + hx(t) for t in erased])
        for k, r in enumerate(zero[name]):
            count('dumpt of position-erased trees (%s)' % name)
            if not r.startswith('ok ') or rock.erase_positions(r[3:]) != erased[k]:
                fail('dumpt of an erased tree', server=name, tree=erased[k], answer=r)
            elif re.search(r'@(?!0:0(-0:0)?[ )])', r):
                fail('erased position is not 0:0', server=name, tree=erased[k], answer=r)
        py = srv(['dumpt ' + hx(t) for t in pydump])
        for k, r in enumerate(py):
            count('dumpt of the Python printer\'s trees (%s)' % name)
            if not r.startswith('ok ') or rock.erase_positions(r[3:]) != pydump[k]:
                fail('dumpt of a rock.py tree', server=name, tree=pydump[k], answer=r)
    for k in range(len(ok)):
        if zero['driver'][k] != zero['harness'][k]:
            fail('dumpt of an erased tree differs between servers', tree=erased[k])

    # ------------------------------------------------------------------ 2. tree requests == text requests
    def run_req(verb, first_field, i):
        return '%s %s %s %s %s %d' % (verb, first_field, hx(stdins[i]), ws[i], rs[i], STEPS)

    model_run = None
    runnable = None
    answers_t = {}
    for name, srv in SERVERS:
        tr = trees[name]
        a = srv(['walk %s %s' % (hx(texts[i]), fs[i]) for i in ok])
        b = srv(['walkt %s %s' % (hx(tr[k]), fs[ok[k]]) for k in range(len(ok))])
        for k, (x, y) in enumerate(zip(a, b)):
            count('walkt == walk (%s)' % name)
            if x != y or first(x) not in ('ok', 'err'):
                fail('walkt != walk', server=name, text=texts[ok[k]], f=fs[ok[k]], walk=x, walkt=y)
        a = srv(['lint ' + hx(texts[i]) for i in ok])
        b = srv(['lintt ' + hx(tr[k]) for k in range(len(ok))])
        for k, (x, y) in enumerate(zip(a, b)):
            count('lintt == lint (%s)' % name)
            if x != y or first(x) != 'ok':
                fail('lintt != lint', server=name, text=texts[ok[k]], lint=x, lintt=y)
        if name == 'driver':
            a = srv([run_req('run', hx(texts[i]), i) for i in ok])
            model_run = a
            runnable = [k for k in range(len(ok)) if not own_budget(a[k])]
            count('programs the model runs within its budget', len(runnable))
            sel = list(range(len(ok)))
        else:
            sel = runnable          # the harness ignores STEPS: never send it what the model could not finish
            a = srv([run_req('run', hx(texts[ok[k]]), ok[k]) for k in sel])
        b = srv([run_req('runt', hx(tr[k]), ok[k]) for k in sel])
        for k, x, y in zip(sel, a, b):
            count('runt == run (%s)' % name)
            if x != y or first(x) in ('bad', 'parseerr', 'hang', 'skipped'):
                fail('runt != run', server=name, text=texts[ok[k]], run=x, runt=y)
        if name == 'harness':
            for k, x in zip(sel, a):
                if x != model_run[k]:
                    count('note: run differs between servers on a generated program (not a tree-request matter)')

    # ------------------------------------------------------------------ 3. cross-server on erased trees
    cross(erased, [fs[i] for i in ok], [ok[k] for k in range(len(ok))], run_req, 'position-erased trees')

    # ------------------------------------------------------------------ 4. hand-written unreachable trees
    hand()

    # ------------------------------------------------------------------ 5. one-word proper names everywhere
    proper1 = [re.sub(r'\(simple (x[0-9a-f]*)\)', r'(proper \1)', t) for t in erased]
    proper1 = [t for t in proper1 if '(proper x' in t]
    cross(proper1, ['-'] * len(proper1), list(range(len(proper1))), run_req, 'trees with every simple name turned into a one-word proper name')

    # ------------------------------------------------------------------ summary
    print('seed %d, %d programs' % (SEED, N))
    for k in sorted(COUNTS):
        print('  %-90s %d' % (k, COUNTS[k]))
    if FAILS:
        print('FAILURES / FINDINGS (first 5 of each kind):')
        for kind, kw in FAILS:
            print(' *', kind)
            for a, b in kw.items():
                print('     %s: %s' % (a, (b if isinstance(b, str) else repr(b))[:1500]))
    hard = [k for k in COUNTS if k.startswith('FAIL ') and not k.startswith('FAIL servers disagree')]
    print('RESULT:', 'FAIL' if hard else 'PASS', '(server disagreements on unreachable trees are findings, not failures)')
    return 1 if hard else 0


def cross(trees, fails, idx, run_req, what):
    """both servers on the same trees: walkt / lintt / runt must not be `bad` and should agree"""
    reqs = {'walkt': ['walkt %s %s' % (hx(t), f) for t, f in zip(trees, fails)],
            'lintt': ['lintt ' + hx(t) for t in trees],
            'runt': [run_req('runt', hx(t), i) for t, i in zip(trees, idx)]}
    for verb in ('walkt', 'lintt', 'runt'):
        m = model(reqs[verb])
        sel = [k for k in range(len(trees)) if not own_budget(m[k])]
        h = impl([reqs[verb][k] for k in sel])
        for k, y in zip(sel, h):
            count('%s on %s: compared' % (verb, what))
            x = m[k]
            if first(x) == 'bad' or first(y) == 'bad':
                fail('tree request answered bad', verb=verb, tree=trees[k], driver=x, harness=y)
            elif norm(x) != norm(y):
                fail('servers disagree: %s on %s' % (verb, what), tree=trees[k], request=reqs[verb][k][:40] + '...',
                     driver=x, harness=y)


ONE = '(lit (num 3ff0000000000000))'
TWO = '(lit (num 4000000000000000))'
STR = '(lit (str x6162))'
X = '(simple x78)'
TOM = '(proper x546f6d)'                # one word: `Tom`
HAND = [
    ('one-word proper name as a variable', '(prog (block (assign (lid %s) - (list %s)) (output (id %s)) (output (id (simple x546f6d))) (output (id (simple x746f6d)))))' % (TOM, TWO, TOM)),
    ('one-word proper name assigned, read back as simple name', '(prog (block (assign (lid (simple x546f6d)) - (list %s)) (output (id %s))))' % (TWO, TOM)),
    ('one-word proper name as a callee', '(prog (block (func %s (params (%s)) (block (return (id %s)))) (output (call %s (args %s))) (callstmt %s (args %s))))' % (TOM, X, X, TOM, TWO, TOM, ONE)),
    ('one-word proper name as a parameter', '(prog (block (func (simple x66) (params (%s)) (block (return (id %s)))) (output (call (simple x66) (args %s)))))' % (TOM, TOM, TWO)),
    ('zero-word proper name as a variable', '(prog (block (assign (lid (proper)) - (list %s)) (output (id (proper)))))' % TWO),
    ('zero-word proper name as a callee', '(prog (block (func (proper) (params (%s)) (block (return (id %s)))) (output (call (proper) (args %s)))))' % (X, X, TWO)),
    ('zero-word proper name twice in a row (linter)', '(prog (block (output (id (proper))) (output (id (proper))) (output (id %s)) (output (id %s))))' % (TOM, TOM)),
    ('NaN literal', '(prog (block (output (lit (num 7ff8000000000000))) (output (bin eq (lit (num 7ff8000000000000)) (list (lit (num 7ff8000000000000))))) (assign (lid %s) - (list (lit (num 7ff0000000000001)))) (output (bin plus (id %s) (list %s)))))' % (X, X, STR)),
    ('infinite and negative literals', '(prog (block (output (lit (num 7ff0000000000000))) (output (lit (num fff0000000000000))) (output (lit (num c014000000000000))) (output (lit (num 8000000000000000))) (output (bin multiply %s (list (lit (num c008000000000000)))))))' % STR),
    ('NaN / inf as array index and as cast argument', '(prog (block (assign (lsub (id %s) (lit (num 7ff8000000000000))) - (list %s)) (output (sub (id %s) (lit (num 7ff8000000000000)))) (output (id %s)) (mut cast (lit (num 7ff0000000000000)) (lid (simple x79)) -) (output (id (simple x79)))))' % (X, ONE, X, X)),
    ('if with an empty else block', '(prog (block (if (lit false) (block (output %s)) (block)) (output %s)))' % (ONE, TWO)),
    ('if with an empty else block at a position, and with no else', '(prog (block (if (lit true) (block @3:1) (block @7:2)) (if (lit true) (block) -) (output %s)))' % TWO),
    ('empty loop body and empty function body', '(prog (block (while (lit false) (block)) (until (lit true) (block)) (func (simple x66) (params (%s)) (block)) (output (call (simple x66) (args %s)))))' % (X, ONE)),
    ('empty program / empty blocks', '(prog)'),
    ('empty program / empty blocks', '(prog (block) (block @2:0) (block (output %s)))' % ONE),
    ('call with an empty argument list', '(prog (block (func (simple x66) (params) (block (return %s))) (output (call (simple x66) (args))) (callstmt (simple x66) (args))))' % TWO),
    ('call with no arguments of a function with one parameter', '(prog (block (func (simple x66) (params (%s)) (block (return %s))) (output (call (simple x66) (args)))))' % (X, TWO)),
    ('poetic literal with no elements', '(prog (block (pnum (lid %s) (plit -)) (output (id %s)) (push (id (simple x61)) (plit -)) (output (id (simple x61)))))' % (X, X)),
    ('poetic literal: only dots / leading suffix', '(prog (block (pnum (lid %s) (plit - dot dot)) (output (id %s)) (pnum (lid %s) (plit - (s x6162) (w x63))) (output (id %s))))' % (X, X, X, X)),
    ('operand list on operators that take no list', '(prog (block (output (bin minus %s (list %s %s))) (output (bin eq %s (list %s %s))) (output (bin and %s (list %s %s)))))' % (TWO, ONE, ONE, ONE, ONE, TWO, ONE, ONE, TWO)),
    ('plain assignment of a list', '(prog (block (assign (lid %s) - (list %s %s)) (output (id %s))))' % (X, ONE, TWO, X)),
    ('inc / dec by zero and by negative amounts', '(prog (block (assign (lid %s) - (list %s)) (inc %s 0) (output (id %s)) (inc %s -3) (output (id %s)) (dec %s -3) (output (id %s)) (inc (simple x6e) 0) (output (id (simple x6e)))))' % (X, TWO, X, X, X, X, X, X)),
    ('names the lexer would not produce', '(prog (block (assign (lid (common x546865 x58)) - (list %s)) (output (id (common x746865 x78))) (output (id (common x546865 x58))) (assign (lid (simple x)) - (list %s)) (output (id (simple x))) (assign (lid (simple x6966)) - (list %s)) (output (id (simple x6966)))))' % (ONE, TWO, TWO)),
    ('unary minus / not on anything', '(prog (block (output (un minus (un minus %s))) (output (un not (un not %s))) (output (un minus (lit null))) (output (un minus (id (simple x6e)))) (output (un minus %s))))' % (TWO, STR, STR)),
    ('literal as array / pop of a literal / subscript of a call', '(prog (block (output (sub %s %s)) (output (sub (call (simple x66) (args)) %s)) (output (popx %s)) (pop %s (lid %s)) (output (id %s))) (block (func (simple x66) (params) (block (return %s)))))' % (STR, ONE, ONE, STR, STR, X, X, STR)),
    ('mutation with literal operand and destination', '(prog (block (mut cut %s (lid %s) -) (output (id %s)) (mut join (id %s) - -) (output (id %s)) (round up %s)))' % (STR, X, X, X, X, ONE)),
    ('break / continue / return at top level', '(prog (block (output %s) (continue) (output %s)) (block (break @4:0-4:5) (output %s)) (block (return %s) (output %s)))' % (ONE, ONE, TWO, ONE, TWO)),
    ('function defined inside a loop, pronoun as destination', '(prog (block (assign (lid %s) - (list %s)) (assign (lid pronoun) - (list %s)) (output (id %s)) (input (lid pronoun)) (output (id pronoun)) (inc pronoun 2) (output (id %s))))' % (X, ONE, TWO, X, X)),
    ('reversed range', '(prog (block (output (lit null @5:3-2:1))))'),
]
REJECT = [
    ('empty operand list in bin (ExpressionList has a `first` in both ASTs)', '(prog (block (output (bin plus %s (list)))))' % ONE),
    ('empty list in assign', '(prog (block (assign (lid %s) - (list))))' % X),
    ('two spaces', '(prog  (block))'),
    ('uppercase hex', '(prog (block (output (lit (str x4A)))))'),
    ('invalid UTF-8', '(prog (block (output (lit (str xff)))))'),
    ('position out of u32', '(prog (block @4294967296:0))'),
    ('amount out of isize', '(prog (block (inc %s 9223372036854775808)))' % X),
    ('trailing text', '(prog) '),
    ('unknown statement', '(prog (block (nop)))'),
]


def hand():
    run_tail = ' %s - - %d' % (hx('7\nseven\n'), STEPS)
    for what, t in HAND:
        count('hand-written trees')
        d = {}
        for name, srv in SERVERS:
            d[name] = srv(['dumpt ' + hx(t), 'walkt %s -' % hx(t), 'lintt ' + hx(t), 'runt ' + hx(t) + run_tail])
        for j, verb in enumerate(['dumpt', 'walkt', 'lintt', 'runt']):
            x, y = d['driver'][j], d['harness'][j]
            if first(x) == 'bad' or first(y) == 'bad' or (verb == 'dumpt' and (first(x) != 'ok' or first(y) != 'ok')):
                fail('unreachable tree not accepted', what=what, verb=verb, tree=t, driver=x, harness=y)
            elif norm(x) != norm(y):
                fail('servers disagree on a hand-written tree', what=what, verb=verb, tree=t, driver=x, harness=y)
            else:
                count('hand-written trees: %s agreed' % verb)
        for name, srv in SERVERS:          # printing is idempotent
            again = srv(['dumpt ' + hx(d[name][0][3:])])[0]
            if again != d[name][0]:
                fail('dumpt is not idempotent', what=what, server=name, tree=t, once=d[name][0], twice=again)
    for what, t in REJECT:
        count('malformed / unrepresentable trees')
        for name, srv in SERVERS:
            r = srv(['dumpt ' + hx(t), 'walkt %s -' % hx(t), 'lintt ' + hx(t), 'runt ' + hx(t) + run_tail])
            if r != ['bad'] * 4:
                fail('malformed tree not answered bad', what=what, server=name, tree=t, answers=r)


if __name__ == '__main__':
    sys.exit(main())
