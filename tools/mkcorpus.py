#!/usr/bin/env python3
"""tools/mkcorpus.py [seed-dir ...] -- (re)build corpus/<Cxx>.txt from the seeded changes and the repaired defects.
For each patch: apply it to /repo (reverse for seeded/_prefix/Dxx.patch), run the quick check of its property, read the
replay the check wrote, turn the failing case into protocol requests, keep those on which the patched implementation
differs from the model under the corpus projection, undo the patch. Development tool: needs a clean /repo."""
import glob, json, os, subprocess, sys
sys.path.insert(0, '/verif')
from vlib import common, corpus
from vlib.common import hx

def sh(cmd):
    return subprocess.run(cmd, shell=True, capture_output=True, text=True)

def requests_of(case):
    out = []
    def prog(p, stdin=''):
        from vlib.p_exec import run_req
        out.extend([run_req(p, stdin), 'parse ' + hx(p), 'lint ' + hx(p)])
    if not isinstance(case, dict):
        return out
    stdin = case.get('stdin', '') if isinstance(case.get('stdin', ''), str) else ''
    for k, v in case.items():
        if not isinstance(v, str):
            continue
        if k in ('request', 'corpus_request', 'store', 'then') and v.split(' ', 1)[0] in ('lex', 'parse', 'run', 'lint', 'fold', 'walk', 'val', 'fmt', 'num'):
            out.append(v)
        elif k == 'text':
            out.extend(['parse ' + hx(v), 'lex ' + hx(v)])
        elif k in ('program', 'original', 'renamed_recased', 'compound', 'expanded', 'variant', 'suggested_statement'):
            prog(v, stdin)
        elif k == 'expression':
            out.append('fold ' + hx(v)); prog(v)
    for k in ('programs',):
        for v in case.get(k, []) or []:
            if isinstance(v, str):
                prog(v, stdin)
    return out

def main():
    assert sh('git -C /repo diff --quiet').returncode == 0, '/repo is not clean'
    dirs = sys.argv[1:] or sorted(glob.glob('/verif/seeded/C??_*')) + sorted(glob.glob('/verif/seeded/R?_C??_*')) + sorted(glob.glob('/verif/seeded/_prefix/D*.patch'))
    os.makedirs('/verif/corpus', exist_ok=True)
    DPROP = {}
    for l in open('/verif/known_findings.txt'):
        if l.startswith('fixed:'):
            f = l.split()
            DPROP[f[2]] = f[1].split('=')[1]
    for d in dirs:
        if d.endswith('.patch'):
            name, patch, rev = os.path.basename(d)[:-6], d, '-R'
            # property of a repaired defect: Dnn is the nn-th `fix:` commit of /repo; known_findings.txt records its property
            commits = [l.split()[0] for l in sh("git -C /repo log --oneline --reverse | grep ' fix:'").stdout.split('\n') if l]
            c = commits[int(name[1:]) - 1]
            prop = next((l.split()[1].split('=')[1] for l in open('/verif/known_findings.txt') if l.startswith('fixed:') and l.split()[2] == c), None)
            if prop is None:
                print(name, 'no property recorded, skipped'); continue
        else:
            name, patch, rev = os.path.basename(d), os.path.join(d, 'patch.diff'), ''
            prop = json.load(open(os.path.join(d, 'meta.json')))['breaks_property']
        if sh('git -C /repo apply %s %s' % (rev, patch)).returncode != 0:
            print(name, 'patch does not apply'); continue
        try:
            r = sh('cd /verif && ./check %s --tier quick' % prop)
            cands = []
            for rp in glob.glob('/verif/replays/%s_quick_1_*.json' % prop):
                j = json.load(open(rp))
                cands += requests_of(j.get('case'))
                for m in j.get('more', []) or []:
                    if isinstance(m, dict):
                        cands += requests_of(m.get('case'))
            cands = list(dict.fromkeys(cands))[:40]
            keep = []
            if cands:
                mo = common.model(cands)
                im = common.impl(cands)
                for q, a, b in zip(cands, mo, im):
                    pj = corpus.generic_proj(q)
                    if a.split(' ')[0] in ('fuel', 'resource', 'hang', 'bad') or b == 'skipped':
                        continue
                    try:
                        differs = pj(a) != pj(b)
                    except Exception:
                        differs = a != b
                    if differs:
                        keep.append(q)
            keep = keep[:3]
            print('%-45s %s: %d candidate requests, %d distinguishing' % (name, prop, len(cands), len(keep)), flush=True)
            if keep:
                path = '/verif/corpus/%s.txt' % prop
                old = open(path).read() if os.path.exists(path) else ''
                with open(path, 'a') as f:
                    for q in keep:
                        if q not in old:
                            f.write('# %s\n%s\n' % (name, q))
        finally:
            sh('git -C /repo checkout -- .')
    sh('cd /verif/harness && CARGO_NET_OFFLINE=true cargo build --offline; cd /repo && CARGO_NET_OFFLINE=true cargo build --offline')

if __name__ == '__main__':
    main()
