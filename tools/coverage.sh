#!/bin/bash
# usage: tools/coverage.sh [Cxx...]   development aid, not a registered check.
# Builds the harness with source-based coverage instrumentation (nightly llvm-tools), runs the quick checks
# against it, and prints the lines of /repo/src that NO generated input reached (work/coverage/uncovered.txt):
# the measured input distribution the generators are improved against.
set -e
cd /verif
COV=/tmp/verif_cov; rm -rf $COV; mkdir -p $COV/prof
BIN=$HOME/.rustup/toolchains/nightly-x86_64-unknown-linux-gnu/lib/rustlib/x86_64-unknown-linux-gnu/bin
(cd harness && LLVM_PROFILE_FILE=$COV/build-%p.profraw CARGO_NET_OFFLINE=true RUSTFLAGS="-C instrument-coverage" cargo +nightly build --offline --target-dir $COV/target 2>&1 | tail -1)
PROPS="$@"; [ -z "$PROPS" ] && PROPS="C01 C02 C03 C04 C05 C06 C07 C08 C09 C10 C11 C12 C13 C14 C15 C16 C17 C18 C19 C20"
for p in $PROPS; do
  VERIF_HARNESS_BIN=$COV/target/debug/harness LLVM_PROFILE_FILE="$COV/prof/$p-%p-%m.profraw" ./check $p --tier ${TIER:-quick} 2>&1 | grep -E "VIOLATION|quick:|thorough:|FAILED" | cut -c1-160
done
rm -f /repo/*.profraw; $BIN/llvm-profdata merge -sparse $COV/prof/*.profraw -o $COV/all.profdata
mkdir -p work/coverage
$BIN/llvm-cov report $COV/target/debug/harness -instr-profile=$COV/all.profdata --ignore-filename-regex='(\.cargo|rustc|harness/src)' > work/coverage/summary.txt 2>/dev/null
$BIN/llvm-cov show $COV/target/debug/harness -instr-profile=$COV/all.profdata --ignore-filename-regex='(\.cargo|rustc|harness/src)' --show-line-counts-or-regions > work/coverage/show.txt 2>/dev/null
python3 - <<'PY'
import re
out=[]; cur=None
for l in open('/verif/work/coverage/show.txt', errors='replace'):
    if l.startswith('/repo/') and l.rstrip().endswith(':'):
        cur=l.strip().rstrip(':'); continue
    m=re.match(r'\s*(\d+)\|\s*0\|(.*)', l)
    if m and cur and '/src/' in cur and '#[cfg(test)]' not in l:
        out.append('%s:%s: %s' % (cur.replace('/repo/',''), m.group(1), m.group(2).rstrip()))
open('/verif/work/coverage/uncovered.txt','w').write('\n'.join(out)+'\n')
print(len(out), 'uncovered lines -> work/coverage/uncovered.txt')
PY
tail -3 work/coverage/summary.txt
rm -rf $COV
