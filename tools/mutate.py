#!/usr/bin/env python3
"""tools/mutate.py -- mutation campaign against the checks (development aid, NOT a registered check).

Applies small syntactic mutations (relational / boolean / arithmetic operator swaps, constant changes, negation and
statement deletion, min/max, first/last, floor/ceil, break/continue ...) to a COPY of kepler-5/rrss, one at a time.
A mutant that does not compile is dropped; one that changes the result of the project's own test suite is "killed by
the tests" (uninteresting: the tests already settle it); for each SURVIVOR the quick checks of the properties anchored
in the mutated file are run against the copy (VERIF_REPO). A survivor that no check reports is written to the result
file for triage: it is either an equivalent mutant (no observable difference), a change that breaks none of the 20
properties, or a gap in a generator.

usage (from a checkout of /verif whose harness/Cargo.toml may be rewritten, e.g. a `vp run` snapshot):
    python3 tools/mutate.py --repo-copy /tmp/mut/repo --out work/mutation/results.jsonl [--seed 1] [--limit 400]
                            [--files 'src/exec/.*'] [--minutes 600]
"""
import argparse
import json
import os
import random
import re
import shutil
import signal
import subprocess
import sys
import time

VERIF = os.path.dirname(os.path.dirname(os.path.abspath(__file__)))


def sh(cmd, cwd, timeout, env=None):
    e = dict(os.environ, CARGO_NET_OFFLINE='true')
    if env:
        e.update(env)
    p = subprocess.Popen(cmd, cwd=cwd, shell=True, stdout=subprocess.PIPE, stderr=subprocess.STDOUT, text=True, env=e,
                         start_new_session=True)
    try:
        out, _ = p.communicate(timeout=timeout)
        return p.returncode, out
    except subprocess.TimeoutExpired:
        os.killpg(p.pid, signal.SIGKILL)
        try:
            p.communicate(timeout=10)
        except Exception:
            pass
        return 'timeout', ''


OPS = [
    ('rel', r' == ', ' != '), ('rel', r' != ', ' == '),
    ('rel', r' < ', ' <= '), ('rel', r' <= ', ' < '), ('rel', r' > ', ' >= '), ('rel', r' >= ', ' > '),
    ('rel', r' < ', ' > '), ('rel', r' > ', ' < '),
    ('bool', r' && ', ' || '), ('bool', r' \|\| ', ' && '),
    ('arith', r' \+ 1\b', ' - 1'), ('arith', r' - 1\b', ' + 1'), ('arith', r' \+ ', ' - '), ('arith', r' - ', ' + '),
    ('arith', r' \* ', ' / '), ('arith', r' / ', ' * '), ('arith', r' \+= ', ' -= '), ('arith', r' -= ', ' += '),
    ('const', r'\btrue\b', 'false'), ('const', r'\bfalse\b', 'true'),
    ('const', r'(?<![\w.])0(?![\w.])', '1'), ('const', r'(?<![\w.])1(?![\w.])', '0'), ('const', r'(?<![\w.])1(?![\w.])', '2'),
    ('const', r'(?<![\w.])10(?![\w.])', '9'), ('const', r'(?<![\w.])2(?![\w.])', '3'),
    ('neg', r'(?<![\w)\]!=<>])!(?=[A-Za-z_(])', ''),
    ('call', r'\.min\(', '.max('), ('call', r'\.max\(', '.min('), ('call', r'\.first\(\)', '.last()'), ('call', r'\.last\(\)', '.first()'),
    ('call', r'\.floor\(\)', '.ceil()'), ('call', r'\.ceil\(\)', '.floor()'), ('call', r'\.round\(\)', '.trunc()'),
    ('call', r'\.is_some\(\)', '.is_none()'), ('call', r'\.is_none\(\)', '.is_some()'), ('call', r'\.is_ok\(\)', '.is_err()'),
    ('call', r'\.is_empty\(\)', '.is_empty() == false'), ('call', r'\.rev\(\)', ''), ('call', r'\.skip\(1\)', ''),
    ('call', r'\.to_lowercase\(\)', '.to_uppercase()'), ('call', r'\.is_alphabetic\(\)', '.is_alphanumeric()'),
    ('call', r'\.is_whitespace\(\)', '.is_ascii_whitespace()'), ('call', r'\.is_uppercase\(\)', '.is_ascii_uppercase()'),
    ('call', r'\.chars\(\)\.count\(\)', '.len()'), ('call', r'Ordering::Less', 'Ordering::Greater'), ('call', r'Ordering::Greater', 'Ordering::Less'),
    ('call', r'\.any\(', '.all('), ('call', r'\.all\(', '.any('), ('call', r'\.push_back\(', '.push_front('), ('call', r'\.pop_front\(\)', '.pop_back()'),
    ('call', r'\.saturating_sub\(', '.wrapping_sub('), ('call', r'\.take_while\(', '.skip_while('),
    ('flow', r'\bbreak;', 'continue;'), ('flow', r'\bcontinue;', 'break;'),
]
STMT = re.compile(r'^\s*(self\.|[a-z_][\w.]*\.)[a-z_]\w*(::<[^>]*>)?\(.*\);\s*$')


VARIANT = re.compile(r'\b([A-Z][A-Za-z0-9]+)::([A-Z][A-Za-z0-9]+)\b')
ENUMS = {}


def scan_enums(src_root):
    """Enum::Variant spellings used anywhere in the non-test sources, grouped by enum name"""
    for root, dirs, files in os.walk(src_root):
        for fn in files:
            if fn.endswith('.rs') and fn != 'tests.rs':
                for mo in VARIANT.finditer(open(os.path.join(root, fn), encoding='utf-8').read()):
                    ENUMS.setdefault(mo.group(1), set()).add(mo.group(2))


def mutants_of(path, rel):
    lines = open(path, encoding='utf-8').read().split('\n')
    out = []
    rnd = random.Random(hash(rel) & 0xffff)
    in_test = False
    skip_next = False
    for i, l in enumerate(lines):
        s = l.strip()
        if s.startswith('#[cfg(test)]'):
            nxt = next((x.strip() for x in lines[i + 1:] if x.strip()), '')
            if nxt.endswith(';'):          # `#[cfg(test)] mod tests;` -- a declaration, the tests live in another file
                skip_next = True
                continue
            in_test = True
        if skip_next:
            skip_next = False
            continue
        if in_test or not s or s.startswith('//') or s.startswith('#[') or s.startswith('use ') or s.startswith('pub use '):
            continue
        code = l.split('//')[0] if '"' not in l else l
        for kind, pat, rep in OPS:
            for mo in re.finditer(pat, code):
                # skip matches inside string literals (odd number of quotes before the match)
                if code[:mo.start()].count('"') % 2 == 1:
                    continue
                new = code[:mo.start()] + rep + code[mo.end():]
                if new != l:
                    out.append({'file': rel, 'line': i + 1, 'op': kind, 'from': l.strip(), 'to': new.strip(), 'new_line': new})
        # a sibling variant of the same enum (in a pattern: another case is matched; in an expression: another value)
        for mo in VARIANT.finditer(code):
            if code[:mo.start()].count('"') % 2 == 1:
                continue
            sib = sorted(ENUMS.get(mo.group(1), set()) - {mo.group(2)})
            for other in rnd.sample(sib, min(2, len(sib))):
                new = code[:mo.start(2)] + other + code[mo.end(2):]
                out.append({'file': rel, 'line': i + 1, 'op': 'variant', 'from': l.strip(), 'to': new.strip(), 'new_line': new})
        # two arguments swapped
        for mo in re.finditer(r'\((&?[a-z_][\w.]*(?:\(\))?), (&?[a-z_][\w.]*(?:\(\))?)\)', code):
            if mo.group(1) != mo.group(2) and code[:mo.start()].count('"') % 2 == 0:
                new = code[:mo.start()] + '(%s, %s)' % (mo.group(2), mo.group(1)) + code[mo.end():]
                out.append({'file': rel, 'line': i + 1, 'op': 'swap-args', 'from': l.strip(), 'to': new.strip(), 'new_line': new})
        # a condition negated
        mo = re.match(r'^(\s*(?:\} else )?if )(?!let\b)(.+)( \{\s*)$', code)
        if mo:
            new = mo.group(1) + '!(' + mo.group(2) + ')' + mo.group(3)
            out.append({'file': rel, 'line': i + 1, 'op': 'negate-if', 'from': l.strip(), 'to': new.strip(), 'new_line': new})
        # two adjacent statements swapped (evaluation order)
        if i + 1 < len(lines) and l.rstrip().endswith(';') and lines[i + 1].rstrip().endswith(';') and \
                len(l) - len(l.lstrip()) == len(lines[i + 1]) - len(lines[i + 1].lstrip()) and not lines[i + 1].strip().startswith('//') \
                and not s.startswith('let ') or (i + 1 < len(lines) and s.startswith('let ') and lines[i + 1].strip().startswith('let ')
                                                 and l.rstrip().endswith(';') and lines[i + 1].rstrip().endswith(';')):
            out.append({'file': rel, 'line': i + 1, 'op': 'swap-statements', 'from': l.strip(), 'to': lines[i + 1].strip() + ' / ' + l.strip(),
                        'new_line': lines[i + 1] + '\n' + l, 'drop_next': True})
        if STMT.match(l) and 'debug_assert' not in l and 'assert' not in l:
            out.append({'file': rel, 'line': i + 1, 'op': 'delete-statement', 'from': l.strip(), 'to': '', 'new_line': ''})
    return out


def test_results(out):
    res = {}
    for mo in re.finditer(r'^test (\S+) \.\.\. (\w+)', out, re.M):
        res[mo.group(1)] = mo.group(2)
    return res


def main():
    ap = argparse.ArgumentParser()
    ap.add_argument('--repo-copy', required=True)
    ap.add_argument('--out', required=True)
    ap.add_argument('--seed', type=int, default=1)
    ap.add_argument('--limit', type=int, default=100000)
    ap.add_argument('--minutes', type=float, default=600)
    ap.add_argument('--files', default=r'src/.*')
    ap.add_argument('--ops', default=r'.*')
    a = ap.parse_args()
    R = os.path.abspath(a.repo_copy)
    t_end = time.time() + a.minutes * 60
    os.makedirs(os.path.dirname(os.path.abspath(a.out)), exist_ok=True)
    if not os.path.isdir(R):
        shutil.copytree('/repo', R, symlinks=True)
    sh('git checkout -- . && git clean -fdq -e target', R, 60)
    # the harness of THIS checkout is pointed at the copy
    ct = os.path.join(VERIF, 'harness', 'Cargo.toml')
    s = open(ct).read()
    s2 = re.sub(r'rrss = \{ path = "[^"]*" \}', 'rrss = { path = "%s" }' % R, s)
    if s2 != s:
        open(ct, 'w').write(s2)
    anchors = {}
    for l in open(os.path.join(VERIF, 'properties.jsonl')):
        d = json.loads(l)
        for f in d['anchors']['files']:
            anchors.setdefault(f, []).append(d['id'])
    fallback = [('src/exec/', ['C03', 'C09']), ('src/linter/', ['C18', 'C19', 'C20']), ('src/cli/', ['C20']),
                ('src/analysis/', ['C16', 'C17']), ('src/frontend/', ['C01', 'C02', 'C12'])]

    def checks_for(f):
        if f in anchors:
            return anchors[f]
        for pre, cs in fallback:
            if f.startswith(pre):
                return cs
        return ['C20']
    # baseline
    print('baseline test run ...', flush=True)
    rc, out = sh('cargo test --workspace --no-fail-fast --offline', R, 1800)
    base = test_results(out)
    print('baseline: %d tests, %d ok' % (len(base), sum(1 for v in base.values() if v == 'ok')), flush=True)
    assert len(base) > 200, out[-2000:]
    env = {'VERIF_REPO': R}
    print('baseline checks ...', flush=True)
    allc = sorted({c for cs in anchors.values() for c in cs})
    for c in allc:
        rc, out = sh('./check %s --tier quick' % c, VERIF, 3600, env)
        line = [l for l in out.split('\n') if 'quick:' in l or 'VIOLATION' in l or 'FAILED' in l]
        print(' ', c, rc, (line[-1] if line else out[-300:])[:150], flush=True)
        if rc != 0:
            print('BASELINE NOT QUIET for', c, '- stopping')
            return 2
    # mutants
    scan_enums(os.path.join(R, 'src'))
    muts = []
    for root, dirs, files in os.walk(os.path.join(R, 'src')):
        for fn in files:
            p = os.path.join(root, fn)
            rel = os.path.relpath(p, R)
            if fn.endswith('.rs') and fn != 'tests.rs' and '/tests/' not in rel and re.fullmatch(a.files, rel):
                muts += [m for m in mutants_of(p, rel) if re.fullmatch(a.ops, m['op'])]
    rng = random.Random(a.seed)
    rng.shuffle(muts)
    print('%d candidate mutants' % len(muts), flush=True)
    done = set()
    if os.path.exists(a.out):
        for l in open(a.out):
            d = json.loads(l)
            done.add((d['file'], d['line'], d['to']))
    n = 0
    for m in muts:
        if n >= a.limit or time.time() > t_end:
            break
        if (m['file'], m['line'], m['to']) in done:
            continue
        n += 1
        t0 = time.time()
        p = os.path.join(R, m['file'])
        orig = open(p, encoding='utf-8').read()
        lines = orig.split('\n')
        lines[m['line'] - 1] = m['new_line']
        if m.get('drop_next'):
            del lines[m['line']]
        open(p, 'w', encoding='utf-8').write('\n'.join(lines))
        rec = {k: m[k] for k in ('file', 'line', 'op', 'from', 'to')}
        try:
            rc, out = sh('cargo build --offline --lib', R, 600)
            if rc != 0:
                rec['status'] = 'nocompile'
                continue
            rc, out = sh('cargo test --workspace --no-fail-fast --offline', R, 300)
            if rc == 'timeout':
                rec['status'] = 'killed-by-tests'
                rec['how'] = 'timeout'
                sh('pkill -9 -f "%s/target/debug/deps" || true' % R, R, 20)
                continue
            res = test_results(out)
            if len(res) < len(base):
                rec['status'] = 'nocompile' if 'error' in out and 'could not compile' in out else 'killed-by-tests'
                rec['how'] = 'fewer results'
                continue
            diff = [k for k in base if res.get(k) != base[k]]
            if diff:
                rec['status'] = 'killed-by-tests'
                rec['how'] = diff[:3]
                continue
            caught = []
            for c in checks_for(m['file']):
                rc, out = sh('./check %s --tier quick' % c, VERIF, 1200, env)
                if rc != 0 or 'VIOLATION' in out:
                    v = [l for l in out.split('\n') if 'VIOLATION' in l or 'CHECK FAILED' in l or 'Error' in l]
                    caught.append((c, (v[0] if v else 'rc=%s' % rc)[:160]))
            rec['checks'] = checks_for(m['file'])
            rec['status'] = 'caught' if caught else 'SURVIVED'
            rec['caught_by'] = caught
        finally:
            open(p, 'w', encoding='utf-8').write(orig)
            rec['seconds'] = round(time.time() - t0, 1)
            with open(a.out, 'a') as f:
                f.write(json.dumps(rec) + '\n')
            print('%4d %-9s %s:%d [%s] %s  ->  %s  (%s)' % (n, rec.get('status'), m['file'], m['line'], m['op'], m['from'][:60], m['to'][:60],
                                                           ','.join(c for c, _ in rec.get('caught_by', []))), flush=True)
    sh('git checkout -- .', R, 60)
    return 0


if __name__ == '__main__':
    sys.exit(main())
