#!/usr/bin/env python3
"""tools/keep_seed.py <id> <property> <outdir> <needs...> -- archive a confirmed seeded change under seeded/<id>/"""
import json, os, shutil, sys
sid, prop, out = sys.argv[1:4]
needs = ' '.join(sys.argv[4:])
d = os.path.join('/verif/seeded', sid)
os.makedirs(d, exist_ok=True)
for f in ('patch.diff', 'demo_test.rs', 'demo.rock', 'demo.sh', 'notes.md'):
    p = os.path.join(out, f)
    if os.path.exists(p):
        shutil.copy(p, d)
meta = {'breaks_property': prop, 'needs_to_manifest': needs,
        'confirmed': 'tools/confirm_seed.sh: existing suite unchanged (217 pass / same 10 fail) with the change; the demonstration fails with the change and passes without it',
        'checks_run': 'tools/try_seed.sh seeded/%s/patch.diff %s (+ neighbours): see DESIGN.md §10 for which checks raise the alarm' % (sid, prop),
        'origin': 'written by an independent sub-agent that saw only the property text and a scratch worktree (nothing from /verif)'}
json.dump(meta, open(os.path.join(d, 'meta.json'), 'w'), indent=1)
print('kept', d)
