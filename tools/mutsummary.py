#!/usr/bin/env python3
"""tools/mutsummary.py [results.jsonl ...] -- summary of mutation campaigns (see tools/mutate.py)"""
import collections, glob, json, sys
files = sys.argv[1:] or glob.glob('/root/.vp/runs/*/verif/work/mutation/results.jsonl')
c = collections.Counter()
surv = []
for f in files:
    for l in open(f):
        d = json.loads(l)
        c[d.get('status')] += 1
        if d.get('status') == 'SURVIVED':
            surv.append(d)
print(dict(c))
for d in surv:
    print('%s:%d [%s]\n    - %s\n    + %s' % (d['file'], d['line'], d['op'], d['from'][:150], d['to'][:150]))
