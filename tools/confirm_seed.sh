#!/bin/bash
# usage: tools/confirm_seed.sh <worktree> <outdir>  — confirm a seeded change: suite unchanged, demo fails with / passes without
W=$1; O=$2
cd $W || exit 9
export CARGO_NET_OFFLINE=true
git checkout -q -- . ; git apply $O/patch.diff || { echo "patch does not apply"; exit 9; }
echo "suite with change: $(cargo test --workspace --no-fail-fast --offline 2>&1 | grep -E '^test result' | awk '{p+=$4; f+=$6} END {print p" passed, "f" failed"}')"
if [ -f $O/demo_test.rs ]; then
  cp $O/demo_test.rs tests/demo_test.rs
  echo "demo with change:    $(cargo test --test demo_test --offline 2>&1 | grep -E '^test result' | head -1)"
  git apply -R $O/patch.diff   # (not git stash: the stash stack is shared between worktrees)
  echo "demo without change: $(cargo test --test demo_test --offline 2>&1 | grep -E '^test result' | head -1)"
  git apply $O/patch.diff
  rm -f tests/demo_test.rs
elif [ -f $O/demo.sh ]; then
  cargo build --offline 2>&1 | tail -1
  (bash $O/demo.sh >/dev/null 2>&1; echo "demo with change: exit $?")
  git apply -R $O/patch.diff; cargo build --offline 2>&1 | tail -1
  (bash $O/demo.sh >/dev/null 2>&1; echo "demo without change: exit $?")
  git apply $O/patch.diff
fi
git status --short | head -5
