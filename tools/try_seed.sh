#!/bin/bash
# usage: tools/try_seed.sh [-R] <patch> <Cxx> [Cxx...]   apply a change to /repo, run the checks, undo it
R=""; if [ "$1" == "-R" ]; then R="-R"; shift; fi
P=$1; shift
cd /verif
git -C /repo diff --quiet || { echo "/repo has uncommitted changes"; exit 9; }
git -C /repo apply $R "$P" || exit 9
for c in "$@"; do
  ./check $c --tier quick 2>&1 | grep -E "VIOLATION|CHECK FAILED|quick:" | cut -c1-220
done
git -C /repo checkout -- .
(cd /verif/harness && CARGO_NET_OFFLINE=true cargo build --offline 2>&1 | grep -E "^error" | head -3)
(cd /repo && CARGO_NET_OFFLINE=true cargo build --offline 2>&1 | grep -E "^error" | head -3)
