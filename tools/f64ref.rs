// Reference data for Rrss/F64.lean: what Rust's f64 Display / FromStr / casts / rounding do.
// Build: rustc -O /tmp/f64work/ref.rs -o /tmp/f64work/ref
// Run:   /tmp/f64work/ref OUTDIR        (default OUTDIR = /tmp/f64work/data)
// Writes OUTDIR/display.txt, parse.txt, conv.txt (read by lean/TestF64.lean).
//
// display.txt : `BITS TEXT`          TEXT = format!("{}", f64::from_bits(BITS))
// parse.txt   : `xHEX RESULT`        HEX = UTF-8 bytes of the input, RESULT = BITS | none
// conv.txt    : `ofint INT BITS` | `tousize BITS N` | `toi64 BITS N`
//             | `round|trunc|floor|ceil BITS BITS` | `cmp BITS BITS lt|eq|gt|none` | `beq BITS BITS 0|1`
// BITS = 16 lowercase hex digits, every NaN written 7ff8000000000000.

use std::fmt::Write as _;
use std::fs::File;
use std::io::{BufWriter, Write};

struct Rng(u64);
impl Rng {
    fn next(&mut self) -> u64 {
        let mut x = self.0;
        x ^= x << 13;
        x ^= x >> 7;
        x ^= x << 17;
        self.0 = x;
        x
    }
    fn below(&mut self, n: u64) -> u64 {
        self.next() % n
    }
}

fn bits(x: f64) -> String {
    if x.is_nan() { "7ff8000000000000".to_string() } else { format!("{:016x}", x.to_bits()) }
}

fn hex(s: &str) -> String {
    let mut o = String::with_capacity(2 * s.len() + 1);
    o.push('x');
    for b in s.bytes() {
        write!(o, "{:02x}", b).unwrap();
    }
    o
}

fn parse_line(out: &mut impl Write, s: &str) {
    let r = match s.parse::<f64>() {
        Ok(x) => bits(x),
        Err(_) => "none".to_string(),
    };
    writeln!(out, "{} {}", hex(s), r).unwrap();
}

/// exact decimal expansion of a finite non-negative f64: (integer digits, fraction digits)
fn exact(x: f64) -> (Vec<u8>, Vec<u8>) {
    let s = format!("{:.1100}", x);
    let (i, f) = s.split_once('.').unwrap();
    (i.bytes().map(|b| b - b'0').collect(), f.bytes().map(|b| b - b'0').collect())
}

/// a + b on exact expansions (fraction parts have equal length 1100)
fn add(a: &(Vec<u8>, Vec<u8>), b: &(Vec<u8>, Vec<u8>)) -> String {
    let mut frac = vec![0u8; a.1.len()];
    let mut carry = 0u8;
    for i in (0..a.1.len()).rev() {
        let t = a.1[i] + b.1[i] + carry;
        frac[i] = t % 10;
        carry = t / 10;
    }
    let n = a.0.len().max(b.0.len());
    let mut int = vec![0u8; n];
    for i in 0..n {
        let da = if i < a.0.len() { a.0[a.0.len() - 1 - i] } else { 0 };
        let db = if i < b.0.len() { b.0[b.0.len() - 1 - i] } else { 0 };
        let t = da + db + carry;
        int[n - 1 - i] = t % 10;
        carry = t / 10;
    }
    let mut s = String::new();
    if carry > 0 {
        s.push((b'0' + carry) as char);
    }
    for d in int {
        s.push((b'0' + d) as char);
    }
    s.push('.');
    // trim trailing zeros of the fraction, keep at least one digit
    let mut end = frac.len();
    while end > 1 && frac[end - 1] == 0 {
        end -= 1;
    }
    for d in &frac[..end] {
        s.push((b'0' + d) as char);
    }
    s
}

fn main() {
    let dir = std::env::args().nth(1).unwrap_or_else(|| "/tmp/f64work/data".to_string());
    std::fs::create_dir_all(&dir).unwrap();
    let mut rng = Rng(0x9E3779B97F4A7C15);

    // ------------------------------------------------------------------ the values
    let mut vals: Vec<u64> = Vec::new();
    {
        let with_neighbours = |b: u64, vals: &mut Vec<u64>| {
            vals.push(b);
            vals.push(b.wrapping_add(1));
            vals.push(b.wrapping_sub(1));
            vals.push(b | (1 << 63));
        };
        for e in -1074..=1023i32 {
            let x = if e >= -1022 {
                f64::from_bits(((e + 1023) as u64) << 52)
            } else {
                f64::from_bits(1u64 << (e + 1074))
            };
            assert!(x == 2f64.powi(e) || e < -1022);
            with_neighbours(x.to_bits(), &mut vals);
        }
        for k in -323..=308i32 {
            let x: f64 = format!("1e{}", k).parse().unwrap();
            with_neighbours(x.to_bits(), &mut vals);
        }
        let specials: Vec<f64> = vec![
            0.0, -0.0, 5e-324, f64::from_bits(0x000f_ffff_ffff_ffff), f64::MAX, f64::MIN, f64::MIN_POSITIVE,
            f64::INFINITY, f64::NEG_INFINITY, f64::NAN, -f64::NAN, f64::from_bits(0x7ff0_0000_0000_0001),
            f64::from_bits(0xffff_ffff_ffff_ffff), 0.1 + 0.2, 1.0 / 3.0, 1e21, 1e22, 1e23,
            123456789012345680000.0, 0.000001, 0.3, 2.0 / 3.0, 1.5, 100.0, 1e15, 1e16, 1e17,
            9007199254740992.0, 9007199254740993.0, 9007199254740994.0, 4503599627370496.5, 0.5, 0.25,
            1e-5, 1e-6, 1e-7, 123456.789, f64::EPSILON, std::f64::consts::PI, std::f64::consts::E,
            2.2250738585072011e-308, 2.2250738585072014e-308, 4.35, 0.285, 1.005, 5e-324 * 3.0,
            9.5367431640625e-7, 2.98023223876953125e-8, 1.7976931348623157e308, 8.98846567431158e307,
            18446744073709551615.0, 9223372036854775807.0, -9223372036854775808.0, 4294967296.0,
        ];
        for x in specials {
            vals.push(x.to_bits());
        }
    }
    let n_fixed = vals.len();
    // random bit patterns
    for _ in 0..200_000 {
        vals.push(rng.next());
    }
    // random "human" numbers: integers and short decimals (short shortest-representations)
    for _ in 0..50_000 {
        let d = 1 + rng.below(17) as u32;
        let m = rng.below(10u64.pow(d));
        let j = rng.below(25) as i32;
        let neg = rng.below(4) == 0;
        let s = format!("{}{}e-{}", if neg { "-" } else { "" }, m, j);
        let x: f64 = s.parse().unwrap();
        vals.push(x.to_bits());
    }
    for _ in 0..20_000 {
        // integers of random size, exactly representable or not
        let sh = rng.below(64) as u32;
        let x = (rng.next() >> sh) as f64;
        vals.push(x.to_bits());
    }

    // ------------------------------------------------------------------ display.txt
    {
        let mut out = BufWriter::new(File::create(format!("{}/display.txt", dir)).unwrap());
        for &b in &vals {
            let x = f64::from_bits(b);
            let s = format!("{}", x);
            // sanity of the reference itself: Display round-trips
            let back: f64 = s.parse().unwrap();
            assert!(back.to_bits() == b || x.is_nan());
            writeln!(out, "{} {}", bits(x), s).unwrap();
        }
    }

    // ------------------------------------------------------------------ parse.txt
    {
        let mut out = BufWriter::new(File::create(format!("{}/parse.txt", dir)).unwrap());
        // scientific renderings
        for (i, &b) in vals.iter().enumerate() {
            let x = f64::from_bits(b);
            let s = if i % 2 == 0 { format!("{:e}", x) } else { format!("{:E}", x) };
            parse_line(&mut out, &s);
            if i < n_fixed || i % 16 == 0 {
                // over-long renderings of the same value (exact digits beyond the shortest)
                parse_line(&mut out, &format!("{:.25e}", x));
                parse_line(&mut out, &format!("{:.40}", x));
                parse_line(&mut out, &format!("+{:.17e}", x));
            }
        }
        // halfway cases: exact midpoint between x and its successor, a hair above, a hair below
        let mut mids: Vec<u64> = vec![
            0, 1, 2, 0x000f_ffff_ffff_ffff, 0x0010_0000_0000_0000, 0x000f_ffff_ffff_fffe, 0x3ff0_0000_0000_0000,
            0x3fef_ffff_ffff_ffff, 0x4340_0000_0000_0000, 0x433f_ffff_ffff_ffff, 0x7fef_ffff_ffff_fffe,
            0x7fe0_0000_0000_0000, 0x7fdf_ffff_ffff_ffff,
        ];
        for _ in 0..3000 {
            let b = rng.next() & 0x7fff_ffff_ffff_ffff;
            if b < 0x7fef_ffff_ffff_ffff {
                mids.push(b);
            }
        }
        for _ in 0..500 {
            mids.push(rng.below(1 << 53)); // subnormals and the first binade
            mids.push((rng.below(2046) << 52) | 0x000f_ffff_ffff_ffff); // binade ends
            mids.push(rng.below(2046) << 52); // binade starts
        }
        let mut n_mid = 0;
        for &b in &mids {
            let x = f64::from_bits(b);
            let y = f64::from_bits(b + 1);
            if !y.is_finite() {
                continue;
            }
            let ulp = y - x; // exact
            let ex = exact(x);
            // half an ulp need not be a double: divide the exact expansion by 2 by hand
            let half = {
                let e = exact(ulp);
                let mut all: Vec<u8> = e.0.iter().chain(e.1.iter()).cloned().collect();
                let mut rem = 0u8;
                for d in all.iter_mut() {
                    let t = rem * 10 + *d;
                    *d = t / 2;
                    rem = t % 2;
                }
                assert_eq!(rem, 0); // 1075 fraction digits suffice for 2^-1075
                let il = e.0.len();
                (all[..il].to_vec(), all[il..].to_vec())
            };
            let mid = add(&ex, &half);
            // below: last significant digit of `half` (a 5) replaced by 4, then 9s
            let mut below_half = half.clone();
            {
                let all_len = below_half.1.len();
                let mut done = false;
                for i in (0..all_len).rev() {
                    if below_half.1[i] != 0 {
                        below_half.1[i] -= 1;
                        done = true;
                        break;
                    }
                }
                if !done {
                    // half is an integer: subtract 1 from the integer part via fraction .999 trick is
                    // not needed; use x + (half - 1) which is still > x when half >= 2
                    let mut i = below_half.0.len();
                    loop {
                        i -= 1;
                        if below_half.0[i] > 0 {
                            below_half.0[i] -= 1;
                            break;
                        } else {
                            below_half.0[i] = 9;
                        }
                    }
                }
            }
            let below = add(&ex, &below_half);
            let above = format!("{}1", mid); // mid always has a '.' so this appends a digit
            let pm: f64 = mid.parse().unwrap();
            let pa: f64 = above.parse().unwrap();
            let pb: f64 = below.parse().unwrap();
            // sanity of the reference: ties to even, above -> y, below -> x
            assert_eq!(pm.to_bits(), if b % 2 == 0 { b } else { b + 1 }, "mid {}", mid);
            assert_eq!(pa.to_bits(), b + 1);
            assert_eq!(pb.to_bits(), b, "below {}", below);
            parse_line(&mut out, &mid);
            parse_line(&mut out, &above);
            parse_line(&mut out, &below);
            parse_line(&mut out, &format!("-{}", mid));
            // more than 800 significant digits: the decision sits far behind the halfway digits
            let above_long = format!("{}{}1", mid, "0".repeat(850));
            let below_long = format!("{}{}", below, "9".repeat(850));
            let pal: f64 = above_long.parse().unwrap();
            let pbl: f64 = below_long.parse().unwrap();
            assert_eq!(pal.to_bits(), b + 1);
            assert_eq!(pbl.to_bits(), b);
            parse_line(&mut out, &above_long);
            parse_line(&mut out, &below_long);
            parse_line(&mut out, &format!("{}{}", mid, "0".repeat(850))); // still the exact tie
            // the same in scientific clothing: shift the point with an exponent
            parse_line(&mut out, &format!("{}e{}", mid.replace('.', ""), -((mid.len() - 1 - mid.find('.').unwrap()) as i64)));
            n_mid += 1;
        }
        eprintln!("halfway triples: {}", n_mid);
        // halfway between MAX and 2^1024 (-> inf by ties-to-even), just below (-> MAX)
        parse_line(&mut out, "179769313486231580793728971405303415079934132710037826936173778980444968292764750946649017977587207096330286416692887910946555547851940402630657488671505820681908902000708383676273854845817711531764475730270069855571366959622842914819860834936475292719074168444365510704342711559699508093042880177904174497792");
        parse_line(&mut out, "179769313486231580793728971405303415079934132710037826936173778980444968292764750946649017977587207096330286416692887910946555547851940402630657488671505820681908902000708383676273854845817711531764475730270069855571366959622842914819860834936475292719074168444365510704342711559699508093042880177904174497791");
        parse_line(&mut out, "179769313486231580793728971405303415079934132710037826936173778980444968292764750946649017977587207096330286416692887910946555547851940402630657488671505820681908902000708383676273854845817711531764475730270069855571366959622842914819860834936475292719074168444365510704342711559699508093042880177904174497791.9999");
        // random decimal strings
        for _ in 0..150_000 {
            let maxd = if rng.below(8) == 0 { 60 } else { 22 };
            let nd = 1 + rng.below(maxd) as usize;
            let mut s = String::new();
            match rng.below(6) {
                0 => s.push('-'),
                1 => s.push('+'),
                _ => {}
            }
            let dot = rng.below(nd as u64 + 2) as usize; // position of the point; > nd: none
            for i in 0..nd {
                if i == dot {
                    s.push('.');
                }
                s.push((b'0' + rng.below(10) as u8) as char);
            }
            if dot == nd {
                s.push('.');
            }
            match rng.below(4) {
                0 => {}
                1 => write!(s, "e{}", rng.below(40) as i64 - 20).unwrap(),
                2 => write!(s, "E{:+}", rng.below(700) as i64 - 350).unwrap(),
                _ => write!(s, "e{}", rng.below(60) as i64 - 30 - nd as i64).unwrap(),
            }
            parse_line(&mut out, &s);
        }
        // near the overflow / underflow thresholds
        for _ in 0..20_000 {
            let nd = 1 + rng.below(20) as usize;
            let mut s = String::new();
            for i in 0..nd {
                let d = if i == 0 { 1 + rng.below(9) } else { rng.below(10) };
                s.push((b'0' + d as u8) as char);
                if i == 0 && nd > 1 {
                    s.push('.');
                }
            }
            let e = match rng.below(4) {
                0 => 306 + rng.below(5) as i64,
                1 => -(320 + rng.below(8) as i64),
                2 => -(305 + rng.below(6) as i64),
                _ => rng.below(900) as i64 - 450,
            };
            write!(s, "e{}", e).unwrap();
            parse_line(&mut out, &s);
        }
        // the listed cases
        let listed: Vec<&str> = vec![
            // long digit strings and thresholds
            "9007199254740993", "9007199254740992.5", "9007199254740993.0000000000000000000000000000000000000001",
            "9007199254740994.99999999999999999999999999999999999999999", "9007199254740995",
            "1.00000000000000011102230246251565404236316680908203125",
            "1.000000000000000111022302462515654042363166809082031251",
            "1.00000000000000011102230246251565404236316680908203124999999999999999999999999999999999",
            "1.00000000000000033306690738754696212708950042724609375",
            "1.000000000000000333066907387546962127089500427246093751",
            "1e400", "-1e-400", "1e309", "1e308", "1.7976931348623157e308", "1.7976931348623158e308",
            "1.7976931348623159e308", "1.797693134862315807e308", "1.797693134862315808e308", "-1e309",
            "2.2250738585072011e-308", "2.2250738585072012e-308", "2.2250738585072014e-308",
            "4.9406564584124654e-324", "2.4703282292062327e-324", "2.4703282292062328e-324",
            "2.4703282292062327208051355972539706e-324", "2.470328229206232720882843964341106861825299013071623822127928412503377536351043e-324",
            "7.4109846876186981626485318930233205854758970392148714663837852375101326090531312779794975454245398856969484704316857659638998506553390969459816219401617281718945106978546710679176872575177347315553307795408549809608457500958111373034747658096871009590975442271004757307809711118935784838675653998783503015228055934046593739791790738712400730787084028e-324",
            "1e-323", "1e-324", "3e-324", "1e-400", "0.1", "0.2", "0.3", "123456789012345680000", "0.000001",
            "100000000000000000000000", "1000000000000000000000", "8.5", "0.1e1", "12345678901234567890123456789012345678901234567890",
            "0.00000000000000000000000000000000000000000000000012345678901234567890123456789012345678901234567890",
            "1e65535", "1e65536", "1e-65536", "1e65537", "1e655360", "1e-655360", "1e99999999999999999999", "1e-99999999999999999999",
            "0.1e99999999999999999999", "0e99999999999999999999", "0.0e-99999999999999999999", "-0e5", "-0.0", "0", "0.0", "-0",
            "00000000000000000000000000000000000000000000000000000000000000000001", "0.00000", "000.000e000",
            // valid oddities
            "+5", "5.", ".5", "1E5", "INF", "-Infinity", "NaN", "-nan", "00012", "1e-0", "0e999999999",
            "1e0000000000000000000001", "+inf", "+nan", "+NaN", "iNf", "InFiNiTy", "INFINITY", "-INF", "nAn", "+.5", "-.5", "-5.",
            "+5.e3", ".5e1", "5.e-1", "1e+5", "1E+05", "1e-05", "+0", "+0.0e+0", "1.e1", "0.e0", ".0", "0.", ".0e5",
            // invalid
            "", ".", "+", "-", "e5", "1e", "1e+", " 1", "1 ", "1_0", "0x10", "infinit", "nan1", "1..2", "1.2.3", "٣",
            "1e-", "+-1", "--1", "++1", "-+1", "1-", "1+", "1e5.5", "1e5e5", "1e 5", "1 e5", ".e5", "+.", "-.", "+.e1", "e", "E",
            "+e5", "-e5", ".e", "1f", "1.0f", "1d", "1,5", "1.5,", "١", "１", "1１", "inf ", " inf", "infinityy", "in", "i", "n", "na",
            "nano", "-infinit", "+infinityx", "inf1", "1inf", "nan.", "NaN()", "nan(1)", "+ inf", "- 1", "1\n", "\n1", "1\0", "\01",
            "1e٣", "1.٣", "0b1", "0o7", "1e1_0", "1__", "_1", "1.5e", "1.5e+", "1.5e-", "1.5E", "ınf", "İnf", "ſ", "infinıty",
            "1é", "é", "−1", "1e−5", "1⁄2", "1.5.", "..5", "5..", "1e.5", "1e5.", "0x", "0x1p3", "1p3", "1e0x1", "1'000", "١٢٣", "NaNa", "Na N",
            "INFINIT", "INFINITYY", "infinity\0", "inf\0\0\0\0\0", "in\u{66}", "\u{69}nf", "\u{130}NF", "i\u{20}f",
        ];
        for s in &listed {
            parse_line(&mut out, s);
        }
        // random junk: mutate valid strings by inserting / replacing a character
        let alphabet: Vec<char> = "0123456789+-.eE infatyINFATY_x,٣é".chars().collect();
        for _ in 0..50_000 {
            let len = rng.below(7) as usize;
            let mut s = String::new();
            for _ in 0..len {
                s.push(alphabet[rng.below(alphabet.len() as u64) as usize]);
            }
            parse_line(&mut out, &s);
        }
        let grammar: Vec<char> = "0019+-.eE".chars().collect();
        for _ in 0..50_000 {
            let len = 1 + rng.below(9) as usize;
            let mut s = String::new();
            for _ in 0..len {
                s.push(grammar[rng.below(grammar.len() as u64) as usize]);
            }
            parse_line(&mut out, &s);
        }
        // random long digit strings (beyond the 800 accumulated digits)
        for _ in 0..2000 {
            let nd = 700 + rng.below(600) as usize;
            let dot = rng.below(nd as u64 + 1) as usize;
            let mut s = String::new();
            for i in 0..nd {
                if i == dot {
                    s.push('.');
                }
                let d = if rng.below(3) == 0 { 0 } else { rng.below(10) };
                s.push((b'0' + d as u8) as char);
            }
            if rng.below(2) == 0 {
                write!(s, "e{}", rng.below(2400) as i64 - 1200 - dot as i64 + nd as i64 / 2).unwrap();
            }
            parse_line(&mut out, &s);
        }
        // very long inputs
        let long1 = format!("0.{}1e70001", "0".repeat(70000)); // = 1
        parse_line(&mut out, &long1);
        let long2 = format!("1{}e-70000", "0".repeat(70000)); // = 1
        parse_line(&mut out, &long2);
        let long3 = format!("{}", "9".repeat(20000)); // inf
        parse_line(&mut out, &long3);
        let long4 = format!("0.{}", "3".repeat(20000));
        parse_line(&mut out, &long4);
        let long5 = format!("{}.5e-4990", "7".repeat(5000));
        parse_line(&mut out, &long5);
        // the exponent accumulator of dec2flt saturates at >= 0x10000: mathematically this is 1
        let long6 = format!("0.{}1e700000", "0".repeat(699999));
        parse_line(&mut out, &long6);
        let long7 = format!("1{}e-700000", "0".repeat(700000));
        parse_line(&mut out, &long7);
    }

    // ------------------------------------------------------------------ conv.txt
    {
        let mut out = BufWriter::new(File::create(format!("{}/conv.txt", dir)).unwrap());
        // ofInt
        let mut ints: Vec<i128> = vec![0, 1, -1, 2, -2, 10, 255, i64::MAX as i128, i64::MIN as i128, u64::MAX as i128,
            i64::MAX as i128 - 1, i64::MIN as i128 + 1, u64::MAX as i128 - 1, u64::MAX as i128 + 1, i128::MAX, i128::MIN,
            i128::MAX - 1, i128::MIN + 1, (1i128 << 53) - 1, 1i128 << 53, (1i128 << 53) + 1, (1i128 << 53) + 2, (1i128 << 53) + 3,
            (1i128 << 54) + 1, (1i128 << 54) + 2, (1i128 << 54) + 3, (1i128 << 54) + 5, (1i128 << 54) + 6, (1i128 << 54) + 7,
            (1i128 << 63) - 1, 1i128 << 63, (1i128 << 63) + 1, (1i128 << 64) - 1, 1i128 << 64, (1i128 << 64) + 1,
            (1i128 << 63) - 512, (1i128 << 63) - 513, (1i128 << 63) - 511, (1i128 << 64) - 1024, (1i128 << 64) - 1025, (1i128 << 64) - 1023,
            (1i128 << 64) + 2048, (1i128 << 64) + 2049, (1i128 << 64) + 2047, (1i128 << 64) + 6144, 9007199254740993, -9007199254740993,
            123456789012345678, -123456789012345678,
        ];
        for k in 0..127 {
            for d in -3..=3i128 {
                ints.push((1i128 << k) + d);
                ints.push(-((1i128 << k) + d));
                // exact ties at every scale
                if k >= 54 {
                    ints.push((1i128 << k) + (1i128 << (k - 53)) + d);
                    ints.push((1i128 << k) + 3 * (1i128 << (k - 53)) + d);
                }
            }
        }
        for _ in 0..30_000 {
            let sh = rng.below(128) as u32;
            let v = (((rng.next() as u128) << 64) | rng.next() as u128) >> sh;
            ints.push(v as i128);
        }
        for &n in &ints {
            writeln!(out, "ofint {} {}", n, bits(n as f64)).unwrap();
        }
        // u128 beyond i128 (ofInt is for any Int): u128 as f64 saturates/rounds correctly too
        for &n in &[u128::MAX, u128::MAX - 1, (1u128 << 127) + 1, (1u128 << 127) + (1u128 << 74), (1u128 << 127) + (1u128 << 74) + 1] {
            writeln!(out, "ofint {} {}", n, bits(n as f64)).unwrap();
        }
        // float -> int casts, rounding functions
        let mut fs: Vec<f64> = vec![
            0.0, -0.0, 0.5, -0.5, 1.5, -1.5, 2.5, -2.5, 3.5, -3.5, 0.49999999999999994, -0.49999999999999994,
            0.5000000000000001, 0.9999999999999999, -0.9999999999999999, 1.0, -1.0, 1.0000000000000002, 5e-324, -5e-324,
            f64::MIN_POSITIVE, f64::MAX, f64::MIN, f64::INFINITY, f64::NEG_INFINITY, f64::NAN, -f64::NAN,
            4503599627370495.5, 4503599627370496.5, 4503599627370497.5, -4503599627370495.5, 4503599627370496.0,
            2251799813685247.5, 2251799813685248.5, 9007199254740991.0, 9007199254740992.0, 9007199254740994.0,
            9223372036854775807.0, 9223372036854775808.0, 9223372036854774784.0, 9223372036854777856.0,
            -9223372036854775808.0, -9223372036854777856.0, -9223372036854774784.0,
            18446744073709551615.0, 18446744073709551616.0, 18446744073709549568.0, 18446744073709555712.0,
            4294967295.0, 4294967296.0, 4294967295.5, -4294967296.5, 1e19, 1e20, -1e19, 1e300, -1e300, 3.99, -3.99, 255.999,
            0.1, -0.1, 1e-300, -1e-300, 123456789.987654321, -123456789.987654321, 2147483647.5, -2147483648.5,
        ];
        for _ in 0..20_000 {
            fs.push(f64::from_bits(rng.next()));
        }
        for _ in 0..20_000 {
            // magnitudes around the integer / half-integer range
            let e = rng.below(70) as i32 - 3;
            let x = (rng.next() >> 11) as f64 / (1u64 << 53) as f64 * 2f64.powi(e);
            fs.push(if rng.below(2) == 0 { x } else { -x });
        }
        for _ in 0..5_000 {
            // exact halves
            let n = (rng.next() >> (12 + rng.below(50))) as f64;
            let x = n + 0.5;
            fs.push(if rng.below(2) == 0 { x } else { -x });
        }
        for &x in &fs {
            writeln!(out, "tousize {} {}", bits(x), x as usize).unwrap();
            writeln!(out, "toi64 {} {}", bits(x), x as i64).unwrap();
            writeln!(out, "round {} {}", bits(x), bits(x.round())).unwrap();
            writeln!(out, "trunc {} {}", bits(x), bits(x.trunc())).unwrap();
            writeln!(out, "floor {} {}", bits(x), bits(x.floor())).unwrap();
            writeln!(out, "ceil {} {}", bits(x), bits(x.ceil())).unwrap();
        }
        // comparisons
        let cs: Vec<f64> = vec![0.0, -0.0, 1.0, -1.0, f64::NAN, f64::INFINITY, f64::NEG_INFINITY, 5e-324, -5e-324, f64::MAX, 1.5, 2.0];
        let mut pairs: Vec<(f64, f64)> = Vec::new();
        for &a in &cs {
            for &b in &cs {
                pairs.push((a, b));
            }
        }
        for _ in 0..5_000 {
            let a = f64::from_bits(rng.next());
            let b = if rng.below(3) == 0 { a } else { f64::from_bits(rng.next()) };
            pairs.push((a, b));
        }
        for &(a, b) in &pairs {
            let c = match a.partial_cmp(&b) {
                Some(std::cmp::Ordering::Less) => "lt",
                Some(std::cmp::Ordering::Equal) => "eq",
                Some(std::cmp::Ordering::Greater) => "gt",
                None => "none",
            };
            // compare on raw bits here (NaN canonicalised only in the text)
            writeln!(out, "cmp {} {} {}", bits(a), bits(b), c).unwrap();
            writeln!(out, "beq {} {} {}", bits(a), bits(b), if a == b { 1 } else { 0 }).unwrap();
        }
    }
    eprintln!("values: {} ({} fixed)", vals.len(), n_fixed);
}
