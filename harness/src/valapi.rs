//! The `val` request: direct calls of the public `Val` API.
//!
//! ARRAY ENCODING ROUTE: the fields of `rrss::exec::val::Array` are private and the
//! dictionary part cannot be iterated through the public API, so a `Val` is turned back into
//! the protocol encoding by parsing its derived `{:?}` text (`Undefined`, `Null`,
//! `Boolean(b)`, `Number(f)`, `String("…")`, `Array(Array { arr: [..], dict: {K: V, ..} })`,
//! keys `Undefined | Null | Boolean(b) | String("…")`). Numbers are recovered with
//! `str::parse::<f64>` (the `Debug` text of an f64 round-trips; NaN is canonicalised by the
//! encoder). The length of every sequence is cross-checked against the public `decay()`
//! at the top level. If the text cannot be parsed the answer is `crash harness:valdebug`
//! (a harness defect, never a library one). The probing fallback was not needed.

use std::cmp::Ordering;
use std::collections::VecDeque;

use rrss::exec::val::{Array, Val, ValError};

use crate::enc::{variant_name, xhex, K, V};

// ---------------------------------------------------------------- V → Val

fn key_val(k: &K) -> Val {
    match k {
        K::U => Val::Undefined,
        K::N => Val::Null,
        K::B(b) => Val::Boolean(*b),
        K::S(s) => Val::from(s.as_str()),
    }
}

pub fn build(v: &V) -> Val {
    match v {
        V::U => Val::Undefined,
        V::N => Val::Null,
        V::B(b) => Val::Boolean(*b),
        V::Num(n) => Val::Number(*n),
        V::S(s) => Val::from(s.as_str()),
        V::A(seq, dict) => {
            let mut a: Val = Array::with_arr(seq.iter().map(build).collect::<VecDeque<_>>()).into();
            for (k, v) in dict {
                *a.index_or_insert(&key_val(k)).expect("dictionary key") = build(v);
            }
            a
        }
    }
}

// ---------------------------------------------------------------- Val → V (Debug text)

struct DebugParser<'a> {
    s: &'a str,
}

impl<'a> DebugParser<'a> {
    fn eat(&mut self, lit: &str) -> bool {
        match self.s.strip_prefix(lit) {
            Some(rest) => {
                self.s = rest;
                true
            }
            None => false,
        }
    }
    fn expect(&mut self, lit: &str) -> Option<()> {
        self.eat(lit).then(|| ())
    }
    fn boolean(&mut self) -> Option<bool> {
        let b = if self.eat("true") { true } else { self.expect("false").map(|_| false)? };
        self.expect(")")?;
        Some(b)
    }
    /// A `str` in `Debug` form, the opening quote included.
    fn next_char(&mut self) -> Option<char> {
        let c = self.s.chars().next()?;
        self.s = &self.s[c.len_utf8()..];
        Some(c)
    }
    /// A `str` in `Debug` form (`char::escape_debug` escapes), the quotes included.
    fn string(&mut self) -> Option<String> {
        self.expect("\"")?;
        let mut out = String::new();
        loop {
            match self.next_char()? {
                '"' => return Some(out),
                '\\' => match self.next_char()? {
                    'n' => out.push('\n'),
                    'r' => out.push('\r'),
                    't' => out.push('\t'),
                    '0' => out.push('\0'),
                    'u' => {
                        self.expect("{")?;
                        let len = self.s.find('}')?;
                        let code = u32::from_str_radix(&self.s[..len], 16).ok()?;
                        out.push(char::from_u32(code)?);
                        self.s = &self.s[len + 1..];
                    }
                    c @ ('\\' | '"' | '\'') => out.push(c),
                    _ => return None,
                },
                c => out.push(c),
            }
        }
    }
    /// `item, item, …` up to the closing literal.
    fn list<T>(&mut self, close: &str, mut item: impl FnMut(&mut Self) -> Option<T>) -> Option<Vec<T>> {
        let mut items = Vec::new();
        if self.eat(close) {
            return Some(items);
        }
        loop {
            items.push(item(self)?);
            if self.eat(close) {
                return Some(items);
            }
            self.expect(", ")?;
        }
    }
    fn key(&mut self) -> Option<K> {
        if self.eat("Undefined") {
            Some(K::U)
        } else if self.eat("Null") {
            Some(K::N)
        } else if self.eat("Boolean(") {
            self.boolean().map(K::B)
        } else if self.eat("String(") {
            let s = self.string()?;
            self.expect(")")?;
            Some(K::S(s))
        } else {
            None
        }
    }
    fn val(&mut self) -> Option<V> {
        if self.eat("Number(") {
            let len = self.s.find(')')?;
            let n = self.s[..len].parse::<f64>().ok()?;
            self.s = &self.s[len + 1..];
            Some(V::Num(n))
        } else if self.eat("Array(Array { arr: [") {
            let seq = self.list("]", Self::val)?;
            self.expect(", dict: {")?;
            let dict = self.list("}", |p| {
                let k = p.key()?;
                p.expect(": ")?;
                Some((k, p.val()?))
            })?;
            self.expect(" })")?;
            Some(V::A(seq, dict))
        } else {
            self.key().map(|k| match k {
                K::U => V::U,
                K::N => V::N,
                K::B(b) => V::B(b),
                K::S(s) => V::S(s),
            })
        }
    }
}

/// Observes a `Val` through its `Debug` text.
pub fn observe(val: &Val) -> Option<V> {
    let text = format!("{:?}", val);
    let mut p = DebugParser { s: &text };
    let v = p.val()?;
    let consistent = match (&v, val.decay().as_ref()) {
        (V::A(seq, _), Val::Number(len)) => seq.len() as f64 == *len,
        (V::A(..), _) => false,
        _ => true,
    };
    (p.s.is_empty() && consistent).then(|| v)
}

fn enc(val: &Val) -> String {
    observe(val).map_or_else(|| "crash harness:valdebug".to_string(), |v| v.encode())
}

// ---------------------------------------------------------------- the operations

fn err_class(e: &ValError) -> String {
    format!("err:{}", variant_name(e))
}

/// `A` after a mutating operation, or `err:CLASS`.
fn mutated(a: Val, r: Result<(), ValError>) -> String {
    r.map_or_else(|e| err_class(&e), |_| enc(&a))
}

/// Optional parameter: `-` is absent.
fn param(field: &str) -> Option<Option<Val>> {
    if field == "-" {
        Some(None)
    } else {
        V::decode(field).map(|v| Some(build(&v)))
    }
}

/// Answers `val OP args…`; `None` for an unknown or malformed request.
pub fn val_request(op: &str, args: &[&str]) -> Option<String> {
    let arg = |i: usize| args.get(i).and_then(|f| V::decode(f));
    let val = |i: usize| arg(i).map(|v| build(&v));
    let arity = |n: usize| (args.len() == n).then(|| ());
    let bool_letter = |b: bool| if b { "t" } else { "f" }.to_string();
    Some(match op {
        "plus" | "subtract" | "multiply" | "divide" => {
            arity(2)?;
            let (a, b) = (val(0)?, val(1)?);
            enc(&match op {
                "plus" => a.plus(&b),
                "subtract" => a.subtract(&b),
                "multiply" => a.multiply(&b),
                _ => a.divide(&b),
            })
        }
        "equals" => {
            arity(2)?;
            bool_letter(val(0)?.equals(&val(1)?))
        }
        "compare" => {
            arity(2)?;
            match val(0)?.compare(&val(1)?) {
                Ok(Some(Ordering::Less)) => "lt",
                Ok(Some(Ordering::Equal)) => "eq",
                Ok(Some(Ordering::Greater)) => "gt",
                Ok(None) => "none",
                Err(_) => "err",
            }
            .to_string()
        }
        "negate" => {
            arity(1)?;
            val(0)?.negate().map_or_else(|_| "err".to_string(), |v| enc(&v))
        }
        "truthy" => {
            arity(1)?;
            bool_letter(val(0)?.is_truthy())
        }
        "out" => {
            arity(1)?;
            xhex(&val(0)?.to_string_for_output())
        }
        "display" => {
            arity(1)?;
            xhex(&val(0)?.to_string())
        }
        "inc" => {
            arity(2)?;
            let (mut a, k) = (val(0)?, args[1].parse::<isize>().ok()?);
            a.inc(k).map_or_else(|_| "err".to_string(), |_| enc(&a))
        }
        "index" => {
            arity(2)?;
            let (a, b) = (val(0)?, val(1)?);
            let r = a.index(&b).map(|v| enc(&v));
            r.unwrap_or_else(|e| err_class(&e))
        }
        "store" => {
            arity(3)?;
            let (mut a, b, c) = (val(0)?, val(1)?, val(2)?);
            let r = a.index_or_insert(&b).map(|slot| *slot = c);
            mutated(a, r)
        }
        "push" => {
            arity(2)?;
            let (mut a, b) = (val(0)?, arg(1)?);
            let V::A(seq, _) = b else { return None };
            let r = a.push(seq.iter().map(build));
            mutated(a, r)
        }
        "pop" => {
            arity(1)?;
            let mut a = val(0)?;
            match a.pop() {
                Ok(popped) => format!("{} {}", enc(&popped), enc(&a)),
                Err(_) => "err".to_string(),
            }
        }
        "split" | "join" | "cast" => {
            arity(2)?;
            let (mut a, p) = (val(0)?, param(args[1])?);
            let r = match op {
                "split" => a.split(p),
                "join" => a.join(p),
                _ => a.cast(p),
            };
            mutated(a, r)
        }
        "round" => {
            arity(2)?;
            let mut a = val(0)?;
            let r = match args[1] {
                "up" => a.round_up(),
                "down" => a.round_down(),
                "nearest" => a.round_nearest(),
                _ => return None,
            };
            r.map_or_else(|_| "err".to_string(), |_| enc(&a))
        }
        _ => return None,
    })
}

#[cfg(test)]
mod tests {
    use super::*;

    /// The `Debug` route is exact for every Unicode scalar value, as element and as key.
    #[test]
    fn debug_route_round_trips_every_char() {
        let chars: Vec<char> = (0..=0x10FFFFu32).filter_map(char::from_u32).collect();
        for chunk in chars.chunks(4096) {
            let text: String = chunk.iter().collect();
            let seq = chunk.iter().map(|c| V::S(c.to_string())).collect();
            let v = V::A(seq, vec![(K::S(text.clone()), V::S(text))]);
            assert_eq!(observe(&build(&v)), Some(v));
        }
    }

    #[test]
    fn debug_route_round_trips_numbers_and_nesting() {
        let specials = [0u64, 1, 1 << 63, 0x7ff0 << 48, 0xfff0 << 48, 0x7fef_ffff_ffff_ffff, 0x3fb9_9999_9999_999a];
        let mut state = 0x9e37_79b9_7f4a_7c15u64;
        let random = std::iter::repeat_with(|| {
            state = state.wrapping_mul(6364136223846793005).wrapping_add(1442695040888963407);
            state
        });
        let nums: Vec<V> = specials
            .into_iter()
            .chain(random.take(100_000))
            .map(f64::from_bits)
            .filter(|f| !f.is_nan())
            .map(V::Num)
            .collect();
        let inner = V::A(vec![V::U, V::N], vec![(K::U, V::B(true)), (K::B(false), V::A(vec![], vec![]))]);
        let v = V::A(nums, vec![(K::N, inner), (K::S("}, ] )\"".into()), V::S("Array { arr: [".into()))]);
        let seen = observe(&build(&v)).expect("parsable");
        assert_eq!(seen.encode(), v.encode());
        assert_eq!(observe(&Val::Number(f64::NAN)).map(|v| v.encode()), Some("#7ff8000000000000".into()));
    }
}
