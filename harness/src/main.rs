//! `harness` — request server over the real rrss library (see /verif/PROTOCOL.md), plus the
//! generators of the Lean tables and the exhaustive `charlaws` check.
//!
//!   harness serve [--skip K]     one response line per request line (stdin → stdout)
//!   harness unicode              Lean source of the Unicode range tables of this Rust std
//!   harness keywords <file>      Lean source of the keyword table, regenerated behaviourally
//!   harness charlaws             exhaustive check of the CharLaws facts; exit code 0/1

mod enc;
mod gen_tables;
mod io;
mod treeparse;
mod valapi;
mod walk;

use std::io::{BufRead, Write};
use std::panic::{catch_unwind, AssertUnwindSafe};
use std::process::ExitCode;

use rrss::analysis::tools::{NumericConstantFolder, SimpleStringConstantFolder};
use rrss::analysis::visit::VisitExpr;
use rrss::exec::environment::EnvironmentError;
use rrss::exec::{exec_using, RuntimeError};
use rrss::frontend::ast::{Block, Program, Statement};
use rrss::frontend::lexer::Lexer;
use rrss::frontend::parser::{parse, ParseError, ParseErrorLocation};
use rrss::linter::standard_linter;

use enc::{bits, counted_list, hex, unbits, unx, unx_bytes, variant_name, xhex};

/// Runs `f`, turning a panic into `Err(())`.
fn guarded<T>(f: impl FnOnce() -> T) -> Result<T, ()> {
    catch_unwind(AssertUnwindSafe(f)).map_err(|_| ())
}

/// `xHEX` of a rendered message, `crash` if rendering panics.
fn rendered(render: impl FnOnce() -> String) -> String {
    guarded(render).map_or_else(|_| "crash".to_string(), |s| xhex(&s))
}

/// `N` or `-`.
fn optional_index(field: &str) -> Option<Option<usize>> {
    if field == "-" {
        Some(None)
    } else {
        field.parse().ok().map(Some)
    }
}

/// `CODE LINE` of a parse error; LINE is the one `Display for ParseErrorLocation` prints.
fn parse_error_head(e: &ParseError) -> String {
    let line = match &e.loc {
        ParseErrorLocation::Token(tok) => tok.range.start().line,
        ParseErrorLocation::Line(line) => *line,
    };
    format!("{} {}", variant_name(&e.code), line)
}

/// Innermost variant name of a runtime error.
fn runtime_class(e: &RuntimeError) -> String {
    match e {
        RuntimeError::EnvironmentError(EnvironmentError::SymTableError(e)) => variant_name(e),
        RuntimeError::EnvironmentError(e) => variant_name(e),
        RuntimeError::ValError(e) => variant_name(e),
        RuntimeError::WriteValError(e) => variant_name(e),
        RuntimeError::ExecError(e) => variant_name(e),
        RuntimeError::ProduceValError(e) => variant_name(e),
    }
}

// ---------------------------------------------------------------- requests

fn lex(src: &str) -> String {
    let tokens: Vec<String> = Lexer::new(src).map(|t| enc::token(src, &t)).collect();
    counted_list(&tokens)
}

fn parse_request(src: &str) -> String {
    match parse(src) {
        Ok(program) => format!("ok {}", enc::program(&program)),
        Err(e) => format!("err {} {}", parse_error_head(&e), rendered(|| e.to_string())),
    }
}

fn run(src: &str, stdin: Vec<u8>, write_budget: Option<usize>, read_fault: Option<usize>) -> String {
    run_with(|| parse(src), stdin, write_budget, read_fault)
}

/// `run` on the program that `make` yields (inside the guard, as parsing always was).
fn run_with<'a>(
    make: impl FnOnce() -> Result<Program, ParseError<'a>>,
    stdin: Vec<u8>,
    write_budget: Option<usize>,
    read_fault: Option<usize>,
) -> String {
    let (reader, reads) = io::LineReader::new(stdin, read_fault);
    let (writer, received) = io::BudgetWriter::new(write_budget);
    let outcome = guarded(|| match make() {
        Err(e) => format!("parseerr {}", parse_error_head(&e)),
        Ok(program) => match exec_using(reader, writer, &program) {
            Ok(()) => "ok".to_string(),
            Err(e) => format!("rterr {} {}", runtime_class(&e), rendered(|| e.to_string())),
        },
    })
    .unwrap_or_else(|_| "crash".to_string());
    let received = received.borrow();
    format!("{} x{} {}", outcome, hex(&received), reads.get())
}

fn lint(src: &str) -> String {
    match parse(src) {
        Err(e) => format!("parseerr {}", parse_error_head(&e)),
        Ok(program) => lint_program(&program),
    }
}

/// `clilint`: the library entry point the command line uses (`rrss::cli::linter::lint`), which
/// this server calls again and again in ONE process; answer as for `lint`.
fn cli_lint(src: &str) -> String {
    match guarded(|| rrss::cli::linter::lint(src)) {
        Err(()) => "crash".to_string(),
        Ok(Err(_)) => "parseerr".to_string(),
        Ok(Ok(result)) => render_diags(&result.diags),
    }
}

fn lint_program(program: &Program) -> String {
    render_diags(&standard_linter().run(program).diags)
}

fn render_diags(diags: &[rrss::linter::Diag]) -> String {
    let diags: Vec<String> = diags
        .iter()
        .map(|d| {
            let mut fields = vec![d.line.to_string(), xhex(&d.issue), d.suggestions.len().to_string()];
            fields.extend(d.suggestions.iter().map(|s| xhex(s)));
            fields.join(",")
        })
        .collect();
    counted_list(&diags)
}

/// The expression of the leading `say E`, if the program starts with one.
fn leading_output(program: &Program) -> Option<&rrss::frontend::ast::Expression> {
    match program.code.first()? {
        Block::NonEmpty(stmts) => match stmts.first()? {
            Statement::Output(o) => Some(&o.value),
            _ => None,
        },
        Block::Empty(_) => None,
    }
}

fn fold(src: &str) -> Option<String> {
    let program = parse(src).ok()?;
    let e = leading_output(&program)?;
    let show = |r: Result<Result<String, String>, ()>| match r {
        Ok(Ok(value)) => format!("ok:{}", value),
        Ok(Err(code)) => format!("err:{}", code),
        Err(()) => "crash".to_string(),
    };
    let num = guarded(|| {
        let r = NumericConstantFolder.visit_expression(e);
        r.map(|c| bits(c.value)).map_err(|e| variant_name(&e))
    });
    let text = guarded(|| {
        let r = SimpleStringConstantFolder.visit_expression(e);
        r.map(|c| xhex(&c.value)).map_err(|e| variant_name(&e))
    });
    Some(format!("num={} str={}", show(num), show(text)))
}

/// `foldstmt`: both folders asked at STATEMENT level, through the public dispatchers of the
/// visitor trait, about the right-hand side of the first statement: `rock A like <poetic literal>` /
/// `rock A with <list>` (`visit_array_push_rhs`) or `X is <poetic literal | expression>`
/// (`visit_poetic_number_assignment_rhs`). Same answer format as `fold`.
fn fold_statement(src: &str) -> Option<String> {
    let program = parse(src).ok()?;
    let first = match program.code.first()? {
        Block::NonEmpty(stmts) => stmts.first()?,
        Block::Empty(_) => return None,
    };
    let show = |r: Result<Result<String, String>, ()>| match r {
        Ok(Ok(value)) => format!("ok:{}", value),
        Ok(Err(code)) => format!("err:{}", code),
        Err(()) => "crash".to_string(),
    };
    let (num, text) = match first {
        Statement::ArrayPush(p) => {
            let rhs = p.value.as_ref()?;
            (
                guarded(|| NumericConstantFolder.visit_array_push_rhs(rhs).map(|c| bits(c.value)).map_err(|e| variant_name(&e))),
                guarded(|| SimpleStringConstantFolder.visit_array_push_rhs(rhs).map(|c| xhex(&c.value)).map_err(|e| variant_name(&e))),
            )
        }
        Statement::PoeticAssignment(rrss::frontend::ast::PoeticAssignment::Number(a)) => (
            guarded(|| {
                NumericConstantFolder.visit_poetic_number_assignment_rhs(&a.rhs).map(|c| bits(c.value)).map_err(|e| variant_name(&e))
            }),
            guarded(|| {
                SimpleStringConstantFolder
                    .visit_poetic_number_assignment_rhs(&a.rhs)
                    .map(|c| xhex(&c.value))
                    .map_err(|e| variant_name(&e))
            }),
        ),
        _ => return None,
    };
    Some(format!("num={} str={}", show(num), show(text)))
}

fn walk_request(src: &str, fail_at: Option<usize>) -> Option<String> {
    parse(src).ok().map(|program| walk::walk(&program, fail_at))
}

/// Answers one request line; `None` for an unknown or malformed request.
fn respond(line: &str) -> Option<String> {
    let fields: Vec<&str> = line.split(' ').collect();
    match fields.as_slice() {
        ["lex", src] => Some(lex(&unx(src)?)),
        ["parse", src] => Some(parse_request(&unx(src)?)),
        ["run", src, stdin, w, r, _steps] => {
            Some(run(&unx(src)?, unx_bytes(stdin)?, optional_index(w)?, optional_index(r)?))
        }
        // implementation-only (the model has no counterpart): what `rrss parse` is specified to print
        ["debugtree", src] => Some(match parse(&unx(src)?) {
            Ok(program) => format!("ok {}", xhex(&format!("{:#?}\n", program))),
            Err(_) => "err".to_string(),
        }),
        ["lint", src] => Some(lint(&unx(src)?)),
        ["fold", src] => fold(&unx(src)?),
        ["foldstmt", src] => fold_statement(&unx(src)?),
        ["clilint", src] => Some(cli_lint(&unx(src)?)),
        ["walk", src, f] => walk_request(&unx(src)?, optional_index(f)?),
        // (harness only) `run` with injected faults of another io::ErrorKind
        ["runk", kind, src, stdin, w, r, _steps] => {
            use std::io::ErrorKind::*;
            let k = match *kind {
                "w" => WouldBlock,
                "b" => BrokenPipe,
                "t" => TimedOut,
                "p" => PermissionDenied,
                "c" => ConnectionReset,
                "u" => UnexpectedEof,
                "d" => InvalidData,
                "o" => Other,
                _ => return None,
            };
            io::FAULT_KIND.with(|c| c.set(k));
            let answer = run(&unx(src)?, unx_bytes(stdin)?, optional_index(w)?, optional_index(r)?);
            io::FAULT_KIND.with(|c| c.set(Other));
            Some(answer)
        }
        ["walkshape", src] => parse(&unx(src)?).ok().map(|program| walk::walk_shape(&program)),
        // (harness only) a visitor that overrides the leaf callbacks only
        ["walkleaf", src, f] => {
            let f = optional_index(f)?;
            parse(&unx(src)?).ok().map(|program| walk::walk_leaves(&program, f))
        }
        // (harness only) one runner reused: K walks failing at W, then the walk that is reported
        ["walkseq", src, w, k, f] => {
            let (w, k, f) = (optional_index(w)?, k.parse().ok()?, optional_index(f)?);
            parse(&unx(src)?).ok().map(|program| walk::walk_seq(&program, w, k, f))
        }
        // tree-level requests: the program is given as the s-expression that `parse` prints
        ["dumpt", tree] => Some(format!("ok {}", enc::program(&treeparse::program(&unx(tree)?)?))),
        ["walkt", tree, f] => {
            let f = optional_index(f)?;
            Some(walk::walk(&treeparse::program(&unx(tree)?)?, f))
        }
        // (harness only) the leaves-only visitor on a tree
        ["walkleaft", tree, f] => {
            let f = optional_index(f)?;
            Some(walk::walk_leaves(&treeparse::program(&unx(tree)?)?, f))
        }
        ["runt", tree, stdin, w, r, _steps] => {
            let program = treeparse::program(&unx(tree)?)?;
            Some(run_with(|| Ok(program), unx_bytes(stdin)?, optional_index(w)?, optional_index(r)?))
        }
        ["lintt", tree] => Some(lint_program(&treeparse::program(&unx(tree)?)?)),
        ["val", op, args @ ..] => valapi::val_request(op, args),
        ["fmt", b] => Some(xhex(&unbits(b)?.to_string())),
        ["num", text] => Some(unx(text)?.parse::<f64>().map_or_else(|_| "none".to_string(), bits)),
        _ => None,
    }
}

fn serve(skip: usize) -> std::io::Result<()> {
    let stdin = std::io::stdin();
    let stdout = std::io::stdout();
    let mut out = stdout.lock();
    let mut line = Vec::new();
    let mut seen = 0usize;
    loop {
        line.clear();
        if stdin.lock().read_until(b'\n', &mut line)? == 0 {
            return Ok(());
        }
        seen += 1;
        if seen <= skip {
            continue;
        }
        let text = String::from_utf8_lossy(&line);
        let request = text.trim_end_matches(|c| c == '\n' || c == '\r');
        let response = match guarded(|| respond(request)) {
            Ok(Some(response)) => response,
            Ok(None) => "bad".to_string(),
            Err(()) => "crash".to_string(),
        };
        out.write_all(response.as_bytes())?;
        out.write_all(b"\n")?;
        out.flush()?;
    }
}

/// The server runs on a thread with a large stack so that deeply nested (but legitimate)
/// programs do not overflow the stack of the recursive-descent parser in debug builds.
fn serve_on_big_stack(skip: usize) -> ExitCode {
    std::panic::set_hook(Box::new(|_| {}));
    let server = [1usize << 30, 1 << 28, 1 << 26]
        .iter()
        .find_map(|&size| std::thread::Builder::new().stack_size(size).spawn(move || serve(skip)).ok());
    match server.map(|s| s.join()) {
        Some(Ok(Ok(()))) => ExitCode::SUCCESS,
        _ => ExitCode::FAILURE,
    }
}

fn usage() -> ExitCode {
    eprintln!("usage: harness serve [--skip K] | unicode | keywords <words-file> | charlaws");
    ExitCode::from(2)
}

fn main() -> ExitCode {
    let args: Vec<String> = std::env::args().skip(1).collect();
    let args: Vec<&str> = args.iter().map(String::as_str).collect();
    match args.as_slice() {
        ["serve"] => serve_on_big_stack(0),
        ["serve", "--skip", k] => match k.parse() {
            Ok(k) => serve_on_big_stack(k),
            Err(_) => usage(),
        },
        ["unicode"] => {
            print!("{}", gen_tables::unicode());
            ExitCode::SUCCESS
        }
        ["keywords", file] => match gen_tables::keywords(file) {
            Ok(text) => {
                print!("{}", text);
                ExitCode::SUCCESS
            }
            Err(e) => {
                eprintln!("harness keywords: {}: {}", file, e);
                ExitCode::FAILURE
            }
        },
        ["charlaws"] => {
            let (report, law7_exceptions) = gen_tables::charlaws();
            println!("{}", report);
            if law7_exceptions > 0 {
                eprintln!("note: law 7 (to_lowercase() yields no uppercase char) has {} exceptions", law7_exceptions);
            }
            if report == "ok" {
                ExitCode::SUCCESS
            } else {
                ExitCode::FAILURE
            }
        }
        _ => usage(),
    }
}
