//! Canonical encoders of PROTOCOL.md: hex, bit patterns, tokens, the AST s-expression and
//! the value encoding `V` (with its decoder). Everything here is pure text manipulation over
//! public fields of the rrss types.

use std::fmt::Debug;
use std::panic::{catch_unwind, AssertUnwindSafe};

use rrss::frontend::ast::*;
use rrss::frontend::lexer::{Token, TokenType};
use rrss::frontend::source_range::{SourceLocation, SourceRange};

// ---------------------------------------------------------------- hex / bits / names

pub fn hex(bytes: &[u8]) -> String {
    const DIGITS: &[u8; 16] = b"0123456789abcdef";
    let mut s = String::with_capacity(bytes.len() * 2);
    for b in bytes {
        s.push(DIGITS[(b >> 4) as usize] as char);
        s.push(DIGITS[(b & 15) as usize] as char);
    }
    s
}

/// Text field: `x` + HEX of the UTF-8 bytes.
pub fn xhex(s: &str) -> String {
    format!("x{}", hex(s.as_bytes()))
}

fn nibble(b: u8) -> Option<u8> {
    match b {
        b'0'..=b'9' => Some(b - b'0'),
        b'a'..=b'f' => Some(b - b'a' + 10),
        _ => None,
    }
}

/// Inverse of `hex` (lowercase digits only, even length).
pub fn unhex(s: &str) -> Option<Vec<u8>> {
    let b = s.as_bytes();
    if b.len() % 2 != 0 {
        return None;
    }
    b.chunks(2)
        .map(|p| Some(nibble(p[0])? << 4 | nibble(p[1])?))
        .collect()
}

/// Bytes of an `xHEX` field.
pub fn unx_bytes(field: &str) -> Option<Vec<u8>> {
    unhex(field.strip_prefix('x')?)
}

/// Text of an `xHEX` field (must be valid UTF-8).
pub fn unx(field: &str) -> Option<String> {
    String::from_utf8(unx_bytes(field)?).ok()
}

/// 16 lowercase hex digits; every NaN is written `7ff8000000000000`.
pub fn bits(f: f64) -> String {
    let b = if f.is_nan() { 0x7ff8_0000_0000_0000 } else { f.to_bits() };
    format!("{:016x}", b)
}

pub fn unbits(s: &str) -> Option<f64> {
    (s.len() == 16 && s.bytes().all(|b| nibble(b).is_some()))
        .then(|| u64::from_str_radix(s, 16).ok().map(f64::from_bits))
        .flatten()
}

/// Variant name of an enum value with a derived `Debug`: the leading identifier of `{:?}`.
pub fn variant_name(x: &impl Debug) -> String {
    let mut s = format!("{:?}", x);
    let end = s
        .find(|c: char| !(c.is_ascii_alphanumeric() || c == '_'))
        .unwrap_or(s.len());
    s.truncate(end);
    s
}

/// `ok N item;item;…` (`ok 0 ` — with the trailing space — for the empty list).
pub fn counted_list(items: &[String]) -> String {
    format!("ok {} {}", items.len(), items.join(";"))
}

// ---------------------------------------------------------------- tokens

fn lex_error_name(debug: &str) -> &'static str {
    const TABLE: [(&str, &str); 5] = [
        ("Identifier may not contain", "identNonAlpha"),
        ("is not a valid character", "underscore"),
        ("Invalid token", "invalidToken"),
        ("Unterminated comment", "unterminatedComment"),
        ("Unterminated string literal", "unterminatedString"),
    ];
    TABLE
        .iter()
        .find(|(text, _)| debug.contains(text))
        .map_or("unknownLexError", |(_, name)| name)
}

/// `KIND,START,LEN,L1,C1,L2,C2,PAYLOAD`
pub fn token(src: &str, t: &Token) -> String {
    let payload = match t.id {
        TokenType::Number(n) => bits(n),
        TokenType::StringLiteral(s) | TokenType::Comment(s) => xhex(s),
        TokenType::Error(_) => lex_error_name(&format!("{:?}", t.id)).to_string(),
        _ => "-".to_string(),
    };
    let start = (t.spelling.as_ptr() as usize).wrapping_sub(src.as_ptr() as usize);
    let (a, b) = (t.range.start(), t.range.end());
    format!(
        "{},{},{},{},{},{},{},{}",
        variant_name(&t.id),
        start,
        t.spelling.len(),
        a.line,
        a.column,
        b.line,
        b.column,
        payload
    )
}

// ---------------------------------------------------------------- AST s-expression

fn loc(l: &SourceLocation) -> String {
    format!("@{}:{}", l.line, l.column)
}

fn range(r: &SourceRange) -> String {
    let (a, b) = (r.start(), r.end());
    format!("@{}:{}-{}:{}", a.line, a.column, b.line, b.column)
}

/// `(head part part …)`; just `(head)` without parts.
fn node<I: IntoIterator<Item = String>>(head: &str, parts: I) -> String {
    let mut s = format!("({}", head);
    for p in parts {
        s.push(' ');
        s.push_str(&p);
    }
    s.push(')');
    s
}

fn opt<T>(x: &Option<T>, f: impl FnOnce(&T) -> String) -> String {
    x.as_ref().map_or_else(|| "-".to_string(), f)
}

/// Operator names of the protocol are the lowercased Rust variant names.
pub fn op_name(o: &impl Debug) -> String {
    variant_name(o).to_lowercase()
}

pub fn program(p: &Program) -> String {
    node("prog", p.code.iter().map(block))
}

fn block(b: &Block) -> String {
    match b {
        Block::Empty(l) => node("block", [loc(l)]),
        Block::NonEmpty(stmts) => node("block", stmts.iter().map(stmt)),
    }
}

fn stmt(s: &Statement) -> String {
    match s {
        Statement::Assignment(a) => {
            let AssignmentRHS::ExpressionList(value) = &a.value;
            node("assign", [lhs(&a.dest), opt(&a.operator, |o| op_name(o)), expr_list(value)])
        }
        Statement::PoeticAssignment(PoeticAssignment::Number(a)) => {
            let rhs = match &a.rhs {
                PoeticNumberAssignmentRHS::Expression(e) => node("pexpr", [expr(e)]),
                PoeticNumberAssignmentRHS::PoeticNumberLiteral(p) => plit(p),
            };
            node("pnum", [lhs(&a.dest), rhs])
        }
        Statement::PoeticAssignment(PoeticAssignment::String(a)) => {
            node("pstr", [lhs(&a.dest), xhex(&a.rhs)])
        }
        Statement::If(i) => {
            node("if", [expr(&i.condition), block(&i.then_block), opt(&i.else_block, block)])
        }
        Statement::While(w) => node("while", [expr(&w.condition), block(&w.block)]),
        Statement::Until(u) => node("until", [expr(&u.condition), block(&u.block)]),
        Statement::Inc(i) => node("inc", [ident(&i.dest.0), range(&i.dest.1), i.amount.to_string()]),
        Statement::Dec(d) => node("dec", [ident(&d.dest.0), range(&d.dest.1), d.amount.to_string()]),
        Statement::Input(i) => match &i.dest {
            InputDest::Some(dest) => node("input", [lhs(dest)]),
            InputDest::None(l) => node("input", [loc(l)]),
        },
        Statement::Output(o) => node("output", [expr(&o.value)]),
        Statement::Mutation(m) => node(
            "mut",
            [op_name(&m.operator), primary(&m.operand), opt(&m.dest, lhs), opt(&m.param, expr)],
        ),
        Statement::Rounding(r) => node("round", [op_name(&r.direction), expr(&r.operand)]),
        Statement::Continue(c) => node("continue", [range(&c.0)]),
        Statement::Break(b) => node("break", [range(&b.0)]),
        Statement::ArrayPush(a) => {
            let rhs = opt(&a.value, |v| match v {
                ArrayPushRHS::ExpressionList(e) => expr_list(e),
                ArrayPushRHS::PoeticNumberLiteral(p) => plit(p),
            });
            node("push", [primary(&a.array), rhs])
        }
        Statement::ArrayPop(a) => node("pop", [primary(&a.expr.array), opt(&a.dest, lhs)]),
        Statement::Return(r) => node("return", [expr(&r.value)]),
        Statement::Function(f) => {
            let params = f.data.params.iter().map(|p| format!("({} {})", varname(&p.0), range(&p.1)));
            node(
                "func",
                [varname(&f.name.0), range(&f.name.1), node("params", params), block(&f.data.body)],
            )
        }
        Statement::FunctionCall(f) => call("callstmt", f),
    }
}

fn call(head: &str, f: &FunctionCall) -> String {
    node(head, [varname(&f.name.0), range(&f.name.1), node("args", f.args.iter().map(expr))])
}

fn lhs(l: &AssignmentLHS) -> String {
    match l {
        AssignmentLHS::Identifier(i) => node("lid", [ident(&i.0), range(&i.1)]),
        AssignmentLHS::ArraySubscript(a) => node("lsub", [primary(&a.array), primary(&a.subscript)]),
    }
}

fn ident(i: &Identifier) -> String {
    match i {
        Identifier::VariableName(v) => varname(v),
        Identifier::Pronoun => "pronoun".to_string(),
    }
}

pub fn varname(v: &VariableName) -> String {
    match v {
        VariableName::Simple(s) => node("simple", [xhex(&s.0)]),
        VariableName::Common(c) => node("common", [xhex(&c.0), xhex(&c.1)]),
        VariableName::Proper(p) => node("proper", p.0.iter().map(|w| xhex(w))),
    }
}

fn plit(p: &PoeticNumberLiteral) -> String {
    let value = catch_unwind(AssertUnwindSafe(|| p.compute_value()))
        .map_or_else(|_| "crash".to_string(), bits);
    let elems = p.elems.iter().map(|e| match e {
        PoeticNumberLiteralElem::Word(w) => node("w", [xhex(w)]),
        PoeticNumberLiteralElem::WordSuffix(s) => node("s", [xhex(s)]),
        PoeticNumberLiteralElem::Dot => "dot".to_string(),
    });
    node("plit", std::iter::once(value).chain(elems))
}

fn expr_list(l: &ExpressionList) -> String {
    node("list", l.iter().map(expr))
}

fn expr(e: &Expression) -> String {
    match e {
        Expression::PrimaryExpression(p) => primary(p),
        Expression::BinaryExpression(b) => {
            node("bin", [op_name(&b.operator), expr(&b.lhs), expr_list(&b.rhs)])
        }
        Expression::UnaryExpression(u) => node("un", [op_name(&u.operator), expr(&u.operand)]),
    }
}

fn primary(p: &PrimaryExpression) -> String {
    match p {
        PrimaryExpression::Literal(l) => node("lit", [literal(&l.0), range(&l.1)]),
        PrimaryExpression::Identifier(i) => node("id", [ident(&i.0), range(&i.1)]),
        PrimaryExpression::ArraySubscript(a) => {
            node("sub", [primary(&a.array), primary(&a.subscript)])
        }
        PrimaryExpression::FunctionCall(f) => call("call", f),
        PrimaryExpression::ArrayPop(a) => node("popx", [primary(&a.array)]),
    }
}

fn literal(l: &LiteralExpression) -> String {
    match l {
        LiteralExpression::Mysterious => "mysterious".to_string(),
        LiteralExpression::Null => "null".to_string(),
        LiteralExpression::Boolean(b) => b.to_string(),
        LiteralExpression::Number(n) => node("num", [bits(*n)]),
        LiteralExpression::String(s) => node("str", [xhex(s)]),
    }
}

// ---------------------------------------------------------------- value encoding `V`

/// Dictionary key of the value encoding: `u n t f sHEX`.
#[derive(Clone, Debug, PartialEq)]
pub enum K {
    U,
    N,
    B(bool),
    S(String),
}

/// A value of the encoding: `u n t f #BITS sHEX [V,…|K=V,…]`.
#[derive(Clone, Debug, PartialEq)]
pub enum V {
    U,
    N,
    B(bool),
    Num(f64),
    S(String),
    A(Vec<V>, Vec<(K, V)>),
}

fn bool_letter(b: bool) -> &'static str {
    if b {
        "t"
    } else {
        "f"
    }
}

impl K {
    pub fn encode(&self) -> String {
        match self {
            K::U => "u".to_string(),
            K::N => "n".to_string(),
            K::B(b) => bool_letter(*b).to_string(),
            K::S(s) => format!("s{}", hex(s.as_bytes())),
        }
    }
}

impl V {
    /// The dictionary part is written sorted bytewise by the encoded key.
    pub fn encode(&self) -> String {
        match self {
            V::U => "u".to_string(),
            V::N => "n".to_string(),
            V::B(b) => bool_letter(*b).to_string(),
            V::Num(n) => format!("#{}", bits(*n)),
            V::S(s) => format!("s{}", hex(s.as_bytes())),
            V::A(seq, dict) => {
                let seq: Vec<String> = seq.iter().map(V::encode).collect();
                let mut dict: Vec<(String, String)> =
                    dict.iter().map(|(k, v)| (k.encode(), v.encode())).collect();
                dict.sort();
                let dict: Vec<String> = dict.iter().map(|(k, v)| format!("{}={}", k, v)).collect();
                format!("[{}|{}]", seq.join(","), dict.join(","))
            }
        }
    }

    /// Decodes a whole field; `None` if it is not a well-formed value.
    pub fn decode(text: &str) -> Option<V> {
        let mut d = Decoder { s: text.as_bytes(), i: 0 };
        let v = d.value()?;
        (d.i == d.s.len()).then(|| v)
    }
}

struct Decoder<'a> {
    s: &'a [u8],
    i: usize,
}

impl Decoder<'_> {
    fn peek(&self) -> Option<u8> {
        self.s.get(self.i).copied()
    }
    fn eat(&mut self, b: u8) -> bool {
        let hit = self.peek() == Some(b);
        self.i += hit as usize;
        hit
    }
    fn hex_text(&mut self) -> Option<String> {
        let start = self.i;
        while self.peek().and_then(nibble).is_some() {
            self.i += 1;
        }
        let digits = std::str::from_utf8(&self.s[start..self.i]).ok()?;
        String::from_utf8(unhex(digits)?).ok()
    }
    /// Comma-separated items up to (and including) the byte `close`.
    fn list<T>(&mut self, close: u8, mut item: impl FnMut(&mut Self) -> Option<T>) -> Option<Vec<T>> {
        let mut items = Vec::new();
        if self.eat(close) {
            return Some(items);
        }
        loop {
            items.push(item(self)?);
            if self.eat(close) {
                return Some(items);
            }
            if !self.eat(b',') {
                return None;
            }
        }
    }
    fn key(&mut self) -> Option<K> {
        let b = self.peek()?;
        self.i += 1;
        match b {
            b'u' => Some(K::U),
            b'n' => Some(K::N),
            b't' => Some(K::B(true)),
            b'f' => Some(K::B(false)),
            b's' => self.hex_text().map(K::S),
            _ => None,
        }
    }
    fn value(&mut self) -> Option<V> {
        let b = self.peek()?;
        self.i += 1;
        match b {
            b'u' => Some(V::U),
            b'n' => Some(V::N),
            b't' => Some(V::B(true)),
            b'f' => Some(V::B(false)),
            b'#' => {
                let digits = std::str::from_utf8(self.s.get(self.i..self.i + 16)?).ok()?;
                self.i += 16;
                unbits(digits).map(V::Num)
            }
            b's' => self.hex_text().map(V::S),
            b'[' => {
                let seq = self.list(b'|', Self::value)?;
                let dict = self.list(b']', |d| {
                    let k = d.key()?;
                    d.eat(b'=').then(|| ())?;
                    Some((k, d.value()?))
                })?;
                Some(V::A(seq, dict))
            }
            _ => None,
        }
    }
}
