//! Reader of the AST s-expression of PROTOCOL.md (the inverse of `enc::program`): builds the
//! public syntax-tree types of the library from the text both servers print for `parse`.
//!
//! Accepted: exactly what the printers print (single spaces, lowercase hex), with every
//! position `@L:C` / `@L1:C1-L2:C2` optional (a missing one is 0:0 / 0:0-0:0) — and every tree
//! the AST types can hold, whether or not the parser builds it (`(proper)`, `(proper x41)`,
//! `(args)`, `(plit - )` without elements, any bit pattern in `(num …)`, `(block)` as an else
//! branch, …). Not representable in the types, hence rejected: an empty `(list)`
//! (`ExpressionList` has a `first`), a block that is both positioned and non-empty.
//! The value field of `(plit V elem*)` is redundant (recomputed by the printer): it must be
//! BITS, `crash` or `-` and is otherwise ignored.

use std::sync::Arc;

use rrss::frontend::ast::*;
use rrss::frontend::source_range::{SourceLocation, SourceRange};

use crate::enc::{unbits, unx};

// ---------------------------------------------------------------- generic s-expressions

#[derive(Debug)]
enum Sx {
    Atom(String),
    List(Vec<Sx>),
}

/// `item := atom | '(' ')' | '(' item (' ' item)* ')'`; an atom is a non-empty run of bytes other
/// than space and parentheses.
fn item(s: &[u8], i: &mut usize) -> Option<Sx> {
    if s.get(*i) == Some(&b'(') {
        *i += 1;
        let mut items = Vec::new();
        if s.get(*i) == Some(&b')') {
            *i += 1;
            return Some(Sx::List(items));
        }
        loop {
            items.push(item(s, i)?);
            match s.get(*i)? {
                b')' => {
                    *i += 1;
                    return Some(Sx::List(items));
                }
                b' ' => *i += 1,
                _ => return None,
            }
        }
    }
    let start = *i;
    while s.get(*i).map_or(false, |b| !matches!(b, b' ' | b'(' | b')')) {
        *i += 1;
    }
    if *i == start {
        return None;
    }
    std::str::from_utf8(&s[start..*i]).ok().map(|a| Sx::Atom(a.to_string()))
}

fn sexpr(text: &str) -> Option<Sx> {
    let mut i = 0;
    let x = item(text.as_bytes(), &mut i)?;
    (i == text.len()).then(|| x)
}

// ---------------------------------------------------------------- atoms

fn atom(x: &Sx) -> Option<&str> {
    match x {
        Sx::Atom(a) => Some(a),
        Sx::List(_) => None,
    }
}

/// `(head part…)` → (head, parts)
fn node(x: &Sx) -> Option<(&str, &[Sx])> {
    match x {
        Sx::List(items) => Some((atom(items.first()?)?, &items[1..])),
        Sx::Atom(_) => None,
    }
}

/// Decimal digits only, value below 2^32.
fn number(s: &str) -> Option<u32> {
    (!s.is_empty() && s.bytes().all(|b| b.is_ascii_digit())).then(|| s.parse().ok()).flatten()
}

/// `L:C`
fn location(s: &str) -> Option<SourceLocation> {
    let (l, c) = s.split_once(':')?;
    Some(SourceLocation::new(number(l)?, number(c)?))
}

/// `@L:C`
fn loc(x: &Sx) -> Option<SourceLocation> {
    location(atom(x)?.strip_prefix('@')?)
}

/// `@L1:C1-L2:C2` (built with the library's normalising constructor: a reversed range is swapped)
fn range(x: &Sx) -> Option<SourceRange> {
    let (a, b) = atom(x)?.strip_prefix('@')?.split_once('-')?;
    Some(SourceRange::from((location(a)?, location(b)?)))
}

fn default_range() -> SourceRange {
    SourceRange::from(((0, 0), (0, 0)))
}

/// An optional leading range of `parts`: (range, the other parts).
fn opt_range(parts: &[Sx]) -> Option<(SourceRange, &[Sx])> {
    match parts.first() {
        Some(Sx::Atom(a)) if a.starts_with('@') => Some((range(&parts[0])?, &parts[1..])),
        _ => Some((default_range(), parts)),
    }
}

fn text(x: &Sx) -> Option<String> {
    unx(atom(x)?)
}

/// Optional minus sign, decimal digits; must fit `isize`.
fn amount(x: &Sx) -> Option<isize> {
    let a = atom(x)?;
    let digits = a.strip_prefix('-').unwrap_or(a);
    (!digits.is_empty() && digits.bytes().all(|b| b.is_ascii_digit())).then(|| a.parse::<i64>().ok()).flatten().map(|n| n as isize)
}

fn binary_operator(x: &Sx) -> Option<BinaryOperator> {
    use BinaryOperator::*;
    Some(match atom(x)? {
        "plus" => Plus,
        "minus" => Minus,
        "multiply" => Multiply,
        "divide" => Divide,
        "and" => And,
        "or" => Or,
        "nor" => Nor,
        "eq" => Eq,
        "noteq" => NotEq,
        "greater" => Greater,
        "greatereq" => GreaterEq,
        "less" => Less,
        "lesseq" => LessEq,
        _ => return None,
    })
}

/// `-` is `None`.
fn optional<T>(x: &Sx, f: impl FnOnce(&Sx) -> Option<T>) -> Option<Option<T>> {
    match x {
        Sx::Atom(a) if a == "-" => Some(None),
        _ => f(x).map(Some),
    }
}

// ---------------------------------------------------------------- names, expressions

fn varname(x: &Sx) -> Option<VariableName> {
    match node(x)? {
        ("simple", [w]) => Some(VariableName::Simple(SimpleIdentifier(text(w)?))),
        ("common", [p, w]) => Some(VariableName::Common(CommonIdentifier(text(p)?, text(w)?))),
        ("proper", ws) => Some(VariableName::Proper(ProperIdentifier(ws.iter().map(text).collect::<Option<_>>()?))),
        _ => None,
    }
}

fn ident(x: &Sx) -> Option<Identifier> {
    match x {
        Sx::Atom(a) => (a == "pronoun").then(|| Identifier::Pronoun),
        _ => varname(x).map(Identifier::VariableName),
    }
}

/// `name [@range] rest…` → (name with its range, rest)
fn ranged_name(parts: &[Sx]) -> Option<(WithRange<VariableName>, &[Sx])> {
    let name = varname(parts.first()?)?;
    let (r, rest) = opt_range(&parts[1..])?;
    Some((WithRange(name, r), rest))
}

/// `ident [@range] rest…`
fn ranged_ident(parts: &[Sx]) -> Option<(WithRange<Identifier>, &[Sx])> {
    let i = ident(parts.first()?)?;
    let (r, rest) = opt_range(&parts[1..])?;
    Some((WithRange(i, r), rest))
}

fn literal(x: &Sx) -> Option<LiteralExpression> {
    match x {
        Sx::Atom(a) => Some(match a.as_str() {
            "mysterious" => LiteralExpression::Mysterious,
            "null" => LiteralExpression::Null,
            "true" => LiteralExpression::Boolean(true),
            "false" => LiteralExpression::Boolean(false),
            _ => return None,
        }),
        _ => match node(x)? {
            ("num", [b]) => Some(LiteralExpression::Number(unbits(atom(b)?)?)),
            ("str", [s]) => Some(LiteralExpression::String(text(s)?)),
            _ => None,
        },
    }
}

fn exprs(xs: &[Sx]) -> Option<Vec<Expression>> {
    xs.iter().map(expr).collect()
}

/// `name [@range] (args expr*)`
fn call(parts: &[Sx]) -> Option<FunctionCall> {
    let (name, rest) = ranged_name(parts)?;
    match rest {
        [args] => match node(args)? {
            ("args", es) => Some(FunctionCall { name, args: exprs(es)? }),
            _ => None,
        },
        _ => None,
    }
}

fn primary(x: &Sx) -> Option<PrimaryExpression> {
    let (head, parts) = node(x)?;
    match (head, parts) {
        ("lit", [l, rest @ ..]) => match opt_range(rest)? {
            (r, []) => Some(PrimaryExpression::Literal(WithRange(literal(l)?, r))),
            _ => None,
        },
        ("id", _) => match ranged_ident(parts)? {
            (i, []) => Some(PrimaryExpression::Identifier(i)),
            _ => None,
        },
        ("sub", [a, i]) => Some(PrimaryExpression::ArraySubscript(subscript(a, i)?)),
        ("call", _) => call(parts).map(PrimaryExpression::FunctionCall),
        ("popx", [a]) => Some(PrimaryExpression::ArrayPop(Box::new(ArrayPopExpr { array: primary(a)? }))),
        _ => None,
    }
}

fn subscript(a: &Sx, i: &Sx) -> Option<ArraySubscript> {
    Some(ArraySubscript { array: Box::new(primary(a)?), subscript: Box::new(primary(i)?) })
}

fn expr(x: &Sx) -> Option<Expression> {
    match node(x)? {
        ("bin", [o, l, r]) => Some(Expression::BinaryExpression(BinaryExpression {
            operator: binary_operator(o)?,
            lhs: Box::new(expr(l)?),
            rhs: Box::new(expr_list(r)?),
        })),
        ("un", [o, e]) => {
            let operator = match atom(o)? {
                "minus" => UnaryOperator::Minus,
                "not" => UnaryOperator::Not,
                _ => return None,
            };
            Some(Expression::UnaryExpression(UnaryExpression { operator, operand: Box::new(expr(e)?) }))
        }
        _ => primary(x).map(Expression::PrimaryExpression),
    }
}

/// `(list expr+)`
fn expr_list(x: &Sx) -> Option<ExpressionList> {
    match node(x)? {
        ("list", [first, rest @ ..]) => Some(ExpressionList { first: expr(first)?, rest: exprs(rest)? }),
        _ => None,
    }
}

fn lhs(x: &Sx) -> Option<AssignmentLHS> {
    let (head, parts) = node(x)?;
    match (head, parts) {
        ("lid", _) => match ranged_ident(parts)? {
            (i, []) => Some(AssignmentLHS::Identifier(i)),
            _ => None,
        },
        ("lsub", [a, i]) => Some(AssignmentLHS::ArraySubscript(subscript(a, i)?)),
        _ => None,
    }
}

/// `(plit V elem*)`; V is checked for its shape only.
fn plit(x: &Sx) -> Option<PoeticNumberLiteral> {
    match node(x)? {
        ("plit", [v, elems @ ..]) => {
            let v = atom(v)?;
            if !(v == "crash" || v == "-" || unbits(v).is_some()) {
                return None;
            }
            let elems = elems
                .iter()
                .map(|e| match e {
                    Sx::Atom(a) => (a == "dot").then(|| PoeticNumberLiteralElem::Dot),
                    _ => match node(e)? {
                        ("w", [w]) => Some(PoeticNumberLiteralElem::Word(text(w)?)),
                        ("s", [s]) => Some(PoeticNumberLiteralElem::WordSuffix(text(s)?)),
                        _ => None,
                    },
                })
                .collect::<Option<_>>()?;
            Some(PoeticNumberLiteral { elems })
        }
        _ => None,
    }
}

fn is_node(x: &Sx, head: &str) -> bool {
    node(x).map_or(false, |(h, _)| h == head)
}

// ---------------------------------------------------------------- statements

fn stmt(x: &Sx) -> Option<Statement> {
    let (head, parts) = node(x)?;
    Some(match (head, parts) {
        ("assign", [d, o, v]) => Statement::Assignment(Assignment {
            dest: lhs(d)?,
            operator: optional(o, binary_operator)?,
            value: AssignmentRHS::ExpressionList(expr_list(v)?),
        }),
        ("pnum", [d, r]) => {
            let rhs = match node(r)? {
                ("pexpr", [e]) => PoeticNumberAssignmentRHS::Expression(expr(e)?),
                _ => PoeticNumberAssignmentRHS::PoeticNumberLiteral(plit(r)?),
            };
            Statement::PoeticAssignment(PoeticAssignment::Number(PoeticNumberAssignment { dest: lhs(d)?, rhs }))
        }
        ("pstr", [d, s]) => {
            Statement::PoeticAssignment(PoeticAssignment::String(PoeticStringAssignment { dest: lhs(d)?, rhs: text(s)? }))
        }
        ("if", [c, t, e]) => {
            Statement::If(If { condition: expr(c)?, then_block: block(t)?, else_block: optional(e, block)? })
        }
        ("while", [c, b]) => Statement::While(While { condition: expr(c)?, block: block(b)? }),
        ("until", [c, b]) => Statement::Until(Until { condition: expr(c)?, block: block(b)? }),
        ("inc", _) | ("dec", _) => match ranged_ident(parts)? {
            (dest, [n]) if head == "inc" => Statement::Inc(Inc { dest, amount: amount(n)? }),
            (dest, [n]) => Statement::Dec(Dec { dest, amount: amount(n)? }),
            _ => return None,
        },
        ("input", []) => Statement::Input(Input { dest: InputDest::None(SourceLocation::new(0, 0)) }),
        ("input", [d]) => Statement::Input(Input {
            dest: match d {
                Sx::Atom(_) => InputDest::None(loc(d)?),
                _ => InputDest::Some(lhs(d)?),
            },
        }),
        ("output", [e]) => Statement::Output(Output { value: expr(e)? }),
        ("mut", [o, operand, d, p]) => Statement::Mutation(Mutation {
            operator: match atom(o)? {
                "cut" => MutationOperator::Cut,
                "join" => MutationOperator::Join,
                "cast" => MutationOperator::Cast,
                _ => return None,
            },
            operand: primary(operand)?,
            dest: optional(d, lhs)?,
            param: optional(p, expr)?,
        }),
        ("round", [d, e]) => Statement::Rounding(Rounding {
            direction: match atom(d)? {
                "up" => RoundingDirection::Up,
                "down" => RoundingDirection::Down,
                "nearest" => RoundingDirection::Nearest,
                _ => return None,
            },
            operand: expr(e)?,
        }),
        ("continue", _) | ("break", _) => match opt_range(parts)? {
            (r, []) if head == "continue" => Statement::Continue(Continue(r)),
            (r, []) => Statement::Break(Break(r)),
            _ => return None,
        },
        ("push", [a, v]) => Statement::ArrayPush(ArrayPush {
            array: primary(a)?,
            value: optional(v, |v| {
                if is_node(v, "list") {
                    expr_list(v).map(ArrayPushRHS::ExpressionList)
                } else {
                    plit(v).map(ArrayPushRHS::PoeticNumberLiteral)
                }
            })?,
        }),
        ("pop", [a, d]) => {
            Statement::ArrayPop(ArrayPop { expr: ArrayPopExpr { array: primary(a)? }, dest: optional(d, lhs)? })
        }
        ("return", [e]) => Statement::Return(Return { value: expr(e)? }),
        ("func", _) => match ranged_name(parts)? {
            (name, [params, body]) => {
                let params = match node(params)? {
                    ("params", ps) => ps.iter().map(param).collect::<Option<_>>()?,
                    _ => return None,
                };
                Statement::Function(Function { name, data: Arc::new(FunctionData { params, body: block(body)? }) })
            }
            _ => return None,
        },
        ("callstmt", _) => Statement::FunctionCall(call(parts)?),
        _ => return None,
    })
}

/// `(varname [@range])` — a list whose head is itself a list
fn param(x: &Sx) -> Option<WithRange<VariableName>> {
    match x {
        Sx::List(items) => match ranged_name(items)? {
            (name, []) => Some(name),
            _ => None,
        },
        Sx::Atom(_) => None,
    }
}

/// `(block)` | `(block @L:C)` | `(block stmt+)`
fn block(x: &Sx) -> Option<Block> {
    match node(x)? {
        ("block", []) => Some(Block::Empty(SourceLocation::new(0, 0))),
        ("block", [l @ Sx::Atom(_)]) => Some(Block::Empty(loc(l)?)),
        ("block", stmts) => Some(Block::NonEmpty(stmts.iter().map(stmt).collect::<Option<_>>()?)),
        _ => None,
    }
}

/// The program of an s-expression; `None` if the text is not one.
pub fn program(text: &str) -> Option<Program> {
    match node(&sexpr(text)?)? {
        ("prog", blocks) => Some(Program { code: blocks.iter().map(block).collect::<Option<_>>()? }),
        _ => None,
    }
}
