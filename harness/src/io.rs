//! Fault-injecting reader and writer handed to `exec_using`. Their observable state lives
//! behind `Rc`s so that it is still available after the interpreter returned or panicked.

use std::cell::{Cell, RefCell};
use std::io::{self, ErrorKind, Read, Write};
use std::rc::Rc;

thread_local! {
    /// The `ErrorKind` of injected faults (`runk` request); `Other` unless set. Never `Interrupted`:
    /// by the contract of `Read`/`Write` that kind means "retry", not "failed".
    pub static FAULT_KIND: Cell<ErrorKind> = Cell::new(ErrorKind::Other);
}

fn fault(text: &'static str) -> io::Error {
    io::Error::new(FAULT_KIND.with(|k| k.get()), text)
}

/// Hands out exactly one line per `read` call, so that the `BufReader` inside the
/// interpreter cannot read ahead and "lines handed out" counts the `listen`s served.
///
/// Order inside `read`: (1) no input left → `Ok(0)`; (2) lines handed out so far == R →
/// `Err("verif read fault")`; (3) hand out the next line, including its `\n` (or the
/// unterminated last line), and count it. A line longer than the caller's buffer is
/// continued on the following calls and counted once. A fault index ≥ the number of lines
/// therefore never triggers.
pub struct LineReader {
    data: Vec<u8>,
    pos: usize,
    /// the line at `pos` has been started (and counted) already
    mid_line: bool,
    fault_at: Option<usize>,
    handed_out: Rc<Cell<usize>>,
}

impl LineReader {
    pub fn new(data: Vec<u8>, fault_at: Option<usize>) -> (Self, Rc<Cell<usize>>) {
        let handed_out = Rc::new(Cell::new(0));
        let reader = Self { data, pos: 0, mid_line: false, fault_at, handed_out: handed_out.clone() };
        (reader, handed_out)
    }
}

impl Read for LineReader {
    fn read(&mut self, buf: &mut [u8]) -> io::Result<usize> {
        let rest = &self.data[self.pos..];
        if rest.is_empty() || buf.is_empty() {
            return Ok(0);
        }
        if !self.mid_line {
            if self.fault_at == Some(self.handed_out.get()) {
                return Err(fault("verif read fault"));
            }
            self.handed_out.set(self.handed_out.get() + 1);
        }
        let line_len = rest.iter().position(|&b| b == b'\n').map_or(rest.len(), |i| i + 1);
        let n = line_len.min(buf.len());
        buf[..n].copy_from_slice(&rest[..n]);
        self.pos += n;
        self.mid_line = n < line_len;
        Ok(n)
    }
}

/// Accepts `budget` more bytes (`None` = unlimited), then fails with `verif write fault`.
/// A write larger than the remaining budget is accepted partially.
pub struct BudgetWriter {
    budget: Option<usize>,
    received: Rc<RefCell<Vec<u8>>>,
}

impl BudgetWriter {
    pub fn new(budget: Option<usize>) -> (Self, Rc<RefCell<Vec<u8>>>) {
        let received = Rc::new(RefCell::new(Vec::new()));
        (Self { budget, received: received.clone() }, received)
    }
}

impl Write for BudgetWriter {
    fn write(&mut self, buf: &[u8]) -> io::Result<usize> {
        if buf.is_empty() {
            return Ok(0);
        }
        let n = match &mut self.budget {
            Some(0) => return Err(fault("verif write fault")),
            Some(left) => {
                let n = buf.len().min(*left);
                *left -= n;
                n
            }
            None => buf.len(),
        };
        self.received.borrow_mut().extend_from_slice(&buf[..n]);
        Ok(n)
    }

    fn flush(&mut self) -> io::Result<()> {
        Ok(())
    }
}
