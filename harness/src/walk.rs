//! Recording visitor of the `walk` request, written against the public visitor traits only.
//!
//! It overrides (a) every leaf callback of `VisitExpr` and (b) every pure-dispatch method by
//! "record, then re-dispatch exactly as the default body in /repo/src/analysis/visit.rs".
//! The composite methods (binary/unary expression, expression list, function call, array
//! subscript, poetic number literal) are deliberately left to the library.

use std::cell::{Cell, RefCell};
use std::panic::{catch_unwind, AssertUnwindSafe};
use std::rc::Rc;

use rrss::analysis::visit::{Combine, ExprVisitorRunner, Result, Visit, VisitExpr, VisitProgram};
use rrss::frontend::ast::*;
use rrss::frontend::source_range::SourceRange;

use crate::enc::{op_name, xhex};

/// Indices of the leaf events below a node; `Combine` is concatenation.
#[derive(Default)]
pub struct Ids(Vec<usize>);

impl Combine for Ids {
    fn combine(mut self, other: Self) -> Self {
        self.0.extend(other.0);
        self
    }
}

/// The recorder's state is shared with the caller, so that ONE runner can be used for several
/// walks (`walkseq`): the library offers no mutable access to a runner's visitor.
#[derive(Clone, Default)]
struct Recorder {
    events: Rc<RefCell<Vec<String>>>,
    fail_at: Rc<Cell<Option<usize>>>,
}

impl Recorder {
    /// Appends the event; its index is the failure if it is the chosen one.
    fn event(&mut self, ev: impl Into<String>) -> std::result::Result<usize, usize> {
        let mut events = self.events.borrow_mut();
        let i = events.len();
        events.push(ev.into());
        if self.fail_at.get() == Some(i) {
            Err(i)
        } else {
            Ok(i)
        }
    }
    fn leaf(&mut self, ev: impl Into<String>) -> Result<Self> {
        self.event(ev).map(|i| Ids(vec![i]))
    }
}

impl Visit for Recorder {
    type Output = Ids;
    type Error = usize;
}

/// The leaf callbacks, shared by the full recorder and the leaves-only recorder.
macro_rules! leaf_callbacks {
    () => {
    fn visit_binary_operator(&mut self, o: BinaryOperator) -> Result<Self> {
        self.leaf(format!("b:{}", op_name(&o)))
    }
    fn visit_unary_operator(&mut self, o: UnaryOperator) -> Result<Self> {
        self.leaf(format!("u:{}", op_name(&o)))
    }
    fn visit_literal_expression(&mut self, e: &WithRange<LiteralExpression>) -> Result<Self> {
        self.leaf(match e.0 {
            LiteralExpression::Mysterious => "l:mysterious",
            LiteralExpression::Null => "l:null",
            LiteralExpression::Boolean(_) => "l:bool",
            LiteralExpression::Number(_) => "l:num",
            LiteralExpression::String(_) => "l:str",
        })
    }
    fn visit_pronoun(&mut self, _: SourceRange) -> Result<Self> {
        self.leaf("p")
    }
    fn visit_simple_identifier(&mut self, n: WithRange<&SimpleIdentifier>) -> Result<Self> {
        self.leaf(format!("s:{}", xhex(&n.0 .0)))
    }
    fn visit_common_identifier(&mut self, n: WithRange<&CommonIdentifier>) -> Result<Self> {
        self.leaf(format!("c:{}:{}", xhex(&n.0 .0), xhex(&n.0 .1)))
    }
    fn visit_proper_identifier(&mut self, n: WithRange<&ProperIdentifier>) -> Result<Self> {
        let words: Vec<String> = n.0 .0.iter().map(|w| xhex(w)).collect();
        self.leaf(format!("r:{}", words.join(":")))
    }
    fn visit_poetic_number_literal_elem(&mut self, p: &PoeticNumberLiteralElem) -> Result<Self> {
        self.leaf(match p {
            PoeticNumberLiteralElem::Word(_) => "w",
            PoeticNumberLiteralElem::WordSuffix(_) => "x",
            PoeticNumberLiteralElem::Dot => "d",
        })
    }

    };
}

impl VisitExpr for Recorder {
    // ---- leaves
    leaf_callbacks!();

    // ---- pure dispatch: record, then the default body
    fn visit_expression(&mut self, e: &Expression) -> Result<Self> {
        self.event("E")?;
        match e {
            Expression::PrimaryExpression(e) => self.visit_primary_expression(e),
            Expression::BinaryExpression(e) => self.visit_binary_expression(e),
            Expression::UnaryExpression(e) => self.visit_unary_expression(e),
        }
    }
    fn visit_primary_expression(&mut self, e: &PrimaryExpression) -> Result<Self> {
        self.event("P")?;
        match e {
            PrimaryExpression::Literal(e) => self.visit_literal_expression(e),
            PrimaryExpression::Identifier(i) => self.visit_identifier(i),
            PrimaryExpression::ArraySubscript(a) => self.visit_array_subscript(a),
            PrimaryExpression::FunctionCall(f) => self.visit_function_call(f),
            PrimaryExpression::ArrayPop(a) => self.visit_array_pop_expr(a),
        }
    }
    fn visit_identifier(&mut self, i: &WithRange<Identifier>) -> Result<Self> {
        self.event("I")?;
        match &i.0 {
            Identifier::VariableName(n) => self.visit_variable_name(WithRange(&n, i.1.clone())),
            Identifier::Pronoun => self.visit_pronoun(i.1.clone()),
        }
    }
    fn visit_variable_name(&mut self, n: WithRange<&VariableName>) -> Result<Self> {
        self.event("V")?;
        match n.0 {
            VariableName::Simple(x) => self.visit_simple_identifier(WithRange(&x, n.1.clone())),
            VariableName::Common(x) => self.visit_common_identifier(WithRange(&x, n.1.clone())),
            VariableName::Proper(x) => self.visit_proper_identifier(WithRange(&x, n.1.clone())),
        }
    }
    fn visit_assignment_lhs(&mut self, a: &AssignmentLHS) -> Result<Self> {
        self.event("L")?;
        match a {
            AssignmentLHS::Identifier(i) => self.visit_identifier(i),
            AssignmentLHS::ArraySubscript(a) => self.visit_array_subscript(a),
        }
    }
    fn visit_assignment_rhs(&mut self, a: &AssignmentRHS) -> Result<Self> {
        self.event("R")?;
        match a {
            AssignmentRHS::ExpressionList(e) => self.visit_expression_list(e),
        }
    }
    fn visit_poetic_number_assignment_rhs(&mut self, p: &PoeticNumberAssignmentRHS) -> Result<Self> {
        self.event("Q")?;
        match p {
            PoeticNumberAssignmentRHS::Expression(e) => self.visit_expression(e),
            PoeticNumberAssignmentRHS::PoeticNumberLiteral(p) => self.visit_poetic_number_literal(p),
        }
    }
    fn visit_array_push_rhs(&mut self, a: &ArrayPushRHS) -> Result<Self> {
        self.event("U")?;
        match a {
            ArrayPushRHS::ExpressionList(e) => self.visit_expression_list(e),
            ArrayPushRHS::PoeticNumberLiteral(p) => self.visit_poetic_number_literal(p),
        }
    }
    fn visit_array_pop_expr(&mut self, a: &ArrayPopExpr) -> Result<Self> {
        self.event("O")?;
        self.visit_primary_expression(&a.array)
    }
}

fn join<T: ToString>(items: &[T]) -> String {
    items.iter().map(T::to_string).collect::<Vec<_>>().join(",")
}

/// Overrides the LEAF callbacks only: every dispatching method is the library's default, so a
/// change to a default body (which the full recorder re-implements and therefore cannot see)
/// shows in the sequence of leaves.
#[derive(Clone, Default)]
struct LeafRecorder {
    events: Rc<RefCell<Vec<String>>>,
    fail_at: Rc<Cell<Option<usize>>>,
}

impl LeafRecorder {
    fn event(&mut self, ev: impl Into<String>) -> std::result::Result<usize, usize> {
        let mut events = self.events.borrow_mut();
        let i = events.len();
        events.push(ev.into());
        if self.fail_at.get() == Some(i) {
            Err(i)
        } else {
            Ok(i)
        }
    }
    fn leaf(&mut self, ev: impl Into<String>) -> Result<Self> {
        self.event(ev).map(|i| Ids(vec![i]))
    }
}

impl Visit for LeafRecorder {
    type Output = Ids;
    type Error = usize;
}

impl VisitExpr for LeafRecorder {
    leaf_callbacks!();
}

/// Output that records the SHAPE of the fold: `d` the default, `x` a leaf, `(a b)` a combine.
pub struct Shape(String);

impl Default for Shape {
    fn default() -> Self {
        Shape("d".to_string())
    }
}

impl Combine for Shape {
    fn combine(self, other: Self) -> Self {
        Shape(format!("({} {})", self.0, other.0))
    }
}

/// Overrides the leaf callbacks only; every leaf is `x`.
struct ShapeRecorder;

impl Visit for ShapeRecorder {
    type Output = Shape;
    type Error = usize;
}

macro_rules! shape_leaves {
    ($($name:ident($arg:ty)),* $(,)?) => {
        $(fn $name(&mut self, _: $arg) -> Result<Self> { Ok(Shape("x".to_string())) })*
    };
}

impl VisitExpr for ShapeRecorder {
    shape_leaves!(
        visit_binary_operator(BinaryOperator),
        visit_unary_operator(UnaryOperator),
        visit_literal_expression(&WithRange<LiteralExpression>),
        visit_pronoun(SourceRange),
        visit_simple_identifier(WithRange<&SimpleIdentifier>),
        visit_common_identifier(WithRange<&CommonIdentifier>),
        visit_proper_identifier(WithRange<&ProperIdentifier>),
        visit_poetic_number_literal_elem(&PoeticNumberLiteralElem),
    );
}

/// `walkshape`: how the walk combines the results (`ok SHAPE` / `crash`).
pub fn walk_shape(program: &Program) -> String {
    let run = catch_unwind(AssertUnwindSafe(|| {
        let mut runner = ExprVisitorRunner::with_inner(ShapeRecorder);
        runner.visit_program(program)
    }));
    match run {
        Ok(Ok(shape)) => format!("ok {}", shape.0),
        Ok(Err(f)) => format!("err {}", f),
        Err(_) => "crash".to_string(),
    }
}

/// `walkleaf`: the leaves presented by a walk, in order (`ok EV,…` / `err F EV,…` / `crash`).
pub fn walk_leaves(program: &Program, fail_at: Option<usize>) -> String {
    let run = catch_unwind(AssertUnwindSafe(|| {
        let rec = LeafRecorder::default();
        rec.fail_at.set(fail_at);
        let mut runner = ExprVisitorRunner::with_inner(rec.clone());
        let result = runner.visit_program(program);
        let events = rec.events.borrow().clone();
        (result.map(|_| ()), events)
    }));
    match run {
        Ok((Ok(()), events)) => format!("ok {}", join(&events)),
        Ok((Err(f), events)) => format!("err {} {}", f, join(&events)),
        Err(_) => "crash".to_string(),
    }
}

/// Response of `walk`: `ok EV,… | I,…`, `err F EV,…` or `crash`.
pub fn walk(program: &Program, fail_at: Option<usize>) -> String {
    walk_seq(program, fail_at, 0, fail_at)
}

/// `walkseq`: ONE runner walks the program `times` times with the callback `warm_fail` failing,
/// then once more with `fail_at`; the answer describes the last walk only (a runner carries no
/// state from one walk to the next).
pub fn walk_seq(program: &Program, warm_fail: Option<usize>, times: usize, fail_at: Option<usize>) -> String {
    let run = catch_unwind(AssertUnwindSafe(|| {
        let rec = Recorder::default();
        let mut runner = ExprVisitorRunner::with_inner(rec.clone());
        for _ in 0..times {
            rec.events.borrow_mut().clear();
            rec.fail_at.set(warm_fail);
            let _ = runner.visit_program(program);
        }
        rec.events.borrow_mut().clear();
        rec.fail_at.set(fail_at);
        let result = runner.visit_program(program);
        let events = rec.events.borrow().clone();
        (result, events)
    }));
    match run {
        Ok((Ok(ids), events)) => format!("ok {} | {}", join(&events), join(&ids.0)),
        Ok((Err(f), events)) => format!("err {} {}", f, join(&events)),
        Err(_) => "crash".to_string(),
    }
}
