import Rrss.Basic
import Rrss.Num
import Rrss.Chars
import Rrss.Token
import Rrss.Ast
