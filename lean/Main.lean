/-
  Main — the model as a request server (line protocol of /verif/PROTOCOL.md).
  Reads one request per line on stdin, writes one response per line on stdout.
  Imports model files only (no Mathlib), so it links as a native executable.
-/
import Rrss.F64
import Rrss.CharsImpl
import Rrss.Generated.Keywords
import Rrss.Lexer
import Rrss.Parser
import Rrss.ParseErrorDisplay
import Rrss.Dump
import Rrss.Interp
import Rrss.ErrorDisplay
import Rrss.Lint
import Rrss.Visit
import Rrss.TreeParse
open Rrss

abbrev F := Float

def kw : List (Str × TK) := Generated.keywords

/-! ### encodings -/

def hexDigit (n : Nat) : Char := if n < 10 then Char.ofNat (48 + n) else Char.ofNat (87 + n)

def hexOfBytes (bs : List UInt8) : String :=
  String.ofList (bs.flatMap fun b => [hexDigit (b.toNat / 16), hexDigit (b.toNat % 16)])

def hexOfStr (s : Str) : String := hexOfBytes (Env.utf8 s)

def xs (s : Str) : String := "x" ++ hexOfStr s

def hexVal (c : Char) : Option Nat :=
  if '0' ≤ c ∧ c ≤ '9' then some (c.toNat - 48)
  else if 'a' ≤ c ∧ c ≤ 'f' then some (c.toNat - 87)
  else if 'A' ≤ c ∧ c ≤ 'F' then some (c.toNat - 55)
  else none

def bytesOfHex : List Char → Option (List UInt8)
  | [] => some []
  | a :: b :: rest => do
    let x ← hexVal a
    let y ← hexVal b
    let r ← bytesOfHex rest
    pure (UInt8.ofNat (x * 16 + y) :: r)
  | _ => none

def strOfHex (h : String) : Option Str := do
  let bs ← bytesOfHex h.toList
  let s ← String.fromUTF8? (ByteArray.mk bs.toArray)
  pure s.toList

/-- `xHEX` field -/
def textField (f : String) : Option Str :=
  match f.toList with
  | 'x' :: rest => strOfHex (String.ofList rest)
  | _ => none

def S (s : Str) : String := String.ofList s

/-! ### values -/

def encKey : Key → String
  | .undef => "u"
  | .null => "n"
  | .bool true => "t"
  | .bool false => "f"
  | .str s => "s" ++ hexOfStr s

mutual
partial def encVal : Val F → String
  | .undef => "u"
  | .null => "n"
  | .bool true => "t"
  | .bool false => "f"
  | .num n => "#" ++ S (Float.bitsHex n)
  | .str s => "s" ++ hexOfStr s
  | .arr seq dict =>
    let d := (dict.map fun (k, v) => (encKey k, encVal v)).toArray.qsort (fun a b => a.1 < b.1)
    "[" ++ ",".intercalate (seq.map encVal) ++ "|" ++
      ",".intercalate (d.toList.map fun (k, v) => k ++ "=" ++ v) ++ "]"
end

/-- recursive-descent parser of the value encoding -/
partial def decVal : List Char → Option (Val F × List Char)
  | 'u' :: r => some (.undef, r)
  | 'n' :: r => some (.null, r)
  | 't' :: r => some (.bool true, r)
  | 'f' :: r => some (.bool false, r)
  | '#' :: r =>
    let bits := r.take 16
    match Float.ofBitsHex? bits with
    | some x => some (.num x, r.drop 16)
    | none => none
  | 's' :: r =>
    let h := r.takeWhile fun c => (hexVal c).isSome
    match strOfHex (String.ofList h) with
    | some s => some (.str s, r.drop h.length)
    | none => none
  | '[' :: r =>
    let rec seqLoop (r : List Char) (acc : List (Val F)) : Option (List (Val F) × List Char) :=
      match r with
      | '|' :: r' => some (acc.reverse, r')
      | ',' :: r' => seqLoop r' acc
      | _ => match decVal r with
             | some (v, r') => seqLoop r' (v :: acc)
             | none => none
    let rec dictLoop (r : List Char) (acc : List (Key × Val F)) : Option (List (Key × Val F) × List Char) :=
      match r with
      | ']' :: r' => some (acc.reverse, r')
      | ',' :: r' => dictLoop r' acc
      | _ => match decVal r with
             | some (kv, '=' :: r') =>
               match Val.toKey kv, decVal r' with
               | some k, some (v, r'') => dictLoop r'' ((k, v) :: acc)
               | _, _ => none
             | _ => none
    match seqLoop r [] with
    | some (seq, r') =>
      match dictLoop r' [] with
      | some (dict, r'') => some (.arr seq dict, r'')
      | none => none
    | none => none
  | _ => none

def valField (f : String) : Option (Val F) :=
  match decVal f.toList with
  | some (v, []) => some v
  | _ => none

/-! ### responses -/

def outcomeWord {ε α} : Outcome ε α → String
  | .ok _ => "ok"
  | .err _ => "err"
  | .crash s => "crash " ++ toString (repr s)
  | .fuel => "fuel"
  | .resource => "resource"

def parseSrc (src : Str) : Outcome (Parser.ParseErr F) (Program F) := Parser.parseProgram kw src

def parseErrShort (e : Parser.ParseErr F) : String :=
  S e.codeName ++ " " ++ toString e.line

/-- the tree of a `…t` request: `xHEX` of the s-expression that `parse` prints -/
def treeField (f : String) : Option (Program F) := (textField f).bind TreeParse.program

/-- `run` from the parse result on; `wF rF stepsF` are the request fields W R STEPS -/
def runParsed (parsed : Outcome (Parser.ParseErr F) (Program F)) (input : Str) (wF rF stepsF : String) : String :=
  let w : Option Nat := if wF == "-" then none else wF.toNat?
  let r : Option Nat := if rF == "-" then none else rF.toNat?
  let steps := stepsF.toNat?.getD 100000
  match parsed with
  | .err e => "parseerr " ++ parseErrShort e ++ " x 0"
  | .crash s => "crash " ++ toString (repr s) ++ " x 0"
  | .fuel => "fuel x 0"
  | .resource => "resource x 0"
  | .ok prog =>
    let env : Env F := { input := input, wbudget := w, readFault := r, steps := steps }
    let fuel := 2000
    let (res, env') := Interp.execProgram fuel prog env
    let tail := " x" ++ hexOfBytes env'.out ++ " " ++ toString env'.handed
    match res with
    | .ok _ => "ok" ++ tail
    | .err e => "rterr " ++ S e.className ++ " " ++ xs e.render ++ tail
    | .crash s => "crash " ++ toString (repr s) ++ tail
    | .fuel => "fuel" ++ tail
    | .resource => "resource" ++ tail

def handleRun (args : List String) : String :=
  match args with
  | [srcF, inF, wF, rF, stepsF] =>
    match textField srcF, textField inF with
    | some src, some input => runParsed (parseSrc src) input wF rF stepsF
    | _, _ => "bad"
  | _ => "bad"

/-- `runt`: `run` on a given tree -/
def handleRunT (args : List String) : String :=
  match args with
  | [treeF, inF, wF, rF, stepsF] =>
    match treeField treeF, textField inF with
    | some prog, some input => runParsed (.ok prog) input wF rF stepsF
    | _, _ => "bad"
  | _ => "bad"

def encDiag (d : Diag) : String :=
  toString d.line ++ "," ++ xs d.issue ++ "," ++ toString d.suggestions.length ++
    String.join (d.suggestions.map fun s => "," ++ xs s)

def lintParsed (parsed : Outcome (Parser.ParseErr F) (Program F)) : String :=
  match parsed with
  | .err e => "parseerr " ++ parseErrShort e
  | .ok prog =>
    match Lint.run prog with
    | .ok ds => "ok " ++ toString ds.length ++ " " ++ ";".intercalate (ds.map encDiag)
    | o => outcomeWord o
  | o => outcomeWord o

def handleLint (src : Str) : String := lintParsed (parseSrc src)

def foldErrName : FoldErr → String
  | .noType => "NoType"
  | .unknownValue => "UnknownValue"
  | .wrongType => "WrongType"
  | .needMoreInfo => "NeedMoreInfo"
  | .possibleValueIgnored => "PossibleValueIgnored"

def handleFold (src : Str) : String :=
  match parseSrc src with
  | .ok prog =>
    match prog.code with
    | (.mk _ (.output e :: _)) :: _ =>
      let n := match Fold.numExpr e with
        | .ok (x : F) => "ok:" ++ S (Float.bitsHex x)
        | .error err => "err:" ++ foldErrName err
      let s := match Fold.strExpr e with
        | .ok t => "ok:" ++ xs t
        | .error err => "err:" ++ foldErrName err
      "num=" ++ n ++ " str=" ++ s
    | _ => "bad"
  | .crash s => "crash " ++ toString (repr s)
  | _ => "bad"

def opName : BinOp → String
  | .plus => "plus" | .minus => "minus" | .multiply => "multiply" | .divide => "divide"
  | .and => "and" | .or => "or" | .nor => "nor" | .eq => "eq" | .notEq => "noteq"
  | .greater => "greater" | .greaterEq => "greatereq" | .less => "less" | .lessEq => "lesseq"

def encEvent : Event F → String
  | .leaf (.binOp o) => "b:" ++ opName o
  | .leaf (.unOp .minus) => "u:minus"
  | .leaf (.unOp .not) => "u:not"
  | .leaf (.lit .mysterious) => "l:mysterious"
  | .leaf (.lit .null) => "l:null"
  | .leaf (.lit (.bool _)) => "l:bool"
  | .leaf (.lit (.num _)) => "l:num"
  | .leaf (.lit (.str _)) => "l:str"
  | .leaf .pronoun => "p"
  | .leaf (.simple s) => "s:" ++ xs s
  | .leaf (.common p w) => "c:" ++ xs p ++ ":" ++ xs w
  | .leaf (.proper ws) => "r:" ++ ":".intercalate (ws.map xs)
  | .leaf (.pelem (.word _)) => "w"
  | .leaf (.pelem (.suffix _)) => "x"
  | .leaf (.pelem .dot) => "d"
  | .disp .expr => "E"
  | .disp .primary => "P"
  | .disp .ident => "I"
  | .disp .varName => "V"
  | .disp .lhs => "L"
  | .disp .rhs => "R"
  | .disp .poeticRhs => "Q"
  | .disp .pushRhs => "U"
  | .disp .popExpr => "O"

def walkParsed (parsed : Outcome (Parser.ParseErr F) (Program F)) (failF : String) : String :=
  match parsed with
  | .ok prog =>
    let failAt : Option Nat := if failF == "-" then none else failF.toNat?
    let (res, st) := Walk.program (recorder F) prog { failAt := failAt }
    let evs := ",".intercalate (st.log.reverse.map encEvent)
    match res with
    | .ok out => "ok " ++ evs ++ " | " ++ ",".intercalate (out.map toString)
    | .error i => "err " ++ toString i ++ " " ++ evs
  | .crash s => "crash " ++ toString (repr s)
  | _ => "bad"

def handleWalk (src : Str) (failF : String) : String := walkParsed (parseSrc src) failF

/-- `walkshape`: a visitor whose output records the SHAPE of the fold (`d` the default, `x` a leaf,
    `(a b)` a combine): neither associative nor with a neutral default, so the way the results are
    combined — from the default, left to right — is visible in the answer. -/
def shapeVisitor : Visitor F Unit String Nat where
  dflt := "d"
  combine a b := "(" ++ a ++ " " ++ b ++ ")"
  leaf _ _ := pure "x"
  pre _ := pure ()

def handleWalkShape (src : Str) : String :=
  match parseSrc src with
  | .ok prog =>
    match (Walk.program shapeVisitor prog ()).1 with
    | .ok out => "ok " ++ out
    | .error i => "err " ++ toString i
  | .crash s => "crash " ++ toString (repr s)
  | _ => "bad"

def errClass (e : ValErr F) : String := "err:" ++ S e.className

def vres (r : VRes F (Val F)) (short : Bool := false) : String :=
  match r with
  | .ok v => encVal v
  | .err e => if short then "err" else errClass e
  | o => outcomeWord o

def cap : Nat := 1000000

def handleVal (args : List String) : String :=
  match args with
  | [op, a, b] =>
    match op, valField a with
    | "inc", some va =>
      match b.toInt? with
      | some k => vres (Val.inc va k) true
      | none => "bad"
    | "round", some va =>
      (match b with
       | "up" => vres (Val.roundUp va) true
       | "down" => vres (Val.roundDown va) true
       | "nearest" => vres (Val.roundNearest va) true
       | _ => "bad")
    | _, some va =>
      let vb? : Option (Option (Val F)) := if b == "-" then some none else (valField b).map some
      match vb? with
      | none => "bad"
      | some ob =>
        match op, ob with
        | "split", _ => vres (Val.split va ob)
        | "join", _ => vres (Val.join va ob)
        | "cast", _ => vres (Val.cast va ob)
        | "plus", some vb => vres (Val.plus cap va vb)
        | "subtract", some vb => encVal (Val.subtract va vb)
        | "multiply", some vb => vres (Val.multiply cap va vb)
        | "divide", some vb => encVal (Val.divide va vb)
        | "equals", some vb => if Val.equals va vb then "t" else "f"
        | "compare", some vb =>
          (match Val.compare va vb with
           | .ok (some .lt) => "lt"
           | .ok (some .eq) => "eq"
           | .ok (some .gt) => "gt"
           | .ok none => "none"
           | .err _ => "err"
           | o => outcomeWord o)
        | "index", some vb => vres (Val.index va vb)
        | "push", some (.arr seq _) => vres (Val.push va seq)
        | _, _ => "bad"
    | _, none => "bad"
  | [op, a] =>
    match op, valField a with
    | "negate", some va => vres (Val.negate va) true
    | "truthy", some va => if va.isTruthy then "t" else "f"
    | "out", some va => (match va.toOutput with | .ok s => xs s | o => outcomeWord o)
    | "display", some va => xs va.display
    | "pop", some va =>
      (match Val.pop va with
       | .ok (x, rest) => encVal x ++ " " ++ encVal rest
       | .err _ => "err"
       | o => outcomeWord o)
    | _, _ => "bad"
  | ["store", a, b, c] =>
    match valField a, valField b, valField c with
    | some va, some vb, some vc =>
      let (v', st) := Val.updateAt cap (fun _ => (.ok (vc, ()) : VRes F (Val F × Unit))) [vb] va
      (match st with
       | .ok () => encVal v'
       | .err e => errClass e
       | o => outcomeWord o)
    | _, _, _ => "bad"
  | _ => "bad"

def handle (line : String) : String :=
  match line.splitOn " " with
  | ["lex", f] =>
    match textField f with
    | some src => S (Dump.lexResponse (Lexer.lexAll kw src : Outcome Unit (List (Tok F))))
    | none => "bad"
  | ["parse", f] =>
    match textField f with
    | some src => S (Dump.parseResponse (parseSrc src))
    | none => "bad"
  | "run" :: args => handleRun args
  | ["lint", f] =>
    match textField f with
    | some src => handleLint src
    | none => "bad"
  | ["fold", f] =>
    match textField f with
    | some src => handleFold src
    | none => "bad"
  | ["walkshape", f] =>
    match textField f with
    | some src => handleWalkShape src
    | none => "bad"
  | ["walk", f, fail] =>
    match textField f with
    | some src => handleWalk src fail
    | none => "bad"
  | ["dumpt", f] =>
    match treeField f with
    | some prog => "ok " ++ S (Dump.program prog)
    | none => "bad"
  | ["walkt", f, fail] =>
    match treeField f with
    | some prog => walkParsed (.ok prog) fail
    | none => "bad"
  | "runt" :: args => handleRunT args
  | ["lintt", f] =>
    match treeField f with
    | some prog => lintParsed (.ok prog)
    | none => "bad"
  | "val" :: args => handleVal args
  | ["fmt", bits] =>
    match Float.ofBitsHex? bits.toList with
    | some x => xs (NumOps.fmt x)
    | none => "bad"
  | ["num", f] =>
    match textField f with
    | some s => (match (NumOps.parse s : Option F) with
                 | some x => S (Float.bitsHex x)
                 | none => "none")
    | none => "bad"
  | _ => "bad"

partial def loop (h : IO.FS.Stream) (out : IO.FS.Stream) : IO Unit := do
  let line ← h.getLine
  if line.isEmpty then return ()
  let line := (line.dropEndWhile fun c => c == '\n' || c == '\r').toString
  out.putStrLn (handle line)
  out.flush
  loop h out

def main : IO Unit := do
  loop (← IO.getStdin) (← IO.getStdout)
