/-
  TestLP — answers `lex xHEX` / `parse xHEX` requests (PROTOCOL.md) with the Lean model of the
  lexer/parser, using TEST instances: ASCII-only `CharOps`, `N := Float` with a naive decimal
  `parse`. Run: `lake env lean --run TestLP.lean < requests.txt`
-/
import Rrss
open Rrss

/-! ### test instances -/

def asciiUpper (c : Char) : Bool := 65 ≤ c.toNat && c.toNat ≤ 90
def asciiLowerC (c : Char) : Bool := 97 ≤ c.toNat && c.toNat ≤ 122

instance testCharOps : CharOps where
  isAlphabetic c := asciiUpper c || asciiLowerC c || c.toNat ≥ 128
  isNumeric c := isAsciiDigit c
  isWhitespace c := c.toNat == 9 || c.toNat == 10 || c.toNat == 11 || c.toNat == 12 ||
    c.toNat == 13 || c.toNat == 32
  isUppercase c := asciiUpper c
  isLowercase c := asciiLowerC c
  toLower c := [if asciiUpper c then Char.ofNat (c.toNat + 32) else c]

/-- digits* ['.' digits*] ([eE] digits+)? with at least one mantissa digit (the lexer only
    passes ASCII alphanumerics and '.') -/
def takeDigits : List Char → Nat → Nat → Nat × Nat × List Char
  | c :: cs, acc, n => if isAsciiDigit c then takeDigits cs (acc * 10 + (c.toNat - 48)) (n + 1) else (acc, n, c :: cs)
  | [], acc, n => (acc, n, [])

def mkFloat (m : Nat) (e10 : Int) : Float :=
  if m == 0 then 0.0
  else if e10 ≥ 0 then
    if e10 > 400 then (1.0 : Float) / 0.0 else Float.ofNat (m * 10 ^ e10.toNat)
  else
    let k := (-e10).toNat
    if k > 800 + (Nat.repr m).length then 0.0 else Float.ofScientific m true k

def parseFloat (s : Str) : Option Float :=
  let (ip, ni, r1) := takeDigits s 0 0
  let (m, nf, r2) : Nat × Nat × List Char :=
    match r1 with
    | '.' :: r => takeDigits r ip 0
    | r => (ip, 0, r)
  if ni + nf == 0 then none else
  match r2 with
  | [] => some (mkFloat m (-(Int.ofNat nf)))
  | c :: r =>
    if c == 'e' || c == 'E' then
      let (e, ne, r3) := takeDigits r 0 0
      if ne == 0 || !r3.isEmpty then none else some (mkFloat m (Int.ofNat e - Int.ofNat nf))
    else none

instance testNumOps : NumOps Float where
  add := (· + ·)
  sub := (· - ·)
  mul := (· * ·)
  div := (· / ·)
  neg := Float.neg
  floor := Float.floor
  ceil := Float.ceil
  round := Float.round
  trunc x := if x < 0 then Float.ceil x else Float.floor x
  cmp a b := if a < b then some .lt else if a > b then some .gt else if a == b then some .eq else none
  beq a b := a == b
  ofInt i := Float.ofInt i
  toUSize x := x.toUInt64.toNat
  toI64 x := x.toInt64.toInt
  fmt x := (toString x).toList
  parse := parseFloat

def hex16 (n : Nat) : Str :=
  (List.range 16).map fun i => Dump.hexDigit ((n >>> (4 * (15 - i))) % 16)

instance testNumBits : NumBits Float where
  bitsHex x := if x.isNaN then str% "7ff8000000000000" else hex16 x.toBits.toNat
  ofBitsHex? _ := none

/-! ### request loop -/

def hexVal (c : Char) : Option Nat :=
  if 48 ≤ c.toNat && c.toNat ≤ 57 then some (c.toNat - 48)
  else if 97 ≤ c.toNat && c.toNat ≤ 102 then some (c.toNat - 87)
  else none

def unhex : List Char → ByteArray → Option ByteArray
  | [], acc => some acc
  | [_], _ => none
  | a :: b :: r, acc =>
    match hexVal a, hexVal b with
    | some x, some y => unhex r (acc.push (UInt8.ofNat (x * 16 + y)))
    | _, _ => none

def decodeText (field : String) : Option Str :=
  match field.toList with
  | 'x' :: h => (unhex h ByteArray.empty).bind fun b => (String.fromUTF8? b).map String.toList
  | _ => none

def answer (line : String) : String :=
  match line.splitOn " " with
  | ["lex", f] =>
    match decodeText f with
    | some src => String.ofList (Dump.lexResponse (Lexer.lexAll (N := Float) Lexer.defaultKeywords src))
    | none => "bad"
  | ["parse", f] =>
    match decodeText f with
    | some src => String.ofList (Dump.parseResponse (Parser.parseProgram (N := Float) Lexer.defaultKeywords src))
    | none => "bad"
  | _ => "bad"

partial def loop (stdin : IO.FS.Stream) (stdout : IO.FS.Stream) : IO Unit := do
  let line ← stdin.getLine
  if line.isEmpty then return
  let line := String.ofList ((line.toList.reverse.dropWhile (fun c => c == '\n' || c == '\r')).reverse)
  stdout.putStrLn (answer line)
  stdout.flush
  loop stdin stdout

def main : IO Unit := do
  loop (← IO.getStdin) (← IO.getStdout)
