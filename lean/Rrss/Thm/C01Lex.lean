/-
  Rrss.Thm.C01Lex — property C01, lexer half: lexing is total.
  (Helper lemmas: Rrss/Lemmas/Lexer{Bytes,Scan,Delim,Dispatch,Inv,Tiling,C12,Eval}.lean.)
-/
import Rrss.Lemmas.LexerC12
import Rrss.Lemmas.LexerEval
namespace Rrss
namespace Thm
namespace C01Lex
open Lexer

/-- **C01, lexer half (T1).** For every source text shorter than 4 GiB, every keyword table, every
    Unicode classification (`CharOps`) and every number type (`NumOps`), the lexer model returns a
    token list: it never reaches a crash site (no out-of-range or off-boundary slice
    `lexSubstr`, no `make_loc_from` overflow/underflow `lexMakeLoc`, no `usize` underflow
    `lexSubUnderflow`, no empty word `lexWordEmpty`, no off-boundary `advance_to` `lexAdvance`),
    never returns an error and never runs out of fuel (the loops are well-founded). -/
theorem lexAll_total {N : Type} [CharOps] [NumOps N] (kw : List (Str × TK)) (src : Str)
    (h : ulen src < 2 ^ 32) : ∃ toks : List (Tok N), lexAll kw src = .ok toks :=
  c12_total kw src h

/-- non-vacuity: the example text (two-line string followed by `'s`, an error token at offset 14,
    a staged suffix after a pronoun, dropped apostrophes) meets the hypothesis … -/
example : ulen exSrc < 2 ^ 32 := by decide

/-- … and the result is the expected non-trivial token list (kernel evaluation). -/
example : ∃ toks : List (Tok Int),
    @lexAll Int asciiOps numOpsInt defaultKeywords exSrc = .ok toks ∧ toks.map view = exViews :=
  exSrc_lexes

/-- **C01, lexer half: the snapshots the parser reads never crash `current_loc`.** The lexer state
    recorded after every token (`Tok.after`: what `current_idx`/`current_line`/`current_loc` read
    right after that token was returned) has an index that is a character boundary of the source,
    lies at or after the token's end and within the source, and is not before the recorded line
    start (so `idx as u32 - line_start` cannot underflow, site `lexCurrentLoc`, and the staged
    token's start index exists, site `lexStagedIndex`). -/
theorem snapshots_in_range {N : Type} [CharOps] [NumOps N] {kw : List (Str × TK)} {src : Str}
    {toks : List (Tok N)} (hlen : ulen src < 2 ^ 32) (h : lexAll kw src = .ok toks) :
    ∀ t ∈ toks, t.after.lineStart ≤ t.after.idx ∧ t.after.idx ≤ ulen src ∧
      t.start + ulen t.spelling ≤ t.after.idx ∧ isCharBoundary src t.after.idx = true :=
  c01_snapshots hlen h

example : ∃ toks : List (Tok Int), toks.map view = exViews ∧
    ∀ t ∈ toks, t.after.lineStart ≤ t.after.idx ∧ t.after.idx ≤ ulen exSrc ∧
      t.start + ulen t.spelling ≤ t.after.idx ∧ isCharBoundary exSrc t.after.idx = true := by
  obtain ⟨toks, h, hv⟩ := exSrc_lexes
  exact ⟨toks, hv, @snapshots_in_range Int asciiOps numOpsInt _ _ _ (by decide) h⟩

/-- **C01, lexer half: the snapshot of the exhausted lexer** (`eofSnap`, what the parser reads at
    end of input) has index `len`, a line start not after it, and — if a line feed is white
    space — its line/column are the true position of the end of the source. -/
theorem eof_snapshot {N : Type} [CharOps] [NumOps N] {kw : List (Str × TK)} {src : Str}
    {toks : List (Tok N)} (hlen : ulen src < 2 ^ 32) (h : lexAll kw src = .ok toks) :
    (eofSnap src toks).idx = ulen src ∧ (eofSnap src toks).lineStart ≤ (eofSnap src toks).idx ∧
    (CharOps.isWhitespace '\n' = true →
      (⟨(eofSnap src toks).line, (eofSnap src toks).idx - (eofSnap src toks).lineStart⟩ : Loc) =
        Spec.trueLoc src (ulen src)) :=
  c01_eofSnap hlen h

example : ∃ toks : List (Tok Int), toks.map view = exViews ∧
    (eofSnap exSrc toks).idx = ulen exSrc ∧
    (eofSnap exSrc toks).lineStart ≤ (eofSnap exSrc toks).idx := by
  obtain ⟨toks, h, hv⟩ := exSrc_lexes
  have := @eof_snapshot Int asciiOps numOpsInt _ _ _ (by decide) h
  exact ⟨toks, hv, this.1, this.2.1⟩

end C01Lex
end Thm
end Rrss
