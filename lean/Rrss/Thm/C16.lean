/-
  C16 — Visitors see every node exactly once, in order, and stop at the first error.

  `Walk.*` (Rrss/Visit.lean) transcribes the default methods of `VisitExpr` and
  `ExprVisitorRunner`'s `VisitProgram` impl (src/analysis/visit.rs).  `Spec.Nodes.nodes p` is the
  independent enumeration of the syntax tree in field order, as the sequence of callbacks a
  visitor is entitled to see.  `recorder N` is the recording visitor of the correspondence check:
  it logs every callback (newest first), numbers the invocations from 0, answers a leaf callback
  with `[its number]`, combines by `++` from `[]`, and fails with `Err(i)` at invocation number
  `failAt = some i`.
-/
import Rrss.Lemmas.Recorder
import Rrss.NumInt
namespace Rrss.C16
open Spec.Nodes
variable {N : Type}

/-- C16.1 + C16.2, in one equation.  Walking any program with the recorder (nothing fails)
    succeeds; the log is exactly `nodes p` — every node of the tree presented exactly once,
    parents before children, children in field order, nothing skipped, nothing twice —; the
    invocation counter equals the number of nodes; and the output is the list of the positions
    of the leaf callbacks in increasing order, i.e. the leaf outputs combined left to right
    starting from the default. -/
theorem walk_recorder (p : Program N) :
    Walk.program (recorder N) p {} =
      (.ok (leafIndices (nodes p)),
       { log := (nodes p).reverse, count := (nodes p).length, failAt := none }) := by
  have h := recorder_program_ok p {} (by intro i hi; cases hi)
  rw [Recorder.idxFrom_zero] at h
  simpa using h

/-- C16.1 (as planned): every node exactly once, in order. -/
theorem every_node_once_in_order (p : Program N) :
    ∃ out st, Walk.program (recorder N) p {} = (.ok out, st) ∧
      st.log.reverse = nodes p ∧ st.count = (nodes p).length :=
  ⟨_, _, walk_recorder p, by simp, rfl⟩

/-- C16.2 (as planned): the result is the left-to-right combination of the leaf outputs: the
    positions, within `nodes p`, of the leaf callbacks, in increasing order. -/
theorem fold_left_to_right (p : Program N) :
    (Walk.program (recorder N) p {}).1 =
      .ok ((List.range (nodes p).length).filter fun i => (nodes p)[i]?.any Event.isLeaf) := by
  rw [walk_recorder]; rfl

/-- Concrete evaluation (N := Int).  The program is
    `cut X into it with 2` / `if A + 1, 2` `F taking (not B)` `else` `rock (roll Xs at 0) like <word> .`;
    it exercises the mutation parameter, a list tail, a callee name, an else block, a nested
    subscript under a pop, and poetic elements. -/
example :
    let r : Range := default
    let x (s : Str) : Primary Int := .ident (.var (.simple s)) r
    let p : Program Int := ⟨[.mk default [
      .mutation .cut (x (str% "x")) (some (.ident .pronoun r)) (some (.prim (.lit (.num 2) r))),
      .ifS (.bin .plus (.prim (x (str% "a"))) (.prim (.lit (.num 1) r)) [.prim (.lit (.num 2) r)])
        (.mk default [.call (.simple (str% "f")) r [.un .not (.prim (x (str% "b")))]])
        (some (.mk default [.push (.pop (.sub (x (str% "xs")) (.lit (.num 0) r)))
          (some (.lit [.word (str% "w"), .dot]))]))]]⟩
    nodes p =
      [ -- cut X into it with 2
        .disp .primary, .disp .ident, .disp .varName, .leaf (.simple (str% "x")),
        .disp .lhs, .disp .ident, .leaf .pronoun,
        .disp .expr, .disp .primary, .leaf (.lit (.num 2)),
        -- condition A + 1, 2
        .disp .expr,
        .disp .expr, .disp .primary, .disp .ident, .disp .varName, .leaf (.simple (str% "a")),
        .leaf (.binOp .plus),
        .disp .expr, .disp .primary, .leaf (.lit (.num 1)),
        .disp .expr, .disp .primary, .leaf (.lit (.num 2)),
        -- then: F taking not B
        .disp .varName, .leaf (.simple (str% "f")),
        .disp .expr, .leaf (.unOp .not),
        .disp .expr, .disp .primary, .disp .ident, .disp .varName, .leaf (.simple (str% "b")),
        -- else: rock roll Xs at 0 like w .
        .disp .primary, .disp .popExpr, .disp .primary,
        .disp .primary, .disp .ident, .disp .varName, .leaf (.simple (str% "xs")),
        .disp .primary, .leaf (.lit (.num 0)),
        .disp .pushRhs, .leaf (.pelem (.word (str% "w"))), .leaf (.pelem .dot) ] ∧
    Walk.program (recorder Int) p {} =
      (.ok [3, 6, 9, 15, 16, 19, 22, 24, 26, 31, 38, 40, 42, 43],
       { log := (nodes p).reverse, count := 44, failAt := none }) ∧
    -- failing in the middle (callback number 16 is the `+`)
    Walk.program (recorder Int) p { failAt := some 16 } =
      (.error 16, { log := ((nodes p).take 17).reverse, count := 17, failAt := some 16 }) := by
  intro r x p
  decide +kernel

/-- C16.2, general form (stretch).  For ANY visitor whose `combine` is associative with `dflt`
    neutral, whose dispatch hooks do nothing, whose leaf callbacks are pure functions `f` of the
    leaf and its range, and which keeps the default `visit_variable_name`: the walk never fails,
    leaves the state alone and returns the left fold, starting from the default, of the leaf
    outputs in the order of `leaves p` (= the leaf callbacks of `nodes p`, see
    `leaves_are_the_leaf_events`). -/
theorem fold_general {σ Out E : Type} (v : Visitor N σ Out E) (f : Leaf N → Range → Out)
    (assoc : ∀ a b c, v.combine (v.combine a b) c = v.combine a (v.combine b c))
    (dflt_left : ∀ a, v.combine v.dflt a = a) (dflt_right : ∀ a, v.combine a v.dflt = a)
    (hpre : ∀ d, v.pre d = pure ()) (hleaf : ∀ l r, v.leaf l r = pure (f l r))
    (hvn : v.varName = none) (p : Program N) (s : σ) :
    Walk.program v p s =
      (.ok (((leaves p).map fun lr => f lr.1 lr.2).foldl v.combine v.dflt), s) :=
  Walk.program_pure ⟨assoc, dflt_left, dflt_right⟩ f hpre hleaf hvn p s

/-- The hypotheses of `fold_general` are satisfiable by a non-trivial visitor: the literal
    counter of the crate's own visitor tests (`Out = Nat`, `+`, `0`; a literal counts 1). -/
example : ∃ (v : Visitor Int Unit Nat Unit) (f : Leaf Int → Range → Nat),
    (∀ a b c, v.combine (v.combine a b) c = v.combine a (v.combine b c)) ∧
    (∀ a, v.combine v.dflt a = a) ∧ (∀ a, v.combine a v.dflt = a) ∧
    (∀ d, v.pre d = pure ()) ∧ (∀ l r, v.leaf l r = pure (f l r)) ∧ v.varName = none ∧
    f (.lit .null) default = 1 ∧ f .pronoun default = 0 :=
  ⟨{ dflt := 0, combine := (· + ·), pre := fun _ => pure (),
     leaf := fun l _ => pure (match l with | .lit _ => 1 | _ => 0) },
   fun l _ => match l with | .lit _ => 1 | _ => 0,
   Nat.add_assoc, Nat.zero_add, Nat.add_zero, fun _ => rfl, fun _ _ => rfl, rfl, rfl, rfl⟩

/-- `leaves p` (the leaves with the ranges handed to the callbacks) lists exactly the leaf
    callbacks of `nodes p`, in the same order. -/
theorem leaves_are_the_leaf_events (p : Program N) :
    (leaves p).map (fun lr => Event.leaf lr.1) = (nodes p).filter Event.isLeaf :=
  leaves_eq_filter p

/-- C16.3.  If callback number `i` (counting from 0) fails and the tree has more than `i`
    nodes, the walk returns that very error, and exactly the first `i + 1` callbacks of
    `nodes p` were invoked, in order: the first error ends the walk and is returned unchanged. -/
theorem failure_prefix (p : Program N) (i : Nat) (hi : i < (nodes p).length) :
    Walk.program (recorder N) p { failAt := some i } =
      (.error i,
       { log := ((nodes p).take (i + 1)).reverse, count := i + 1, failAt := some i }) := by
  have h := recorder_program_fail p { failAt := some i } i rfl (Nat.zero_le _)
    (by simpa using hi)
  simpa using h

/-- C16.3, the other half: a failure point at or beyond the number of nodes is never reached;
    the walk is as without one. -/
theorem failure_beyond_end (p : Program N) (i : Nat) (hi : (nodes p).length ≤ i) :
    Walk.program (recorder N) p { failAt := some i } =
      (.ok (leafIndices (nodes p)),
       { log := (nodes p).reverse, count := (nodes p).length, failAt := some i }) := by
  have h := recorder_program_ok p { failAt := some i }
    (by intro j hj; cases hj; right; simpa using hi)
  rw [Recorder.idxFrom_zero] at h
  simpa using h

/-- both halves of C16.3 have instances on a one-statement program (`say it`: 4 callbacks) -/
example :
    let p : Program Int := ⟨[.mk default [.output (.prim (.ident .pronoun default))]]⟩
    (nodes p).length = 4 ∧ (2 < (nodes p).length) ∧ ((nodes p).length ≤ 4) ∧
    (Walk.program (recorder Int) p { failAt := some 2 }).1 = .error 2 ∧
    (Walk.program (recorder Int) p { failAt := some 4 }).1 = .ok [3] := by
  intro p
  decide +kernel

end Rrss.C16
