/-
  Rrss.Thm.C18 — the constant-assignment lint (`BoringAssignmentPass`) is exact, never crashes,
  and the poetic words of its suggestions spell exactly the reported value.

  Model: `Lint.boringAssign / boringPoetic / boringPush / boringStmt / boringBlocks / run`
  (Rrss/Lint.lean; mirrors src/linter/passes/boring_assignment.rs with the D8 repair
  `hasPoeticSpelling`), folders `Fold.numList / strList / numExpr / strExpr` (Rrss/Fold.lean),
  poetic literals `Poetic.items / lengths / dotPos / computeValue` (Rrss/Poetic.lean).
  Independent specifications: Rrss/Spec/PoeticDigits.lean (`spell`, `reading`, `ofPrinted`,
  `digits`, `pointPos`, `elems`), Rrss/Spec/NestedStmts.lean (`Program.allStmts`),
  Rrss/Spec/ConstExpr.lean (`Const`), Rrss/Spec/PoeticString.lean (`leavesCommentOpen`).

  Interface with C02/C11 (NOT proved here): for a letter that forms no keyword, the front end
  turns the text `spell t` with every `*` replaced by that letter into the poetic literal whose
  element list is `Spec.PoeticDigits.elems letter (spell t)` (one `word` per star run, one `dot`
  per period). Everything after that point — what the literal's digits, decimal point and value
  are — is proved below against the model's own `Poetic` functions.
-/
import Rrss.Lemmas.LintDigits
import Rrss.NumInt
namespace Rrss
namespace C18
open Lint NumOps Spec.PoeticDigits

/-! ### running example over `N := Int`: `put 105 into X` (line 3) -/

private def rX : Range := ⟨⟨3, 13⟩, ⟨3, 14⟩⟩
private def r105 : Range := ⟨⟨3, 4⟩, ⟨3, 7⟩⟩
private def destX : Lhs Int := .ident (.var (.simple (str% "X"))) rX
private def val105 : ExprList Int := ⟨.prim (.lit (.num 105) r105), []⟩
private def valStr : ExprList Int := ⟨.prim (.lit (.str (str% "a b")) r105), []⟩
private def valVar : ExprList Int := ⟨.prim (.ident (.var (.simple (str% "Y"))) r105), []⟩

section
variable {N : Type} [NumOps N]

/-! ## 1. WHEN: exactness -/

/-- **Plain assignment, one diagnostic.** `boringAssign` yields exactly one diagnostic `d` if and
    only if the assignment is not compound and EITHER the value list folds to a number `x`, in
    which case `d` names the rendered target, `fmt x`, the line of the value, and suggests
    "`target` is `words`" (`words = spell (fmt x)`) when — and only when — `fmt x` has a poetic
    spelling; OR the numeric folder answers `wrongType` and the string folder yields `s`, in which
    case `d` names the target, the quoted `s`, the line of the value, and suggests
    "`target` says `s`" exactly when `s` has a poetic string spelling (`hasPoeticStringSpelling`:
    no line break and no comment left open, see part 4). -/
theorem assign_reported_iff (dest : Lhs N) (op : Option BinOp) (value : ExprList N) (d : Diag) :
    boringAssign dest op value = .ok [d] ↔
      op = none ∧
      ((∃ x, Fold.numList value = .ok x ∧
          d = { issue := issueText (fmt x) dest.render,
                suggestions :=
                  if hasPoeticSpelling (fmt x) = true
                  then [suggestionText (dest.render ++ str% " is " ++ spell (fmt x))] else [],
                line := value.range.line }) ∨
       (Fold.numList value = .error .wrongType ∧
          ∃ s, Fold.strList value = .ok s ∧
          d = { issue := issueText ('"' :: s ++ ['"']) dest.render,
                suggestions :=
                  if hasPoeticStringSpelling s false = true
                  then [suggestionText (dest.render ++ str% " says " ++ s)] else [],
                line := value.range.line })) :=
  LintDigits.boringAssign_one dest op value d

example : boringAssign destX none val105 =
    .ok [{ issue := str% "Assignment of literal value `105` into `X` isn't very rock'n'roll",
           suggestions := [str% "Consider using a poetic literal such as: `X is * ********** *****`"],
           line := 3 }] := rfl
example : boringAssign destX none valStr =
    .ok [{ issue := str% "Assignment of literal value `\"a b\"` into `X` isn't very rock'n'roll",
           suggestions := [str% "Consider using a poetic literal such as: `X says a b`"],
           line := 3 }] := rfl

/-- **Plain assignment, no diagnostic.** `boringAssign` yields no diagnostic if and only if the
    assignment is compound, or neither (the value list folds to a number) nor (the numeric folder
    answers `wrongType` and the string folder succeeds) holds. -/
theorem assign_silent_iff (dest : Lhs N) (op : Option BinOp) (value : ExprList N) :
    boringAssign dest op value = .ok [] ↔
      ¬ (op = none ∧
         ((∃ x, Fold.numList value = .ok x) ∨
          (Fold.numList value = .error .wrongType ∧ ∃ s, Fold.strList value = .ok s))) :=
  LintDigits.boringAssign_none dest op value

example : boringAssign destX (some .plus) val105 = .ok [] := rfl
example : boringAssign destX none valVar = .ok [] := rfl

/-- **Plain assignment, in terms of syntax.** A diagnostic is produced exactly when the assignment
    is not compound and its value is a single expression that is either built solely from number
    literals, unary minus and `+ − × ÷` (`Const`, C17) or a plain string literal. -/
theorem assign_reported_iff_syntax (dest : Lhs N) (op : Option BinOp) (value : ExprList N) :
    (∃ d, boringAssign dest op value = .ok [d]) ↔
      op = none ∧ value.rest = [] ∧
        (Const value.first ∨ ∃ s r, value.first = .prim (.lit (.str s) r)) :=
  LintDigits.assign_reported_syntactic dest op value

/-- **Poetic assignment, one diagnostic.** `boringPoetic` yields exactly one diagnostic `d` iff
    the right-hand side is an ordinary expression `e` (not a poetic literal) and the same fold
    condition holds for `e`; `d` names the target, the value and the line of `e` as for plain
    assignments. -/
theorem poetic_reported_iff (dest : Lhs N) (rhs : PoeticRhs N) (d : Diag) :
    boringPoetic dest rhs = .ok [d] ↔
      ∃ e, rhs = .expr e ∧
      ((∃ x, Fold.numExpr e = .ok x ∧
          d = { issue := issueText (fmt x) dest.render,
                suggestions :=
                  if hasPoeticSpelling (fmt x) = true
                  then [suggestionText (dest.render ++ str% " is " ++ spell (fmt x))] else [],
                line := e.range.line }) ∨
       (Fold.numExpr e = .error .wrongType ∧
          ∃ s, Fold.strExpr e = .ok s ∧
          d = { issue := issueText ('"' :: s ++ ['"']) dest.render,
                suggestions :=
                  if hasPoeticStringSpelling s false = true
                  then [suggestionText (dest.render ++ str% " says " ++ s)] else [],
                line := e.range.line })) :=
  LintDigits.boringPoetic_one dest rhs d

example : boringPoetic destX (.expr val105.first) =
    .ok [{ issue := str% "Assignment of literal value `105` into `X` isn't very rock'n'roll",
           suggestions := [str% "Consider using a poetic literal such as: `X is * ********** *****`"],
           line := 3 }] := rfl

/-- **Poetic assignment, no diagnostic**: iff the right-hand side is a poetic literal, or an
    expression for which the fold condition fails. -/
theorem poetic_silent_iff (dest : Lhs N) (rhs : PoeticRhs N) :
    boringPoetic dest rhs = .ok [] ↔
      ¬ ∃ e, rhs = .expr e ∧
         ((∃ x, Fold.numExpr e = .ok x) ∨
          (Fold.numExpr e = .error .wrongType ∧ ∃ s, Fold.strExpr e = .ok s)) :=
  LintDigits.boringPoetic_none dest rhs

example : boringPoetic destX (.lit [.word (str% "a")]) = .ok [] := rfl

/-- **Poetic assignment, in terms of syntax.** -/
theorem poetic_reported_iff_syntax (dest : Lhs N) (rhs : PoeticRhs N) :
    (∃ d, boringPoetic dest rhs = .ok [d]) ↔
      ∃ e, rhs = .expr e ∧ (Const e ∨ ∃ s r, e = .prim (.lit (.str s) r)) :=
  LintDigits.poetic_reported_syntactic dest rhs

/-- **Rock (array push), one diagnostic.** `boringPush` yields exactly one diagnostic `d` iff the
    pushed value is an expression list (not a poetic literal, not absent) that folds to a number
    `x` — never for strings; `d` names the rendered array, `fmt x`, the line of the array
    expression, and suggests "Rock `arr` like `words`" when and only when `fmt x` has a poetic
    spelling. -/
theorem push_reported_iff (arr : Primary N) (value : Option (PushRhs N)) (d : Diag) :
    boringPush arr value = .ok [d] ↔
      ∃ l x, value = some (.list l) ∧ Fold.numList l = .ok x ∧
        d = { issue := issueText (fmt x) arr.render,
              suggestions :=
                if hasPoeticSpelling (fmt x) = true
                then [suggestionText (str% "Rock " ++ arr.render ++ str% " like " ++ spell (fmt x))]
                else [],
              line := arr.range.line } :=
  LintDigits.boringPush_one arr value d

example : boringPush (.ident (.var (.simple (str% "X"))) rX) (some (.list val105)) =
    .ok [{ issue := str% "Assignment of literal value `105` into `X` isn't very rock'n'roll",
           suggestions := [str% "Consider using a poetic literal such as: `Rock X like * ********** *****`"],
           line := 3 }] := rfl

/-- **Rock, no diagnostic**: iff the pushed value is absent, a poetic literal, or a list that does
    not fold to a number (in particular every string). -/
theorem push_silent_iff (arr : Primary N) (value : Option (PushRhs N)) :
    boringPush arr value = .ok [] ↔
      ¬ ∃ l x, value = some (.list l) ∧ Fold.numList l = .ok x :=
  LintDigits.boringPush_none arr value

example : boringPush (.ident (.var (.simple (str% "X"))) rX) (some (.list valStr)) = .ok [] := rfl

/-- **Rock, in terms of syntax.** -/
theorem push_reported_iff_syntax (arr : Primary N) (value : Option (PushRhs N)) :
    (∃ d, boringPush arr value = .ok [d]) ↔
      ∃ l, value = some (.list l) ∧ l.rest = [] ∧ Const l.first :=
  LintDigits.push_reported_syntactic arr value

/-- **The reported value is the value the program computes** (link to C17). If a plain assignment
    is reported with diagnostic `d`, its value list is a single expression whose evaluation — in
    any environment, with any sufficient fuel — yields a value `v` and leaves the environment
    untouched, and `d` names exactly that `v`: `fmt x` for a number, the quoted text for a string. -/
theorem assign_reported_value_is_computed [CharOps] (dest : Lhs N) (op : Option BinOp)
    (value : ExprList N) (d : Diag) (h : boringAssign dest op value = .ok [d]) :
    value.rest = [] ∧ ∃ v : Val N,
      (∀ (n : Nat) (env : Env N), (Interp.interp n).evalExpr value.first env =
          (if value.first.depth ≤ n then .ok v else .fuel, env)) ∧
      ((∃ x, v = .num x ∧ d.issue = issueText (fmt x) dest.render) ∨
       (∃ s, v = .str s ∧ d.issue = issueText ('"' :: s ++ ['"']) dest.render)) := by
  obtain ⟨_, h2⟩ := (LintDigits.boringAssign_one dest op value d).mp h
  rcases h2 with ⟨x, hx, hd⟩ | ⟨_, s, hs, hd⟩
  · obtain ⟨h1, h3⟩ := (FoldSound.numList_ok_iff value x).mp hx
    exact ⟨h1, .num x, FoldSound.numExpr_exact _ x h3, .inl ⟨x, rfl, by rw [hd]; rfl⟩⟩
  · obtain ⟨h1, h3⟩ := (FoldSound.strList_ok_iff value s).mp hs
    exact ⟨h1, .str s, FoldSound.strExpr_exact _ s h3, .inr ⟨s, rfl, by rw [hd]; rfl⟩⟩

example : ∃ d, boringAssign destX none val105 = .ok [d] := ⟨_, rfl⟩

/-! ## 2. The pass never crashes, and reports every statement at every depth -/

/-- **The digit-underflow site is unreachable.** On a text consisting of ASCII digits and periods
    only, `templateOf` succeeds (its `lintDigitUnderflow` crash needs a character below `'0'`
    other than `.`); `numericPayload` calls it only for such texts. -/
theorem templateOf_total (t : Str) (h : hasPoeticSpelling t = true) :
    ∃ items, templateOf t = .ok items :=
  ⟨_, LintDigits.templateOf_ok t h⟩

example : hasPoeticSpelling (str% "10.5") = true := by decide

/-- **`numericPayload` is total and exact**: never a crash; the payload is `pre ++ var ++ words`
    with `words = spell valText` if the text has a poetic spelling, and there is no payload
    otherwise. -/
theorem numericPayload_exact (pre var valText : Str) :
    numericPayload pre var valText =
      .ok (if hasPoeticSpelling valText = true then some (pre ++ var ++ spell valText) else none) :=
  LintDigits.numericPayload_eq pre var valText

/-- **Per statement**: at a single statement the pass always terminates normally with the list
    `stmtDiags s` (at most one diagnostic): the result of `boringAssign` / `boringPoetic` /
    `boringPush` for the three inspected statement kinds, nothing for any other kind. -/
theorem local_total (s : Stmt N) :
    LintDigits.boringLocal s = .ok (LintDigits.stmtDiags s) ∧ (LintDigits.stmtDiags s).length ≤ 1 :=
  ⟨LintDigits.boringLocal_ok s, LintDigits.stmtDiags_length_le_one s⟩

/-- **Whole pass**: on every program the pass terminates normally (never `crash`, `err`, `fuel`
    or `resource`), and its diagnostics are exactly the per-statement diagnostics of all
    statements of the program at every nesting depth (`if`/`else`, loops, function bodies), in
    source order. Together with the `…_reported_iff` theorems: a statement anywhere in the program
    is reported exactly when it meets the fold condition, with its own target, value and line. -/
theorem pass_exact (p : Program N) :
    boringBlocks p.code = .ok (p.allStmts.flatMap LintDigits.stmtDiags) :=
  LintDigits.boringBlocks_eq p.code

/-- **The pass never crashes** (corollary, in the form the property asks). -/
theorem pass_never_crashes (p : Program N) :
    (∀ site, boringBlocks p.code ≠ .crash site) ∧ boringBlocks p.code ≠ .fuel ∧
    boringBlocks p.code ≠ .resource ∧ (∀ e, boringBlocks p.code ≠ .err e) := by
  rw [LintDigits.boringBlocks_eq]
  exact ⟨fun _ h => (by cases h), fun h => (by cases h), fun h => (by cases h), fun _ h => (by cases h)⟩

/-- **The linter terminates normally on every program** (`Lint.run`, both passes + sort). -/
theorem run_total (p : Program N) :
    Lint.run p = .ok (postprocess (p.allStmts.flatMap LintDigits.stmtDiags ++ missedPronouns p)) :=
  LintDigits.run_ok p

end

/-- a nested example: `if …: while …: put 105 into X` reports the inner assignment at its line -/
example :
    boringBlocks (N := Int)
      [.mk ⟨1, 0⟩ [.ifS (.prim (.lit (.bool true) rX))
        (.mk ⟨2, 0⟩ [.whileS (.prim (.lit (.bool true) rX))
          (.mk ⟨3, 0⟩ [.assign destX none val105])]) none]] =
    .ok [{ issue := str% "Assignment of literal value `105` into `X` isn't very rock'n'roll",
           suggestions := [str% "Consider using a poetic literal such as: `X is * ********** *****`"],
           line := 3 }] := rfl

/-! ## 3. Digit round trip -/

/-- **The model's words are the specified spelling.** For a printed number `t` (ASCII digits and
    periods) the template machinery of the model (`templateOf`, `mod10`, `templateText`) produces
    exactly `spell t`: every digit `d` a word of `d` stars (ten for `0`), words separated by single
    spaces, periods kept. -/
theorem words_eq_spell (t : Str) (h : hasPoeticSpelling t = true) :
    ∃ items, templateOf t = .ok items ∧ templateText items true = spell t :=
  ⟨_, LintDigits.templateOf_ok t h, LintDigits.templateText_true t⟩

example : spell (str% "105") = str% "* ********** *****" := by decide
example : spell (str% "0.25") = str% "**********. ** *****" := by decide

/-- **Digit round trip (independent reading).** Reading the suggested words back the way Rockstar
    reads a poetic number — every maximal run of letters is a digit `length mod 10`, a period is a
    period — gives exactly the digit sequence of the printed number with the periods at the same
    places; and these digits are digits (`≤ 9`). -/
theorem digit_round_trip (t : Str) (h : hasPoeticSpelling t = true) :
    reading (spell t) = ofPrinted t ∧ ∀ d, d ∈ digits (ofPrinted t) → d ≤ 9 :=
  ⟨LintDigits.reading_spell t h, LintDigits.digits_ofPrinted_le t h⟩

example : reading (spell (str% "10.5")) = [some 1, some 0, none, some 5] := by decide

/-- **Digit round trip (the model's poetic literals).** Let `elems` be the element list of the
    poetic literal the front end builds from the suggested words with every `*` replaced by
    `letter` (any character but the apostrophe; see the interface note at the top). Then, in the
    model's own `Poetic` machinery: the word lengths mod 10 are exactly the digits of `t`; the
    position of the decimal point is the number of digits in front of the first period of `t`
    (all digits if there is none); and the literal's value is
    `Σ dᵢ · 10^(pointPos − 1 − i)` over exactly these digits, computed as `compute_value` does
    (left to right from `-0.0`). -/
theorem poetic_round_trip {N : Type} [NumOps N] (letter : Char) (hl : letter ≠ '\'') (t : Str)
    (h : hasPoeticSpelling t = true) :
    (Poetic.lengths (Poetic.items (elems letter (spell t)))).map (· % 10) = digits (ofPrinted t) ∧
    Poetic.dotPos (Poetic.items (elems letter (spell t))) = pointPos (ofPrinted t) ∧
    (Poetic.computeValue (elems letter (spell t)) : Outcome Unit N) =
      .ok (Poetic.sumDigits (Int.ofNat (pointPos (ofPrinted t)) - 1) (digits (ofPrinted t)) 0
            (neg (ofInt 0 : N))) :=
  ⟨LintDigits.lengths_elems_spell hl t h, LintDigits.dotPos_elems_spell hl t h,
   LintDigits.computeValue_elems_spell hl t h⟩

example : elems 'a' (spell (str% "1.0")) = [.word (str% "a"), .dot, .word (str% "aaaaaaaaaa")] := by
  decide
/-- over `Int`, the literal suggested for `105` has value `105` -/
example : (Poetic.computeValue (elems 'a' (spell (fmt (105 : Int)))) : Outcome Unit Int) = .ok 105 :=
  rfl

/-! ## 4. No misleading suggestion -/

/-- **No poetic spelling, no suggestion.** If the printed value contains anything but ASCII digits
    and periods (a minus sign, `inf`, `NaN`), `numericPayload` terminates normally with no
    payload, so the numeric diagnostic is still produced — naming target, value and line — but
    without any suggestion. -/
theorem no_spelling_no_suggestion {N : Type} [NumOps N] (pre var : Str) (x : N) (line : Nat)
    (h : hasPoeticSpelling (fmt x) = false) :
    numericPayload pre var (fmt x) = .ok none ∧
    numericDiag var x line = .ok [{ issue := issueText (fmt x) var, suggestions := [], line := line }] ∧
    pushDiag var x line = .ok [{ issue := issueText (fmt x) var, suggestions := [], line := line }] := by
  refine ⟨?_, ?_, ?_⟩
  · rw [LintDigits.numericPayload_eq]; simp [h]
  · rw [LintDigits.numericDiag_eq]; simp [LintDigits.numSuggestions, h]
  · rw [LintDigits.pushDiag_eq]; simp [LintDigits.numSuggestions, h]

example : hasPoeticSpelling (fmt (-5 : Int)) = false := by decide
example : hasPoeticSpelling (str% "inf") = false ∧ hasPoeticSpelling (str% "NaN") = false ∧
    hasPoeticSpelling (str% "-0") = false := by decide
example : boringAssign destX none (⟨.prim (.lit (.num (-5)) r105), []⟩ : ExprList Int) =
    .ok [{ issue := str% "Assignment of literal value `-5` into `X` isn't very rock'n'roll",
           suggestions := [], line := 3 }] := rfl

/-- **Strings.** The string diagnostic always names target, quoted text and line; it has exactly
    the one suggestion "`var` says `s`" if `s` has a poetic string spelling, and no suggestion
    otherwise. -/
theorem string_suggestion (var s : Str) (line : Nat) :
    stringDiag var s line =
      [{ issue := issueText ('"' :: s ++ ['"']) var,
         suggestions := if hasPoeticStringSpelling s false = true
                        then [suggestionText (var ++ str% " says " ++ s)] else [],
         line := line }] :=
  LintDigits.stringDiag_eq var s line

/-- **No string spelling, no suggestion.** -/
theorem string_no_spelling_no_suggestion (var s : Str) (line : Nat)
    (h : hasPoeticStringSpelling s false = false) :
    stringDiag var s line =
      [{ issue := issueText ('"' :: s ++ ['"']) var, suggestions := [], line := line }] := by
  rw [LintDigits.stringDiag_eq]; simp [h]

example : hasPoeticStringSpelling (str% "a (b") false = false := by decide
example : (stringDiag (str% "Z") (str% "a\nb") 1).map (·.suggestions) = [[]] := by decide
example : (stringDiag (str% "Z") (str% "a (b") 1).map (·.suggestions) = [[]] := by decide

/-- **String spelling, exactly one suggestion**: "`var` says `s`". -/
theorem string_spelling_suggestion (var s : Str) (line : Nat)
    (h : hasPoeticStringSpelling s false = true) :
    stringDiag var s line =
      [{ issue := issueText ('"' :: s ++ ['"']) var,
         suggestions := [suggestionText (var ++ str% " says " ++ s)], line := line }] := by
  rw [LintDigits.stringDiag_eq]; simp [h]

example : hasPoeticStringSpelling (str% "a (b) c") false = true := by decide
example : (stringDiag (str% "Z") (str% "a b") 1).map (·.suggestions) =
    [[str% "Consider using a poetic literal such as: `Z says a b`"]] := by decide

/-- **A line break never has a spelling**, whatever the comment state. -/
theorem newline_no_spelling (s : Str) (b : Bool) (h : s.contains '\n' = true) :
    hasPoeticStringSpelling s b = false :=
  LintDigits.hpss_of_newline s b (by simpa using h)

example : (str% "a\nb").contains '\n' = true := by decide

/-- **Plain texts have a spelling**: a text without parentheses and line breaks, started outside
    a comment, has a poetic string spelling. -/
theorem plain_text_has_spelling (s : Str) (h1 : '\n' ∉ s) (h2 : '(' ∉ s) (h3 : ')' ∉ s) :
    hasPoeticStringSpelling s false = true := by
  rw [LintDigits.hpss_plain s false h1 h2 h3]; rfl

example : '\n' ∉ str% "a b, c!" ∧ '(' ∉ str% "a b, c!" ∧ ')' ∉ str% "a b, c!" := by decide

/-- **A text ending with an opening parenthesis has no spelling** (it would leave a comment open
    that swallows the rest of the program). -/
theorem open_comment_no_spelling (s : Str) (b : Bool) :
    hasPoeticStringSpelling (s ++ ['(']) b = false :=
  LintDigits.hpss_append_open s b

/-- **Exact meaning of `hasPoeticStringSpelling`**: the text contains no line break and leaves no
    comment open, where (comments do not nest) a comment is left open iff the LAST parenthesis of
    the text is `(`, or there is none and a comment was open before
    (`Spec.leavesCommentOpen`, Rrss/Spec/PoeticString.lean). -/
theorem string_spelling_iff (s : Str) (b : Bool) :
    hasPoeticStringSpelling s b = true ↔ '\n' ∉ s ∧ ¬ Spec.leavesCommentOpen s b :=
  LintDigits.hpss_iff s b

example : Spec.leavesCommentOpen (str% "a (b) (c") false := .inl (by decide)

end C18
end Rrss
