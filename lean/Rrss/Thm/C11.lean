/-
  Rrss.Thm.C11 — poetic literals denote the number or string their words spell.

  Model: `Poetic.wordLen / itemsGo / items / lengths / dotPos / sumDigits / computeValue`
  (Rrss/Poetic.lean; mirrors `PoeticNumberLiteralIterator`, `word_len`, `compute_value` of
  src/frontend/ast.rs, with the D3 repair: a suffix with no word before it is a word of its own),
  `NumOps.powi / powiLoop` (Rrss/Num.lean; compiler-builtins `__powidf2`),
  `Parser.isPoeticNumberLiteralToken / poeticLoopBody / parsePoeticNumberLiteral /
  isLiteralWord / isCurrentNegativeNumber / parsePoeticNumberAssignmentRhs /
  parsePoeticStringAssignmentRhs / parsePoeticAssignment` (Rrss/Parser.lean; mirrors
  src/frontend/parser.rs).
  Independent specifications: Rrss/Spec/Poetic.lean (`groups`, `groupLengths`, `digits`,
  `pointPos`, `decimalValue`, `numeral`: the digit rule on element lists, by look-ahead grouping),
  Rrss/Spec/PoeticTokens.lean (`read`: which tokens a literal takes and the element each gives).

  Parts: 1 digit rule · 2 value (unfolding, exactness on integers; the "few ulp" bound is NOT
  proved, see the FULL STATEMENT block) · 3 tokens → elements · 4 literal or expression ·
  5 poetic strings.

  NEW NUMBER-LAW HYPOTHESES (IEEE-754 binary64 facts, true of Rust's `f64`; stated on natural
  numbers because the `Int` form suggested in the plan is FALSE for `f64`:
  `0.0 * -1.0 = -0.0 ≠ 0.0 = ofInt (0 * -1)`):
    mul_nat     : a, b, a·b ≤ 2^53 → mul (ofNat a) (ofNat b) = ofNat (a·b)
    add_nat     : a, b, a+b ≤ 2^53 → add (ofNat a) (ofNat b) = ofNat (a+b)   (b = 0: x + 0.0 = x)
    add_negzero : add (neg (ofInt 0)) (ofNat a) = ofNat a          (-0.0 + x = x, also for x = +0.0)
  They hold in the exact instance `NumOps Int` (examples below), so they are jointly satisfiable.
-/
import Rrss.Lemmas.PoeticValue
import Rrss.Lemmas.PoeticParse
import Rrss.NumInt
import Rrss.Cli
namespace Rrss
namespace C11
open Poetic NumOps Parser
open Spec.Poetic (groups groupLen groupLengths digits pointPos decimalValue numeral)
open Spec.PoeticTokens (Reading)
open PoeticParse (stepped afterLine lineEnd)

/-! ### running examples -/

/-- `a lovestruck ladykiller` : 1, 10, 10 letters — the digits 1 0 0 -/
private def exHundred : List PoeticElem :=
  [.word (str% "a"), .word (str% "lovestruck"), .word (str% "ladykiller")]
/-- `ice. a life unfulfilled. wakin'` : 3 . 1 4 (11 letters ↦ 1) . 5 (apostrophe not counted) -/
private def exPi : List PoeticElem :=
  [.word (str% "ice"), .dot, .word (str% "a"), .word (str% "life"), .word (str% "unfulfilled"), .dot,
   .word (str% "wakin'")]
/-- `it's well-known` : `it`+`'s` = 3, `well`+`-known` = 4+6 = 10 ↦ 0 -/
private def exSuffixed : List PoeticElem :=
  [.word (str% "it"), .suffix (str% "'s"), .word (str% "well"), .suffix (str% "-known")]
/-- a literal that starts with a suffix, and has one right after a period (finding D3, repaired) -/
private def exOrphans : List PoeticElem :=
  [.suffix (str% "'s"), .suffix (str% "'re"), .word (str% "foo"), .dot, .suffix (str% "-ab"),
   .suffix (str% "'s")]

/-! ## 1. The digit rule -/

/-- **The iterator yields the specified groups.** For every element list, the items the model's
    iterator produces are exactly the groups and periods of the specification, in order: a word
    with the suffixes that directly follow it is one item whose length is the number of
    non-apostrophe characters of all its parts; a suffix with no word before it is an item of its
    own; every period is an item. Nothing is dropped, nothing is counted twice. -/
theorem C11_iterator_groups (elems : List PoeticElem) :
    items elems = (groups elems).map PoeticValue.itemOfGroup :=
  PoeticValue.items_eq_groups elems

example : items exSuffixed = [.word 3, .word 10] := rfl
example : groups exOrphans =
    [some [str% "'s"], some [str% "'re"], some [str% "foo"], none, some [str% "-ab"], some [str% "'s"]] :=
  rfl

/-- **Digit rule.** For every element list (any word lengths including multiples of 10,
    apostrophes inside words, `'s`/`'re` and hyphenated suffixes, periods anywhere; commas never
    reach the list): (1) the word lengths `compute_value` reads are the lengths of the specified
    groups; (2) hence the digits — lengths modulo 10 — are the specified digits; (3) the position
    of the decimal point is the number of groups in front of the FIRST period (all groups if
    there is none): later periods do not matter. -/
theorem C11_digit_rule (elems : List PoeticElem) :
    lengths (items elems) = groupLengths elems ∧
    (lengths (items elems)).map (· % 10) = digits elems ∧
    dotPos (items elems) = pointPos elems :=
  ⟨PoeticValue.lengths_items elems, by rw [PoeticValue.lengths_items]; rfl,
   PoeticValue.dotPos_items elems⟩

example : lengths (items exPi) = [3, 1, 4, 11, 5] ∧ digits exPi = [3, 1, 4, 1, 5] ∧
    pointPos exPi = 1 := ⟨rfl, rfl, rfl⟩
example : digits exSuffixed = [3, 0] ∧ pointPos exSuffixed = 2 := ⟨rfl, rfl⟩
example : digits exOrphans = [1, 2, 3, 3, 1] ∧ pointPos exOrphans = 3 := ⟨rfl, rfl⟩

/-- **The point never lies beyond the digits**, and without a period it lies behind all of them. -/
theorem C11_point_position (elems : List PoeticElem) :
    pointPos elems ≤ (digits elems).length ∧
    (PoeticElem.dot ∉ elems → pointPos elems = (digits elems).length) := by
  refine ⟨?_, fun h => ?_⟩
  · simpa [digits] using PoeticValue.pointPos_le elems
  · simpa [digits] using PoeticValue.pointPos_of_no_dot elems h

/-! ## 2. The value -/

section
variable {N : Type} [NumOps N]

/-- **`compute_value`, unfolded.** The value of a poetic literal is the sum of one term per
    specified digit `dᵢ` (with the specified point position `p`): `0.0` if `dᵢ = 0` (repaired
    code: a zero digit contributes nothing, however large its weight — `0 * inf` would be NaN),
    else `(dᵢ as f64) * 10f64.powi(p - 1 - i)`; the terms are added one after the other, left to
    right, to the accumulator `-0.0` (`impl Sum for f64`); it never fails. -/
theorem C11_value_unfold (elems : List PoeticElem) :
    (computeValue elems : Outcome Unit N) =
      .ok (((digits elems).zipIdx 0).foldl
            (fun acc p =>
              add acc
                (if p.1 % 10 = 0 then ofNat 0
                 else mul (ofNat (p.1 % 10))
                  (powi (ofInt 10 : N) (Int.ofNat (pointPos elems) - 1 - Int.ofNat p.2))))
            (neg (ofInt 0 : N))) := by
  rw [PoeticValue.computeValue_eq_digits, PoeticValue.sumDigits_eq_foldl]
  rfl

/-- the same with the model's own summation function -/
theorem C11_value_unfold_sumDigits (elems : List PoeticElem) :
    (computeValue elems : Outcome Unit N) =
      .ok (sumDigits (Int.ofNat (pointPos elems) - 1) (digits elems) 0 (neg (ofInt 0 : N))) :=
  PoeticValue.computeValue_eq_digits elems

/-- **`10f64.powi(j)` is exactly `10^j`** as long as `10^j ≤ 2^53` (`j ≤ 15`): the
    square-and-multiply loop returns BEFORE squaring once more when the remaining exponent is
    exhausted, so every intermediate product is bounded by the final result. -/
theorem C11_powi_exact
    (mul_nat : ∀ a b : Nat, a ≤ 2 ^ 53 → b ≤ 2 ^ 53 → a * b ≤ 2 ^ 53 →
      mul (ofNat a : N) (ofNat b) = ofNat (a * b))
    (j : Nat) (hj : 10 ^ j ≤ 2 ^ 53) :
    powi (ofInt 10 : N) (Int.ofNat j) = ofNat (10 ^ j) :=
  PoeticValue.powi_ten_exact mul_nat j hj

/-- **Exactness on integers.** Assume the three IEEE facts of the file header. If no digit stands
    behind the decimal point (no period, or periods only after the last word), the literal has at
    least one digit, and the decimal value `D = Σ dᵢ·10^(k-1-i)` of its digits is at most `2^53`,
    then `compute_value` returns exactly `D` (as `D as f64`, which is exact) — for ANY number of
    digits: a literal may start with arbitrarily many zero digits (ten-letter words), since a
    zero digit contributes `0.0` whatever its weight, and every nonzero digit `dᵢ` has
    `10^(k-1-i) ≤ dᵢ·10^(k-1-i) ≤ D ≤ 2^53`, where `powi` is exact. -/
theorem C11_value_exact
    (mul_nat : ∀ a b : Nat, a ≤ 2 ^ 53 → b ≤ 2 ^ 53 → a * b ≤ 2 ^ 53 →
      mul (ofNat a : N) (ofNat b) = ofNat (a * b))
    (add_nat : ∀ a b : Nat, a ≤ 2 ^ 53 → b ≤ 2 ^ 53 → a + b ≤ 2 ^ 53 →
      add (ofNat a : N) (ofNat b) = ofNat (a + b))
    (add_negzero : ∀ a : Nat, add (neg (ofInt 0 : N)) (ofNat a) = ofNat a)
    (elems : List PoeticElem)
    (hint : pointPos elems = (digits elems).length)
    (hne : digits elems ≠ [])
    (hD : decimalValue (digits elems) ≤ 2 ^ 53) :
    (computeValue elems : Outcome Unit N) = .ok (ofNat (decimalValue (digits elems))) :=
  PoeticValue.computeValue_exact mul_nat add_nat add_negzero elems hint hne hD

/-- **Exactness on integers, usual form**: a non-empty literal without a period whose decimal
    value is at most `2^53` evaluates exactly to that value. -/
theorem C11_value_exact_no_dot
    (mul_nat : ∀ a b : Nat, a ≤ 2 ^ 53 → b ≤ 2 ^ 53 → a * b ≤ 2 ^ 53 →
      mul (ofNat a : N) (ofNat b) = ofNat (a * b))
    (add_nat : ∀ a b : Nat, a ≤ 2 ^ 53 → b ≤ 2 ^ 53 → a + b ≤ 2 ^ 53 →
      add (ofNat a : N) (ofNat b) = ofNat (a + b))
    (add_negzero : ∀ a : Nat, add (neg (ofInt 0 : N)) (ofNat a) = ofNat a)
    (elems : List PoeticElem)
    (hne : elems ≠ []) (hnodot : PoeticElem.dot ∉ elems)
    (hD : decimalValue (digits elems) ≤ 2 ^ 53) :
    (computeValue elems : Outcome Unit N) = .ok (ofNat (decimalValue (digits elems))) := by
  have hd : digits elems ≠ [] := by
    have := PoeticValue.groupLengths_ne_nil_of_no_dot elems hne hnodot
    simpa [digits] using this
  have hp : pointPos elems = (digits elems).length := by
    simpa [digits] using PoeticValue.pointPos_of_no_dot elems hnodot
  exact PoeticValue.computeValue_exact mul_nat add_nat add_negzero elems hp hd hD

end

/-- the three laws hold in the exact instance `Int` -/
private theorem int_laws :
    (∀ a b : Nat, a ≤ 2 ^ 53 → b ≤ 2 ^ 53 → a * b ≤ 2 ^ 53 →
      mul (ofNat a : Int) (ofNat b) = ofNat (a * b)) ∧
    (∀ a b : Nat, a ≤ 2 ^ 53 → b ≤ 2 ^ 53 → a + b ≤ 2 ^ 53 →
      add (ofNat a : Int) (ofNat b) = ofNat (a + b)) ∧
    (∀ a : Nat, add (neg (ofInt 0 : Int)) (ofNat a) = ofNat a) := by
  refine ⟨fun a b _ _ _ => ?_, fun a b _ _ _ => ?_, fun a => ?_⟩
  · show (a : Int) * (b : Int) = ((a * b : Nat) : Int); simp
  · show (a : Int) + (b : Int) = ((a + b : Nat) : Int); simp
  · show -(0 : Int) + (a : Int) = (a : Int); simp

/-- non-vacuity: `a lovestruck ladykiller` meets every hypothesis of `C11_value_exact_no_dot` -/
example : exHundred ≠ [] ∧ PoeticElem.dot ∉ exHundred ∧ decimalValue (digits exHundred) = 100 := by
  decide
/-- … and of `C11_value_exact`, also with a trailing period (`… ladykiller.`) -/
example : pointPos (exHundred ++ [.dot]) = (digits (exHundred ++ [.dot])).length ∧
    digits (exHundred ++ [.dot]) = [1, 0, 0] := by decide
/-- concrete evaluations over `Int` -/
example : (computeValue exHundred : Outcome Unit Int) = .ok 100 := rfl
example : (computeValue (exHundred ++ [.dot]) : Outcome Unit Int) = .ok 100 := rfl
example : (computeValue exSuffixed : Outcome Unit Int) = .ok 30 := rfl
example : (computeValue exHundred : Outcome Unit Int) = .ok 100 :=
  C11_value_exact_no_dot int_laws.1 int_laws.2.1 int_laws.2.2 exHundred (by decide) (by decide)
    (by decide)
/-- 25 leading zero digits: 25 ten-letter words, then `abcde fg` — the 27-digit numeral
    `0000000000000000000000000 52` denotes 52; the weights of the zero digits (up to `10^26`) are
    far beyond `2^53`, and do not matter -/
private def exLeadingZeros : List PoeticElem :=
  List.replicate 25 (.word (str% "abcdefghij")) ++ [.word (str% "abcde"), .word (str% "fg")]
example : exLeadingZeros ≠ [] ∧ PoeticElem.dot ∉ exLeadingZeros ∧
    (digits exLeadingZeros).length = 27 ∧ (digits exLeadingZeros).take 25 = List.replicate 25 0 ∧
    decimalValue (digits exLeadingZeros) = 52 := by decide +kernel
example : (match (computeValue exLeadingZeros : Outcome Unit Int) with | .ok x => some x | _ => none) =
    some 52 := by decide +kernel
example : (computeValue exLeadingZeros : Outcome Unit Int) = .ok 52 :=
  C11_value_exact_no_dot int_laws.1 int_laws.2.1 int_laws.2.2 exLeadingZeros (by decide +kernel)
    (by decide +kernel) (by decide +kernel)
/-- the numeral of `ice. a life unfulfilled. wakin'` is `31415 / 10^4` -/
example : numeral exPi = (31415, 4) := rfl

/- FULL STATEMENT (not proved): for EVERY element list `elems` with numeral `(m, e) = numeral elems`
   (the rational `q = m / 10^e`, Rrss/Spec/Poetic.lean), over `N := f64`:
       `computeValue elems = .ok x`  with  `|x − q| ≤ c · ulp(q)`  for a small constant `c`
   ("to within a few units in the last place"), and `x = q` exactly whenever `q` is an integer
   below `2^53`.
   What is proved: the digits, the point position and the summation formula for all element
   lists (parts 1 and `C11_value_unfold`), and exactness for ALL integer numerals of value at
   most `2^53`, with any number of (leading zero) digits (`C11_value_exact`,
   `C11_value_exact_no_dot`).
   What is missing: (1) an error analysis of `powi` (square-and-multiply, reciprocal for negative
   exponents) and of the running sum; this needs a model of binary64 rounding, which the
   uninterpreted `NumOps` deliberately does not contain; no finite set of algebraic laws of the
   kind used above yields an ulp bound. The bound is instead MEASURED by the correspondence
   check, which compares `compute_value` of the implementation against the correctly rounded
   exact rational `m / 10^e`. (2) It is in fact FALSE at one extreme: finding F2 — with more than
   about 300 digits behind the point `10f64.powi(-j)` underflows (`1/inf = 0`, already `5e-323`
   evaluates to `0`). The symmetric defect found while proving exactness — 310 or more digits in
   front of the point make `10f64.powi(j) = inf`, so a zero digit there gave `0 * inf = NaN`
   (309 ten-letter words followed by `abcde` denote 5 and evaluated to NaN) — has been REPAIRED
   (`digitTerm`: a zero digit contributes `0.0`), which is what lets `C11_value_exact` drop any
   bound on the number of digits. -/

/-! ## 3. Tokens → elements -/

section
variable {N : Type} [CharOps]

/-- **Which tokens a poetic number literal takes**: periods, commas, `'s`/`'re` tokens, a `Minus`
    token spelled `-`, and ANY token whose spelling is word-like (no white space, no punctuation
    other than `_` and `'`) — whatever its kind. -/
theorem C11_accepted_tokens (t : Tok N) :
    isPoeticNumberLiteralToken t = true ↔
      (t.kind = .dot ∨ t.kind = .comma ∨ t.kind = .apostropheS ∨ t.kind = .apostropheRE) ∨
      (t.kind = .minus ∧ t.spelling = ['-']) ∨ Lexer.isWord t.spelling = true :=
  PoeticParse.isPoeticNumberLiteralToken_iff t

/-- **Keywords count as words**: a token with a word-like spelling is accepted whatever its kind
    (`is`, `the`, `minus`, `true`, `says`, …). -/
theorem C11_keywords_are_words (t : Tok N) (h : Lexer.isWord t.spelling = true) :
    isPoeticNumberLiteralToken t = true :=
  (PoeticParse.isPoeticNumberLiteralToken_iff t).mpr (.inr (.inr h))

/-- **One round of the loop: stop.** At the end of the tokens, or in front of a token that is not
    accepted (e.g. a `Newline`), the round returns no element and consumes nothing. -/
theorem C11_step_stop (rec : Parser.Rec N) (st : PState N)
    (h : st.toks = [] ∨ ∃ tok ts, st.toks = tok :: ts ∧ isPoeticNumberLiteralToken tok = false) :
    poeticLoopBody rec st = .ok ([], st) := by
  rcases h with h | ⟨tok, ts, h, hp⟩
  · exact PoeticParse.body_nil rec st h
  · exact PoeticParse.body_stop rec st tok ts h hp

/-- **One round: comma.** The comma is consumed and contributes nothing: the result is that of
    the rest of the loop (`rec.poeticLoop`, arbitrary) on the state after the comma. -/
theorem C11_step_comma (rec : Parser.Rec N) (st : PState N) (tok : Tok N) (ts : List (Tok N))
    (h : st.toks = tok :: ts) (hk : tok.kind = .comma) :
    poeticLoopBody rec st = rec.poeticLoop (stepped st tok ts) :=
  PoeticParse.body_comma rec st tok ts h hk

/-- **One round: period.** Contributes `dot` in front of what the rest of the loop returns
    (failures of the rest propagate unchanged: `Outcome.map`). -/
theorem C11_step_dot (rec : Parser.Rec N) (st : PState N) (tok : Tok N) (ts : List (Tok N))
    (h : st.toks = tok :: ts) (hk : tok.kind = .dot) :
    poeticLoopBody rec st =
      (rec.poeticLoop (stepped st tok ts)).map (fun r => (.dot :: r.1, r.2)) :=
  PoeticParse.body_dot rec st tok ts h hk

/-- **One round: `'s` / `'re`.** Contributes `suffix` with the token's spelling. -/
theorem C11_step_suffix (rec : Parser.Rec N) (st : PState N) (tok : Tok N) (ts : List (Tok N))
    (h : st.toks = tok :: ts) (hk : tok.kind = .apostropheS ∨ tok.kind = .apostropheRE) :
    poeticLoopBody rec st =
      (rec.poeticLoop (stepped st tok ts)).map (fun r => (.suffix tok.spelling :: r.1, r.2)) := by
  rcases hk with hk | hk
  · exact PoeticParse.body_apostropheS rec st tok ts h hk
  · exact PoeticParse.body_apostropheRE rec st tok ts h hk

/-- **One round: hyphen followed by a word-like token.** Both tokens are consumed and contribute
    ONE `suffix` whose text is `-` followed by the second token's spelling. -/
theorem C11_step_hyphen_word (rec : Parser.Rec N) (st : PState N) (tok next : Tok N) (ts : List (Tok N))
    (h : st.toks = tok :: next :: ts) (hh : isHyphen tok = true)
    (hw : Lexer.isWord next.spelling = true) :
    poeticLoopBody rec st =
      (rec.poeticLoop (stepped st next ts)).map
        (fun r => (.suffix ('-' :: next.spelling) :: r.1, r.2)) :=
  PoeticParse.body_hyphen_word rec st tok next ts h hh hw

/-- **One round: hyphen at the very end of the program** — `PoeticLiteralEndingWithHyphen`,
    located at the line of the exhausted lexer. -/
theorem C11_step_hyphen_end (rec : Parser.Rec N) (st : PState N) (tok : Tok N)
    (h : st.toks = [tok]) (hh : isHyphen tok = true) :
    poeticLoopBody rec st = .err ⟨.poeticLiteralEndingWithHyphen, .line st.eof.line⟩ :=
  PoeticParse.body_hyphen_end rec st tok h hh

/-- **One round: hyphen followed by a token that is not word-like** (a `Newline`, a period, a
    string literal with spaces, …) — `UnexpectedToken` at that token. -/
theorem C11_step_hyphen_other (rec : Parser.Rec N) (st : PState N) (tok next : Tok N) (ts : List (Tok N))
    (h : st.toks = tok :: next :: ts) (hh : isHyphen tok = true)
    (hw : Lexer.isWord next.spelling = false) :
    poeticLoopBody rec st = .err ⟨.unexpectedToken, .token next⟩ :=
  PoeticParse.body_hyphen_other rec st tok next ts h hh hw

/-- **One round: anything else word-like** (also keywords) contributes `word` with the token's
    spelling. -/
theorem C11_step_word (rec : Parser.Rec N) (st : PState N) (tok : Tok N) (ts : List (Tok N))
    (h : st.toks = tok :: ts) (hk1 : tok.kind ≠ .dot) (hk2 : tok.kind ≠ .comma)
    (hk3 : tok.kind ≠ .apostropheS) (hk4 : tok.kind ≠ .apostropheRE) (hh : isHyphen tok = false)
    (hw : Lexer.isWord tok.spelling = true) :
    poeticLoopBody rec st =
      (rec.poeticLoop (stepped st tok ts)).map (fun r => (.word tok.spelling :: r.1, r.2)) :=
  PoeticParse.body_word rec st tok ts h hk1 hk2 hk3 hk4 hh hw

/-- **A literal may not start with a hyphen**: `PoeticLiteralStartingWithHyphen` at that token. -/
theorem C11_literal_starting_with_hyphen (rec : Parser.Rec N) (st : PState N) (tok : Tok N)
    (ts : List (Tok N)) (h : st.toks = tok :: ts) (hh : isHyphen tok = true) :
    parsePoeticNumberLiteral rec st = .err ⟨.poeticLiteralStartingWithHyphen, .token tok⟩ :=
  PoeticParse.literal_starting_with_hyphen rec st tok ts h hh

/-- **Otherwise the literal is the loop followed by the emptiness test**: no element at all
    (nothing accepted, or commas only) is `ExpectedPoeticNumberLiteral`, located at the token the
    loop stopped at. -/
theorem C11_literal_is_loop (rec : Parser.Rec N) (st : PState N)
    (h : ∀ tok ts, st.toks = tok :: ts → isHyphen tok = false) :
    parsePoeticNumberLiteral rec st =
      (poeticLoopBody rec st).bind fun r =>
        if r.1.isEmpty then .err ⟨.expectedPoeticNumberLiteral, errLocOf r.2⟩ else .ok r :=
  PoeticParse.literal_eq rec st h

/-- **An empty literal** (end of tokens, or a first token that is not accepted) is
    `ExpectedPoeticNumberLiteral`. -/
theorem C11_literal_empty (rec : Parser.Rec N) (st : PState N)
    (h : st.toks = [] ∨ ∃ tok ts, st.toks = tok :: ts ∧ isPoeticNumberLiteralToken tok = false) :
    parsePoeticNumberLiteral rec st = .err ⟨.expectedPoeticNumberLiteral, errLocOf st⟩ :=
  PoeticParse.literal_empty rec st h

/-- **The whole loop, knot tied.** With fuel `n` at least the number of remaining tokens, the
    loop of the real parser (`parser n`) does exactly what the independent reading
    `Spec.PoeticTokens.read` of the token list prescribes (`PoeticParse.Agrees`): it returns
    precisely the elements read, leaves precisely the unread tokens (source text, end-of-file
    state and list flag untouched), or fails with `PoeticLiteralEndingWithHyphen` /
    `UnexpectedToken` exactly when the reading does. Never `fuel`, never a crash. -/
theorem C11_loop_reads (n : Nat) (st : PState N) (hlen : st.toks.length ≤ n) :
    PoeticParse.Agrees st (poeticLoopBody (parser n) st) (Spec.PoeticTokens.read st.toks) :=
  PoeticParse.loop_agrees n st hlen

/-- the three cases of `C11_loop_reads`, written out -/
theorem C11_loop_reads_cases (n : Nat) (st : PState N) (hlen : st.toks.length ≤ n) :
    (∀ es rest, Spec.PoeticTokens.read st.toks = .done es rest →
      ∃ st', poeticLoopBody (parser n) st = .ok (es, st') ∧ st'.toks = rest ∧ st'.src = st.src ∧
        st'.eof = st.eof ∧ st'.parsingList = st.parsingList) ∧
    (Spec.PoeticTokens.read st.toks = .endsWithHyphen →
      poeticLoopBody (parser n) st = .err ⟨.poeticLiteralEndingWithHyphen, .line st.eof.line⟩) ∧
    (∀ t, Spec.PoeticTokens.read st.toks = .unexpected t →
      poeticLoopBody (parser n) st = .err ⟨.unexpectedToken, .token t⟩) := by
  have h := PoeticParse.loop_agrees n st hlen
  refine ⟨fun es rest hr => ?_, fun hr => ?_, fun t hr => ?_⟩ <;> rw [hr] at h <;> exact h

/-- **The whole literal, knot tied**: if the first token is not a hyphen, `parsePoeticNumberLiteral`
    of the real parser returns the elements read if there is at least one, and
    `ExpectedPoeticNumberLiteral` if there is none (`PoeticParse.LiteralAgrees`). -/
theorem C11_literal_reads (n : Nat) (st : PState N) (hlen : st.toks.length ≤ n)
    (h : ∀ tok ts, st.toks = tok :: ts → isHyphen tok = false) :
    PoeticParse.LiteralAgrees st (parsePoeticNumberLiteral (parser n) st)
      (Spec.PoeticTokens.read st.toks) :=
  PoeticParse.literal_agrees n st hlen h

end

/-! examples for part 3 (ASCII classification, numbers = `Int`) -/
section Examples

/-- for the examples only -/
local instance exampleCharOps : CharOps where
  isAlphabetic c := (65 ≤ c.toNat && c.toNat ≤ 90) || (97 ≤ c.toNat && c.toNat ≤ 122) || 128 ≤ c.toNat
  isNumeric c := 48 ≤ c.toNat && c.toNat ≤ 57
  isWhitespace c := c == ' ' || c == '\n' || c == '\t' || c == '\r'
  isUppercase c := 65 ≤ c.toNat && c.toNat ≤ 90
  isLowercase c := 97 ≤ c.toNat && c.toNat ≤ 122
  toLower c := [c.toLower]

private def tk (k : TK) (s : Str) : Tok Int := { kind := k, spelling := s, start := 0, range := default }

/-- `a-b's, is true. ⏎` -/
private def exToks : List (Tok Int) :=
  [tk .word (str% "a"), tk .minus (str% "-"), tk .word (str% "b"), tk .apostropheS (str% "'s"),
   tk .comma (str% ","), tk .is (str% "is"), tk .true_ (str% "true"), tk .dot (str% "."),
   tk .newline (str% "\n"), tk .word (str% "x")]

private def exState : PState Int :=
  { src := [], toks := exToks, last := default, eof := default, parsingList := false }

example : isPoeticNumberLiteralToken (tk .is (str% "is")) = true ∧
    isPoeticNumberLiteralToken (tk .minus (str% "minus")) = true ∧
    isPoeticNumberLiteralToken (tk .newline (str% "\n")) = false ∧
    isPoeticNumberLiteralToken (tk .stringLit (str% "\"a b\"")) = false := by decide

example : (match Spec.PoeticTokens.read exToks with
    | .done es rest => (es, rest.length)
    | _ => ([], 0)) =
    ([.word (str% "a"), .suffix (str% "-b"), .suffix (str% "'s"), .word (str% "is"),
      .word (str% "true"), .dot], 2) := by decide

example : exState.toks.length ≤ 10 ∧ isHyphen (tk .word (str% "a") : Tok Int) = false := by decide

example : (match parsePoeticNumberLiteral (parser 10) exState with
    | .ok (es, st') => some (es, st'.toks.length)
    | _ => none) =
    some ([.word (str% "a"), .suffix (str% "-b"), .suffix (str% "'s"), .word (str% "is"),
      .word (str% "true"), .dot], 2) := by decide

example : (match parsePoeticNumberLiteral (parser 10)
      { exState with toks := [tk .minus (str% "-"), tk .word (str% "a")] } with
    | .err e => (match e.code with | .poeticLiteralStartingWithHyphen => true | _ => false)
    | _ => false) = true := by decide

example : (match parsePoeticNumberLiteral (parser 10)
      { exState with toks := [tk .comma (str% ","), tk .newline (str% "\n")] } with
    | .err e => (match e.code with | .expectedPoeticNumberLiteral => true | _ => false)
    | _ => false) = true := by decide

end Examples

/-! ## 4. Literal or expression -/

section
variable {N : Type} [CharOps]

omit [CharOps] in
/-- **The literal words**: `mysterious`, the `null` aliases, a number, a string literal, the
    `empty` aliases, the `true` and `false` aliases. -/
theorem C11_literal_words (k : TK) :
    isLiteralWord k = true ↔
      k = .mysterious ∨ k = .null ∨ k = .number ∨ k = .stringLit ∨ k = .empty ∨ k = .true_ ∨
      k = .false_ :=
  PoeticParse.isLiteralWord_iff k

/-- **Right-hand side at the end of the tokens**: `UnexpectedEndOfTokens` (and not the crash site
    of `is_current_negative_number`, which is never reached with no token). -/
theorem C11_decision_end (rec : Parser.Rec N) (st : PState N) (h : st.toks = []) :
    parsePoeticNumberAssignmentRhs rec st = .err ⟨.unexpectedEndOfTokens, .line st.last.line⟩ :=
  PoeticParse.rhs_end rec st h

/-- **Literal word or negative number ⇒ ordinary expression.** If the first token of the
    right-hand side is a literal word, or is a hyphen (`Minus` spelled `-`) directly followed by
    a `Number` token, the right-hand side is whatever `parse_expression` makes of it (as
    `PoeticRhs.expr`; failures propagate unchanged). -/
theorem C11_decision_expression (rec : Parser.Rec N) (st : PState N) (tok : Tok N) (ts : List (Tok N))
    (h : st.toks = tok :: ts)
    (hd : isLiteralWord tok.kind = true ∨
      (isHyphen tok = true ∧ ∃ n ts', ts = n :: ts' ∧ n.kind = .number)) :
    parsePoeticNumberAssignmentRhs rec st =
      (parseExpression rec st).map (fun r => (.expr r.1, r.2)) := by
  refine PoeticParse.rhs_expression rec st tok ts h ?_
  rw [h]
  rcases hd with hd | ⟨hh, n, ts', rfl, hn⟩
  · simp [PoeticParse.startsExpression, hd]
  · simp [PoeticParse.startsExpression, PoeticParse.nextIsNumber, hh, hn]

/-- **Anything else ⇒ poetic number literal** (as `PoeticRhs.lit`; failures propagate). -/
theorem C11_decision_literal (rec : Parser.Rec N) (st : PState N) (tok : Tok N) (ts : List (Tok N))
    (h : st.toks = tok :: ts)
    (hl : isLiteralWord tok.kind = false)
    (hn : ¬ (isHyphen tok = true ∧ ∃ n ts', ts = n :: ts' ∧ n.kind = .number)) :
    parsePoeticNumberAssignmentRhs rec st =
      (parsePoeticNumberLiteral rec st).map (fun r => (.lit r.1, r.2)) := by
  refine PoeticParse.rhs_literal rec st tok ts h ?_
  rw [h]
  simp only [PoeticParse.startsExpression, hl, Bool.false_or]
  cases hh : isHyphen tok with
  | false => rfl
  | true =>
    cases ts with
    | nil => rfl
    | cons n ts' =>
      cases hk : (n.kind == TK.number) with
      | false => simp [PoeticParse.nextIsNumber, hk]
      | true => exact absurd ⟨hh, n, ts', rfl, by simpa using hk⟩ hn

end

section Examples
attribute [local instance] exampleCharOps

/-- `X is true` / `X is -5` go to `parse_expression`; `X is - five`, `X is minus 5` and
    `X is truely` do not -/
example : PoeticParse.startsExpression [tk .true_ (str% "true")] = true ∧
    PoeticParse.startsExpression [tk .minus (str% "-"), tk .number (str% "5")] = true ∧
    PoeticParse.startsExpression [tk .minus (str% "-"), tk .word (str% "five")] = false ∧
    PoeticParse.startsExpression [tk .minus (str% "minus"), tk .number (str% "5")] = false ∧
    PoeticParse.startsExpression [tk .word (str% "truely")] = false := by decide

end Examples

/-! ## 5. Poetic strings -/

section
variable {N : Type}

/-- **The captured text.** `parse_poetic_string_assignment_rhs` skips to the next `Newline` token
    (`afterLine st`: the tokens from that token on, or none) and asks the lexer for the literal
    text from the `says` token to that token, or to the end of the source if there is none
    (`literalTextOf`); it removes the spelling of `says` and then EXACTLY ONE space; what remains
    is the string, byte for byte. A missing space is `ExpectedSpaceAfterSays`; the two crash
    sites are a failing text request and a text that does not start with the spelling of `says`. -/
theorem C11_string_text (says : Tok N) (st : PState N) :
    parsePoeticStringAssignmentRhs says st =
      match literalTextOf st.src says (afterLine st).toks.head? with
      | none => .crash .parsePoeticText
      | some text =>
        match stripPrefix? says.spelling text with
        | none => .crash .parsePoeticText
        | some afterSays =>
          match stripPrefix? [' '] afterSays with
          | some rhs => .ok (rhs, afterLine st)
          | none => .err ⟨.expectedSpaceAfterSays says, errLocOf (afterLine st)⟩ :=
  PoeticParse.stringRhs_eq' says st

/-- **The literal text is a slice of the source**: from the first byte of the `says` token up to
    the first byte of the next `Newline` token, or to the end of the source (`lineEnd st`);
    `none` (an out-of-range or off-boundary slice) is the crash above. -/
theorem C11_string_slice (says : Tok N) (st : PState N) :
    literalTextOf st.src says (afterLine st).toks.head? =
      Lexer.substr st.src says.start (lineEnd st) :=
  PoeticParse.literalTextOf_eq says st

/-- **Exact text, line with a line end.** If the source reads `pre ++ says ++ " " ++ T ++ post`
    with the `says` token at the byte offset of `pre`, and the first `Newline` token among the
    remaining tokens starts right after `T`, then the string is exactly `T` — leading, trailing
    and multiple spaces, non-ASCII characters, quotes and parentheses included — and parsing
    resumes at that `Newline` token. (That the lexer places the next `Newline` token at the first
    line break after `says` exactly when no quote or parenthesis is left open in `T` is a fact
    about the lexer — properties C01/C12 — not proved here; a text that leaves one open swallows
    the following lines: recorded finding.) -/
theorem C11_string_line (says nl : Tok N) (st : PState N) (pre T post : Str)
    (mid rest : List (Tok N))
    (hsrc : st.src = pre ++ (says.spelling ++ ' ' :: T) ++ post)
    (hstart : says.start = ulen pre)
    (htoks : st.toks = mid ++ nl :: rest) (hmid : ∀ t ∈ mid, t.kind ≠ .newline)
    (hnl : nl.kind = .newline) (hnlstart : nl.start = ulen pre + ulen (says.spelling ++ ' ' :: T)) :
    parsePoeticStringAssignmentRhs says st = .ok (T, afterLine st) ∧
      (afterLine st).toks = nl :: rest :=
  PoeticParse.stringRhs_line says nl st pre T post mid rest hsrc hstart htoks hmid hnl hnlstart

/-- **Exact text, last line without a line end**: the string is everything up to the end of the
    source, and no token is left. -/
theorem C11_string_last_line (says : Tok N) (st : PState N) (pre T : Str)
    (hsrc : st.src = pre ++ (says.spelling ++ ' ' :: T))
    (hstart : says.start = ulen pre)
    (htoks : ∀ t ∈ st.toks, t.kind ≠ .newline) :
    parsePoeticStringAssignmentRhs says st = .ok (T, afterLine st) ∧ (afterLine st).toks = [] :=
  PoeticParse.stringRhs_eof says st pre T hsrc hstart htoks

/-- **No space after `says`** (end of line, or another character): `ExpectedSpaceAfterSays`. -/
theorem C11_string_no_space (says : Tok N) (st : PState N) (pre R post : Str)
    (hsrc : st.src = pre ++ (says.spelling ++ R) ++ post)
    (hstart : says.start = ulen pre)
    (hend : lineEnd st = ulen pre + ulen (says.spelling ++ R))
    (hR : R.head? ≠ some ' ') :
    parsePoeticStringAssignmentRhs says st =
      .err ⟨.expectedSpaceAfterSays says, errLocOf (afterLine st)⟩ :=
  PoeticParse.stringRhs_no_space says st pre R post hsrc hstart hend hR

variable [CharOps]

/-- **The statement.** `target says T⏎`: once the target has been parsed (`dest`) and the next
    token is `says` (or its alias kind `say`), under the hypotheses of `C11_string_line` on the
    state after that token, the statement is `PoeticString dest T` with `T` exact, and parsing
    resumes at the `Newline` token. -/
theorem C11_poetic_string_statement (rec : Parser.Rec N) (i : Ident) (r : Range) (st st1 : PState N)
    (dest : Lhs N) (says nl : Tok N) (pre T post : Str) (mid rest : List (Tok N))
    (hl : parseAssignmentLhsWith rec i r st = .ok (dest, st1))
    (ht : st1.toks = says :: (mid ++ nl :: rest))
    (hk : says.kind = .says ∨ says.kind = .say)
    (hsrc : st1.src = pre ++ (says.spelling ++ ' ' :: T) ++ post)
    (hstart : says.start = ulen pre)
    (hmid : ∀ t ∈ mid, t.kind ≠ .newline)
    (hnl : nl.kind = .newline) (hnlstart : nl.start = ulen pre + ulen (says.spelling ++ ' ' :: T)) :
    ∃ st2, parsePoeticAssignment rec i r st = .ok (.poeticStr dest T, st2) ∧
      st2.toks = nl :: rest := by
  obtain ⟨h1, h2⟩ := PoeticParse.stringRhs_line says nl (stepped st1 says (mid ++ nl :: rest)) pre T
    post mid rest hsrc hstart rfl hmid hnl hnlstart
  refine ⟨_, ?_, h2⟩
  rw [PoeticParse.poeticAssignment_says rec i r st st1 dest says _ hl ht hk, h1]
  rfl

/-- **`is` / `'s` / `'re` lead to the number right-hand side** of part 4. -/
theorem C11_poetic_number_statement (rec : Parser.Rec N) (i : Ident) (r : Range) (st st1 : PState N)
    (dest : Lhs N) (tok : Tok N) (ts : List (Tok N))
    (hl : parseAssignmentLhsWith rec i r st = .ok (dest, st1)) (ht : st1.toks = tok :: ts)
    (hk : tok.kind = .is ∨ tok.kind = .apostropheS ∨ tok.kind = .apostropheRE) :
    parsePoeticAssignment rec i r st =
      (parsePoeticNumberAssignmentRhs rec (stepped st1 tok ts)).map
        (fun q => (.poeticNum dest q.1, q.2)) :=
  PoeticParse.poeticAssignment_is rec i r st st1 dest tok ts hl ht hk

end

section Examples

/-- `X says  hé (x⏎y`, tokens after `says`: a word, then the `Newline` at byte 14 -/
private def exSrc : Str := str% "X says  hé (x\ny"
private def exSays : Tok Int := { kind := .says, spelling := str% "says", start := 2, range := default }
private def exNl : Tok Int := { kind := .newline, spelling := str% "\n", start := 14, range := default }
private def exStrState : PState Int :=
  { src := exSrc, toks := [tk .word (str% "hé"), exNl, tk .word (str% "y")], last := default,
    eof := default, parsingList := false }

/-- the hypotheses of `C11_string_line` hold with `pre = "X "`, `T = " hé (x"`, `post = "\ny"` -/
example : exStrState.src = str% "X " ++ (exSays.spelling ++ ' ' :: str% " hé (x") ++ str% "\ny" ∧
    exSays.start = ulen (str% "X ") ∧
    exNl.start = ulen (str% "X ") + ulen (exSays.spelling ++ ' ' :: str% " hé (x") := by decide

example : (match parsePoeticStringAssignmentRhs exSays exStrState with
    | .ok (s, st') => some (s, st'.toks.length)
    | _ => none) = some (str% " hé (x", 2) := by decide

end Examples

/-! ## End to end (real lexer, parser and interpreter of the model; numbers = `Int`) -/
section EndToEnd
attribute [local instance] exampleCharOps

/-- what `rrss exec` prints for a source text: (stdout, stderr) -/
private def exec (src : Str) : Option (List UInt8 × Str) :=
  match Cli.runSource (N := Int) Lexer.defaultKeywords (fun _ => []) 100 .exec src [] 1000 1000 with
  | .ok out => some (out.stdout, out.stderr)
  | _ => none

example : exec (str% "X is a lovestruck ladykiller\nsay X") = some (Env.utf8 (str% "100\n"), []) := by
  decide +kernel
/-- suffix, hyphenated word (10 letters ↦ 0), comma ignored, trailing period -/
example : exec (str% "X is it's well-known, ice.\nsay X") = some (Env.utf8 (str% "303\n"), []) := by
  decide +kernel
/-- keywords are words: `is`=2, `the`=3, `says`=4 -/
example : exec (str% "X is is the says\nsay X") = some (Env.utf8 (str% "234\n"), []) := by
  decide +kernel
/-- a literal starting with a suffix (finding D3, repaired): `'s`=1, `foo`=3 -/
example : exec (str% "X is 's foo\nsay X") = some (Env.utf8 (str% "13\n"), []) := by
  decide +kernel
/-- literal word / negative number ⇒ expression; `minus 5` is a literal (5 letters, 1 letter) -/
example : exec (str% "X is true\nsay X") = some (Env.utf8 (str% "true\n"), []) := by decide +kernel
example : exec (str% "X is -5\nsay X") = some (Env.utf8 (str% "-5\n"), []) := by decide +kernel
example : exec (str% "X is minus 5\nsay X") = some (Env.utf8 (str% "51\n"), []) := by decide +kernel
example : exec (str% "X is - five\nsay X") =
    some ([], str% "Parse error: Parse error (line 1): Poetic literal starting with hyphen\n") := by
  decide +kernel
example : exec (str% "X is , ,\nsay X") =
    some ([], str% "Parse error: Parse error (line 1): Expected poetic number literal, found `\n`\n") := by
  decide +kernel
example : exec (str% "X is a -") =
    some ([], str% "Parse error: Parse error (line 1): Poetic literal ending with hyphen\n") := by
  decide +kernel
/-- poetic string: exact text after `says␣`, second space, non-ASCII and a closed comment kept -/
example : exec (str% "X says  hé (x) \"q\"\nsay X") = some (Env.utf8 (str% " hé (x) \"q\"\n"), []) := by
  decide +kernel
example : exec (str% "X says\nsay X") =
    some ([], str% "Parse error: Parse error (line 1): Expected space after `says`, found `\n`\n") := by
  decide +kernel

end EndToEnd

end C11
end Rrss
