/-
  C19 — Lint reports are complete, ordered by line, and linting never fails.

  `Lint.run` (Rrss/Lint.lean) mirrors `standard_linter().run(program)` of src/linter/mod.rs:
  the constant-assignment pass (`boringBlocks`), then the repeated-identifier pass
  (`missedPronouns`, the generic traversal `Walk.program` of C16 instantiated with
  `missedVisitor`), concatenated in pass order and handed to `postprocess`
  (`sort_by_key(|d| d.line)`: a stable sort).
  Purity is by type: `Lint.run : Program N → Outcome Unit (List Diag)` takes the program by
  value and returns only diagnostics (the Rust `run` takes `&Program`); there is nothing it
  could modify.
-/
import Rrss.Lemmas.LintOrder
import Rrss.NumInt
namespace Rrss.C19
open Spec.Nodes Lint

section
variable {N : Type} [NumOps N]

/-- C19.2.  Linting never fails: for every program (parsed or not) `Lint.run` returns a report —
    it is never a crash (panic / UB: the only crash site of the passes, the digit underflow
    `c as usize - '0' as usize` of `templateOf`, is guarded by `hasPoeticSpelling`,
    `Lint.templateOf_ok`), never an error, and never runs out of fuel or resources (it uses
    none); termination is by construction (all functions involved are structurally recursive).
    The report is the postprocessed concatenation of the two passes' diagnostics. -/
theorem never_fails (p : Program N) :
    ∃ boring, boringBlocks p.code = .ok boring ∧
      Lint.run p = .ok (postprocess (boring ++ missedPronouns p)) :=
  run_ok p

/-- C19.1.  The report `ds` of a successful run is the stable sort by line of the first pass's
    diagnostics followed by the second pass's: (a) it is sorted by line, (b) it is a permutation
    of the concatenation — every diagnostic of every pass appears exactly once, nothing else —,
    (c) on every line the diagnostics keep the order of the concatenation: pass order, then
    traversal order within a pass. -/
theorem report_is_stable_sort (p : Program N) (ds : List Diag) (h : Lint.run p = .ok ds) :
    ∃ boring, boringBlocks p.code = .ok boring ∧
      ds = postprocess (boring ++ missedPronouns p) ∧
      ds.Pairwise (fun a b => a.line ≤ b.line) ∧
      ds.Perm (boring ++ missedPronouns p) ∧
      ∀ l, ds.filter (fun d => d.line = l) =
        (boring ++ missedPronouns p).filter (fun d => d.line = l) := by
  obtain ⟨boring, hb, hr⟩ := run_ok p
  have hds : ds = postprocess (boring ++ missedPronouns p) := by
    rw [hr] at h; exact (Outcome.ok.inj h).symm
  subst hds
  exact ⟨boring, hb, rfl, postprocess_sorted _, postprocess_perm _, postprocess_stable _⟩

/-- Concrete run (N := Int), which also instantiates the hypothesis of `report_is_stable_sort`:
    1 `put 5 into x` / 2 `say x` / 3 `say x taking 1` / 4 `put 7 into x`.
    Pass 1 reports lines 1 and 4, pass 2 reports lines 2 and 4 (the second `x`; the `x` after
    the callee `x`; not the callee itself); merged by line, the tie on line 4 in pass order. -/
example :
    let x : VarName := .simple (str% "x")
    let at_ (l : Nat) : Range := ⟨⟨l, 1⟩, ⟨l, 9⟩⟩
    let p : Program Int := ⟨[.mk default [
      .assign (.ident (.var x) (at_ 1)) none ⟨.prim (.lit (.num 5) (at_ 1)), []⟩,
      .output (.prim (.ident (.var x) (at_ 2))),
      .output (.prim (.call x (at_ 3) [.prim (.lit (.num 1) (at_ 3))])),
      .assign (.ident (.var x) (at_ 4)) none ⟨.prim (.lit (.num 7) (at_ 4)), []⟩]]⟩
    let b1 := buildDiag (str% "x") (str% "5") (some (str% "x is *****")) 1
    let b4 := buildDiag (str% "x") (str% "7") (some (str% "x is *******")) 4
    boringBlocks p.code = .ok [b1, b4] ∧
    mentions p = [⟨x, 1, false⟩, ⟨x, 2, false⟩, ⟨x, 3, true⟩, ⟨x, 4, false⟩] ∧
    missedPronouns p = [missedDiag x 2, missedDiag x 4] ∧
    Lint.run p = .ok [b1, missedDiag x 2, b4, missedDiag x 4] := by
  intro x at_ p b1 b4
  have hb : boringBlocks p.code = .ok [b1, b4] := by decide +kernel
  have hm : missedPronouns p = [missedDiag x 2, missedDiag x 4] := by decide +kernel
  refine ⟨hb, by decide +kernel, hm, ?_⟩
  simp [Lint.run, hb, hm, postprocess, List.mergeSort, List.MergeSort.Internal.splitInTwo, b1, b4,
    buildDiag, missedDiag]

end

/-- C19.3.  The repeated-identifier rule, exactly.  `mentions p` lists the variable-name visits
    of the traversal in order (derived from the same enumeration `Spec.Nodes.enum` as C16's
    `nodes`: assignment targets, operands, call names, arguments, parameters, subscripts, list
    operands…), each with its line and whether it is the name of a called function.  The pass
    reports a mention exactly when it is not a callee and spells the same name as the mention
    just before it (of either kind; `VarName` equality: same kind of name, same words, same
    case), at the line of that mention, in traversal order. -/
theorem repeated_identifier_rule {N : Type} (p : Program N) :
    missedPronouns p = (repeated (mentions p)).map fun m => missedDiag m.name m.line := by
  rw [missedPronouns_eq_missedFrom, missedFrom_none]

/-- `withPrev` does pair every mention with its predecessor's name. -/
theorem withPrev_spec (ms : List Mention) (i : Nat) (h : i < ms.length) :
    (withPrev ms)[i]? =
      some (ms[i], if i = 0 then none else (ms[i - 1]?).map (·.name)) :=
  withPrev_getElem? ms i h

example :
    (withPrev [⟨.simple (str% "a"), 1, false⟩, ⟨.simple (str% "b"), 2, true⟩])[1]? =
      some (⟨.simple (str% "b"), 2, true⟩, some (.simple (str% "a"))) := by decide

/-- Concrete instance (N := Int): 1 `say x` / 2 `say x taking x` / 3 `say X` / 4 `say x`.
    The callee `x` (line 2) repeats the `x` of line 1 but is the name of a called function: not
    reported.  The argument `x` (line 2) repeats the callee `x` just before it: reported — the
    previous mention counts whatever its kind.  `X` differs in case: not reported; the last `x`
    follows `X`: not reported. -/
example :
    let x : VarName := .simple (str% "x")
    let X : VarName := .simple (str% "X")
    let at_ (l : Nat) : Range := ⟨⟨l, 1⟩, ⟨l, 9⟩⟩
    let p : Program Int := ⟨[.mk default [
      .output (.prim (.ident (.var x) (at_ 1))),
      .output (.prim (.call x (at_ 2) [.prim (.ident (.var x) (at_ 2))])),
      .output (.prim (.ident (.var X) (at_ 3))),
      .output (.prim (.ident (.var x) (at_ 4)))]]⟩
    mentions p = [⟨x, 1, false⟩, ⟨x, 2, true⟩, ⟨x, 2, false⟩, ⟨X, 3, false⟩, ⟨x, 4, false⟩] ∧
    repeated (mentions p) = [⟨x, 2, false⟩] ∧
    missedPronouns p = [missedDiag x 2] := by
  intro x X at_ p
  decide +kernel

end Rrss.C19
