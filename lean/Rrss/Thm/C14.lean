/-
  Rrss.Thm.C14 — equality, ordering and logic obey their algebraic laws on all values
  (arbitrary nesting), compound assignment is the expanded binary expression, build/knock
  round trip.  Helper lemmas: Rrss/Lemmas/ValWF.lean, ValLaws.lean, ApplyOp.lean.

  IEEE facts used (fields of `NumLaws`): `cmp_swap`, `beq_cmp`.  Symmetry of `==` on numbers is
  derived from the two (`Val.beq_symm`).
-/
import Rrss.Lemmas.ValLaws
import Rrss.Lemmas.ApplyOp
import Rrss.NumInt
set_option linter.unusedSectionVars false
namespace Rrss
open Interp NumOps

section
variable {N : Type} [NumOps N]

/-! ## 1. `is` is symmetric -/

/-- The derived deep equality (`==` on `Val`: arrays element by element, dictionaries entry by
    entry) is symmetric on well-formed values (`Val.WF`: the keys of every dictionary, at every
    depth, are pairwise distinct — what a Rust `HashMap` guarantees by construction). -/
theorem C14_eqv_symm (L : NumLaws N) (a b : Val N) (wa : a.WF) (wb : b.WF) :
    Val.eqv a b = Val.eqv b a :=
  Val.eqv_symm L wa wb

/-- `a is b` has the same answer as `b is a`, for all well-formed values of any kind and any
    nesting. (`cmpCoerced` itself is not literally swap-symmetric — `String` vs `Array` — the
    law holds for the results.) -/
theorem C14_equals_symm (L : NumLaws N) (a b : Val N) (wa : a.WF) (wb : b.WF) :
    Val.equals a b = Val.equals b a :=
  Val.equals_symm L wa wb

/-- non-vacuity: the laws hold for `Int`; both values are well-formed (one has a two-entry
    dictionary inside a nested array); the padded numeric string equals the number both ways. -/
example :
    (Val.arr [.arr [] [(.null, .num 1), (.str str% "k", .undef)]] [(.bool true, .str [])] : Val Int).WF
    ∧ Val.equals (.str str% "05" : Val Int) (.num 5) = true
    ∧ Val.equals (.num 5 : Val Int) (.str str% "05") = true := by
  refine ⟨?_, by decide, by decide⟩
  simp [Val.WF, Val.WFList, Val.WFDict]

/-- Well-formedness is necessary: with a repeated key the "every left entry is found in the
    right" equality of the model is not symmetric. -/
example :
    Val.equals (.arr [] [(.null, .num 1), (.null, .num 1)] : Val Int)
               (.arr [] [(.null, .num 1), (.undef, .num 5)]) = true
    ∧ Val.equals (.arr [] [(.null, .num 1), (.undef, .num 5)] : Val Int)
                 (.arr [] [(.null, .num 1), (.null, .num 1)]) = false := by
  decide

/-- `is` through the operator application: same value, environment untouched, both orders. -/
theorem C14_eq_op_symm (L : NumLaws N) (a b : Val N) (wa : a.WF) (wb : b.WF) (env : Env N) :
    applyOp .eq a (pure b) env = (.ok (.bool (Val.equals a b)), env)
    ∧ applyOp .eq b (pure a) env = (.ok (.bool (Val.equals a b)), env) := by
  refine ⟨rfl, ?_⟩
  rw [Val.equals_symm L wa wb]; rfl

/-- Well-formedness is an invariant of everything in the model that builds or takes apart an
    array: literals, `array_coerce`, `push`, `pop`, `split`, reading an element, and the write
    path `updateAt` (auto-extension, `dset`) with any closure that keeps cells well-formed —
    also when the write fails half-way. Values that are not arrays (the results of all
    arithmetic, comparison, `join`, `cast`) are trivially well-formed. -/
theorem C14_wf_invariant [CharOps] :
    (∀ l : Lit N, (evalLit l).WF)
    ∧ (∀ v : Val N, v.isArr = false → v.WF)
    ∧ (∀ v : Val N, v.WF → (Val.arrayCoerce v).WF)
    ∧ (∀ (v r : Val N) vals, v.WF → Val.WFList vals → Val.push v vals = .ok r → r.WF)
    ∧ (∀ v x rest : Val N, v.WF → Val.pop v = .ok (x, rest) → x.WF ∧ rest.WF)
    ∧ (∀ (v r : Val N) d, Val.split v d = .ok r → r.WF)
    ∧ (∀ v k r : Val N, v.WF → Val.index v k = .ok r → r.WF)
    ∧ (∀ (k : Key) (v : Val N) s d, v.WF → (Val.arr s d).WF → (Val.arr s (Val.dset k v d)).WF)
    ∧ (∀ (β : Type) (cap : Nat) (f : Val N → VRes N (Val N × β)),
        (∀ c c' b, c.WF → f c = .ok (c', b) → c'.WF) →
        ∀ ks v, v.WF → (Val.updateAt cap f ks v).1.WF) :=
  ⟨Val.WF_evalLit, fun _ => Val.WF_of_not_arr, fun _ => Val.WF_arrayCoerce,
   fun _ _ _ h1 h2 h3 => Val.WF_push h1 h2 h3, fun _ _ _ h1 h2 => Val.WF_pop h1 h2,
   fun _ _ _ h => Val.WF_split h, fun _ _ _ h1 h2 => Val.WF_index h1 h2,
   fun _ _ _ _ h1 h2 => Val.WF_dset h1 h2, fun _ cap f hf => Val.WF_updateAt cap f hf⟩

/-! ## 3. ordering: swapping the operands swaps the answer -/

/-- `compare b a` is `compare a b` with the ordering swapped; one is `InvalidComparison`
    exactly when the other is (each names its own operands in its own order), an unordered
    pair (`Ok(None)`: NaN, or a non-numeric string against a number) is unordered both ways,
    and `compare` never panics or runs out of budget. -/
theorem C14_compare_swap (L : NumLaws N) (a b : Val N) :
    (∀ o, Val.compare a b = .ok o ↔ Val.compare b a = .ok (o.map Ordering.swap))
    ∧ ((∃ e, Val.compare a b = .err e) ↔ (∃ e, Val.compare b a = .err e))
    ∧ (∀ e, Val.compare a b = .err e → e = .invalidComparison a b)
    ∧ (∀ s, Val.compare a b ≠ .crash s) ∧ Val.compare a b ≠ .fuel
    ∧ Val.compare a b ≠ .resource := by
  have hab := Val.compare_swap L a b
  have hba := Val.compare_swap L b a
  have hss : ∀ o : Option Ordering, (o.map Ordering.swap).map Ordering.swap = o := by
    intro o; cases o with
    | none => rfl
    | some o => cases o <;> rfl
  refine ⟨?_, ?_, ?_, ?_, ?_, ?_⟩
  · intro o
    constructor
    · intro h; rw [hab, h]
    · intro h; rw [hba, h]; simp [hss]
  · constructor
    · rintro ⟨e, h⟩; exact ⟨_, by rw [hab, h]⟩
    · rintro ⟨e, h⟩; exact ⟨_, by rw [hba, h]⟩
  · intro e h
    rcases Val.compare_cases a b with ⟨o, h'⟩ | h'
    · rw [h'] at h; cases h
    · rw [h'] at h; cases h; rfl
  all_goals
    rcases Val.compare_cases a b with ⟨o, h'⟩ | h' <;> simp [h']

/-- non-vacuity / concrete evaluations on `Int`: an array against null is ordered by its
    length, both ways; a non-numeric string against a number is unordered both ways; a
    Boolean against a number is an error both ways. -/
example :
    Val.compare (.arr [.undef] [] : Val Int) .null = .ok (some .gt)
    ∧ Val.compare (.null : Val Int) (.arr [.undef] []) = .ok (some .lt)
    ∧ Val.compare (.str str% "ten" : Val Int) (.num 0) = .ok none
    ∧ Val.compare (.num 0 : Val Int) (.str str% "ten") = .ok none
    ∧ Val.compare (.bool true : Val Int) (.num 7) = .err (.invalidComparison (.bool true) (.num 7))
    ∧ Val.compare (.num 7 : Val Int) (.bool true) = .err (.invalidComparison (.num 7) (.bool true)) :=
  ⟨rfl, rfl, rfl, rfl, rfl, rfl⟩

/-- `a < b` exactly when `b > a`, and `a <= b` exactly when `b >= a`: through the operator
    application, either both sides yield the same Boolean (environment untouched) or both are
    the `InvalidComparison` runtime error (each naming its operands in its own order). -/
theorem C14_less_greater (L : NumLaws N) (a b : Val N) (env : Env N) :
    ((∃ r, applyOp .less a (pure b) env = (.ok (.bool r), env)
         ∧ applyOp .greater b (pure a) env = (.ok (.bool r), env))
      ∨ (applyOp .less a (pure b) env = (.err (.val (.invalidComparison a b)), env)
         ∧ applyOp .greater b (pure a) env = (.err (.val (.invalidComparison b a)), env)))
    ∧ ((∃ r, applyOp .lessEq a (pure b) env = (.ok (.bool r), env)
         ∧ applyOp .greaterEq b (pure a) env = (.ok (.bool r), env))
      ∨ (applyOp .lessEq a (pure b) env = (.err (.val (.invalidComparison a b)), env)
         ∧ applyOp .greaterEq b (pure a) env = (.err (.val (.invalidComparison b a)), env))) := by
  have hba := Val.compare_swap L a b
  rcases Val.compare_cases a b with ⟨o, h⟩ | h
  · rw [h] at hba
    obtain ⟨h1, h2, -, -⟩ := applyOp_cmp_ok h env
    obtain ⟨-, -, h3, h4⟩ := applyOp_cmp_ok hba env
    refine ⟨.inl ⟨_, h1, ?_⟩, .inl ⟨_, h2, ?_⟩⟩
    · rw [h3]
      cases o with
      | none => rfl
      | some o => cases o <;> rfl
    · rw [h4]
      cases o with
      | none => rfl
      | some o => cases o <;> rfl
  · rw [h] at hba
    obtain ⟨h1, h2, -, -⟩ := applyOp_cmp_err h env
    obtain ⟨-, -, h3, h4⟩ := applyOp_cmp_err hba env
    exact ⟨.inr ⟨h1, h3⟩, .inr ⟨h2, h4⟩⟩

/-! ## 4. on an ordered pair, `<=` and `>=` together are equality -/

/-- When `compare a b` is an ordering `o`: `a <= b` is `o ≠ Greater`, `a >= b` is `o ≠ Less`,
    and `a is b` is their conjunction, i.e. `o = Equal` exactly when `a` equals `b`. -/
theorem C14_le_ge_eq (L : NumLaws N) (a b : Val N) (o : Ordering)
    (h : Val.compare a b = .ok (some o)) (env : Env N) :
    applyOp .lessEq a (pure b) env = (.ok (.bool (o != .gt)), env)
    ∧ applyOp .greaterEq a (pure b) env = (.ok (.bool (o != .lt)), env)
    ∧ applyOp .eq a (pure b) env = (.ok (.bool (o != .gt && o != .lt)), env)
    ∧ (o = .eq ↔ Val.equals a b = true) := by
  have he := Val.compare_some_eq_iff L h
  obtain ⟨-, h2, -, h4⟩ := applyOp_cmp_ok h env
  refine ⟨h2, h4, ?_, he⟩
  show (Outcome.ok (Val.bool (Val.equals a b)), env) = _
  cases o
  · have : Val.equals a b = false := by simpa using he
    rw [this]; rfl
  · have : Val.equals a b = true := by simpa using he
    rw [this]; rfl
  · have : Val.equals a b = false := by simpa using he
    rw [this]; rfl

/-- non-vacuity: `"05"` against `5` is ordered (`Equal`), `null` against `[mysterious]` is
    ordered (`Less`). -/
example :
    Val.compare (.str str% "05" : Val Int) (.num 5) = .ok (some .eq)
    ∧ Val.compare (.null : Val Int) (.arr [.undef] []) = .ok (some .lt) := ⟨rfl, rfl⟩

/-- When the pair is unordered (`Ok(None)`), all of `<`, `<=`, `>`, `>=` and `is` are false
    (so `isnt` is true). -/
theorem C14_unordered (L : NumLaws N) (a b : Val N) (h : Val.compare a b = .ok none)
    (env : Env N) :
    applyOp .less a (pure b) env = (.ok (.bool false), env)
    ∧ applyOp .lessEq a (pure b) env = (.ok (.bool false), env)
    ∧ applyOp .greater a (pure b) env = (.ok (.bool false), env)
    ∧ applyOp .greaterEq a (pure b) env = (.ok (.bool false), env)
    ∧ applyOp .eq a (pure b) env = (.ok (.bool false), env)
    ∧ applyOp .notEq a (pure b) env = (.ok (.bool true), env) := by
  have he := Val.compare_none_not_equals L h
  obtain ⟨h1, h2, h3, h4⟩ := applyOp_cmp_ok h env
  refine ⟨h1, h2, h3, h4, ?_, ?_⟩
  · show (Outcome.ok (Val.bool (Val.equals a b)), env) = _
    rw [he]
  · show (Outcome.ok (Val.bool (!Val.equals a b)), env) = _
    rw [he]; rfl

/-- non-vacuity: a non-numeric string against a number is unordered. -/
example : Val.compare (.str str% "ten" : Val Int) (.num 0) = .ok none := rfl

/-! ## 2. `isnt` / `is not` is the negation of `is` -/

/-- Both spellings (`isnt`, `ain't`, … and `is not`) are the one operator `BinOp.notEq` of the
    syntax tree (Parser: token `isnt` and `is` followed by `not`). On evaluated operands it
    yields the negation of what `is` yields, and neither touches the environment. -/
theorem C14_notEq_pure (a b : Val N) (env : Env N) :
    applyOp .eq a (pure b) env = (.ok (.bool (Val.equals a b)), env)
    ∧ applyOp .notEq a (pure b) env = (.ok (.bool (!Val.equals a b)), env) :=
  ⟨rfl, rfl⟩

/-- For an arbitrary (effectful, possibly failing) right operand: `a isnt b` is the computation
    `not (a is b)` — same environment effects, same failure, negated Boolean. -/
theorem C14_notEq_is_not_eq (a : Val N) (b : M N (Val N)) :
    applyOp .notEq a b = (applyOp .eq a b >>= fun v => pure (.bool (!v.isTruthy))) := by
  funext env
  show (b >>= fun bv => (pure (Val.bool (!Val.equals a bv)) : M N (Val N))) env
      = ((b >>= fun bv => (pure (Val.bool (Val.equals a bv)) : M N (Val N)))
          >>= fun v => (pure (Val.bool (!v.isTruthy)) : M N (Val N))) env
  simp only [M.bind_apply]
  rcases b env with ⟨o, e'⟩
  cases o <;> rfl

/-! ## 5. `not`, `and`, `or`, `nor` are the Boolean functions of truthiness -/

/-- `not e` evaluates `e` and yields the negation of its truthiness. -/
theorem C14_not [CharOps] (rec : Rec N) (e : Expr N) :
    evalExpr rec (.un .not e) = (rec.evalExpr e >>= fun v => pure (.bool (!v.isTruthy))) := rfl

/-- On evaluated operands `and`, `or`, `nor` are conjunction, disjunction and negated
    disjunction of the operands' truthiness; the environment is untouched. -/
theorem C14_logic_pure (a b : Val N) (env : Env N) :
    applyOp .and a (pure b) env = (.ok (.bool (a.isTruthy && b.isTruthy)), env)
    ∧ applyOp .or a (pure b) env = (.ok (.bool (a.isTruthy || b.isTruthy)), env)
    ∧ applyOp .nor a (pure b) env = (.ok (.bool (!(a.isTruthy || b.isTruthy))), env) := by
  refine ⟨?_, ?_, ?_⟩ <;> (rw [applyOp_pure]; rfl)

/-- Short circuit: when the left operand decides, the right operand `b` — an arbitrary
    computation — is not run: the result does not depend on `b` and the environment is
    unchanged. -/
theorem C14_short_circuit (a : Val N) (b : M N (Val N)) (env : Env N) :
    (a.isTruthy = false → applyOp .and a b env = (.ok (.bool false), env))
    ∧ (a.isTruthy = true → applyOp .or a b env = (.ok (.bool true), env))
    ∧ (a.isTruthy = true → applyOp .nor a b env = (.ok (.bool false), env)) := by
  refine ⟨?_, ?_, ?_⟩ <;> intro h <;> simp only [applyOp, h] <;> rfl

/-- When the left operand does not decide, the right operand is run (with its effects and
    failures) and its truthiness (negated for `nor`) is the answer. -/
theorem C14_no_short_circuit (a : Val N) (b : M N (Val N)) :
    (a.isTruthy = true → applyOp .and a b = (b >>= fun bv => pure (.bool bv.isTruthy)))
    ∧ (a.isTruthy = false → applyOp .or a b = (b >>= fun bv => pure (.bool bv.isTruthy)))
    ∧ (a.isTruthy = false → applyOp .nor a b = (b >>= fun bv => pure (.bool (!bv.isTruthy)))) := by
  refine ⟨?_, ?_, ?_⟩ <;> intro h <;> simp only [applyOp, h] <;> rfl

/-- non-vacuity: an effectful right operand (it would fail) is skipped. -/
example (env : Env Int) :
    applyOp .and (.null : Val Int) (M.fail .missingPronoun : M Int (Val Int)) env = (.ok (.bool false), env)
    ∧ applyOp .or (.str [] : Val Int) (M.fail .missingPronoun : M Int (Val Int)) env = (.ok (.bool true), env) :=
  ⟨rfl, rfl⟩

/-! ## 6. compound assignment -/

/-- The compound-assignment law at the level of expressions. `let x be op e, es…` computes its
    new value as `evalLhs x` followed by `foldOp op · (e :: es)`; the expanded expression
    `x op e, es…` evaluates its left operand (which for an identifier is the same
    `evalIdent`, by the second and third equation) and then runs the same `foldOp`. So both
    compute the same value with the same effects; only the nesting depth (fuel) differs,
    see `C14_compound_assignment`. -/
theorem C14_compound_unfold [CharOps] (rec : Rec N) (op : BinOp) (i : Ident) (r : Range)
    (e : Expr N) (es : List (Expr N)) :
    evalExpr rec (.bin op (.prim (.ident i r)) e es)
      = (do let l ← rec.evalExpr (.prim (.ident i r)); foldOp rec op l (e :: es))
    ∧ evalLhs rec (.ident i r) = evalIdent i
    ∧ evalPrimary rec (.ident i r) = evalIdent i :=
  ⟨rfl, rfl, rfl⟩

/-- Compound assignment `let x be op e, es…` (`x` a variable or the pronoun) executes exactly
    like the plain assignment `let x be x op e, es…`: for every interpreter `rec` underneath,
    every control state (and, the two sides being equal as functions, every environment), the
    two statements produce the same outcome and the same final environment (store, output,
    pronoun, budgets). The expanded statement is one syntax level deeper (the binary node above
    the operands), hence the one extra `mkRec` on the left; the operand expressions `e, es…`
    are evaluated by the same interpreter `mkRec (mkRec rec)` on both sides, and the read of
    `x` needs two levels in the expanded form (expression → primary), which is why the
    statement is about interpreters with at least two levels. -/
theorem C14_compound_assignment [CharOps] (rec : Rec N) (op : BinOp) (i : Ident) (r : Range)
    (e : Expr N) (es : List (Expr N)) (st : ExecSt N) :
    execStmt (mkRec (mkRec (mkRec rec)))
        (.assign (.ident i r) none ⟨.bin op (.prim (.ident i r)) e es, []⟩) st
      = execStmt (mkRec (mkRec rec)) (.assign (.ident i r) (some op) ⟨e, es⟩) st := rfl

/-- The same with the fuel-indexed interpreter: the expanded statement with depth budget
    `n + 3` is the compound statement with depth budget `n + 2`. -/
theorem C14_compound_assignment_interp [CharOps] (n : Nat) (op : BinOp) (i : Ident) (r : Range)
    (e : Expr N) (es : List (Expr N)) (st : ExecSt N) :
    execStmt (interp (n + 3)) (.assign (.ident i r) none ⟨.bin op (.prim (.ident i r)) e es, []⟩) st
      = execStmt (interp (n + 2)) (.assign (.ident i r) (some op) ⟨e, es⟩) st := rfl

/-! ## 7. build / knock -/

/-- Building a Boolean up `k` times and knocking it down `k` times restores it, for every
    `k` (each single step toggles it). -/
theorem C14_build_knock_bool (b : Bool) (k : Int) :
    ((Val.inc (.bool b : Val N) k) >>= fun v => Val.inc v (-k)) = .ok (.bool b) := by
  show Outcome.ok (Val.bool ((b != (k % 2 != 0)) != ((-k) % 2 != 0))) = _
  have : ((-k) % 2 != 0) = (k % 2 != 0) := by
    have h1 : (-k) % 2 = 0 ↔ k % 2 = 0 := by omega
    by_cases h : k % 2 = 0
    · rw [h, h1.mpr h]
    · have h' : ¬ (-k) % 2 = 0 := fun x => h (h1.mp x)
      rw [bne_iff_ne.mpr h, bne_iff_ne.mpr h']
  rw [this]
  cases b <;> cases (k % 2 != 0) <;> rfl

/-- `null` counts as zero when built up or knocked down. -/
theorem C14_build_null (k : Int) :
    Val.inc (.null : Val N) k = .ok (.num (add (zero : N) (ofInt k))) := rfl

/- FULL STATEMENT (not proved): "building a number of magnitude below 2^53 up `k` times and
   then knocking it down `k` times restores it", i.e. for every `x : N` with |x| < 2^53:
     `(Val.inc (.num x) k >>= fun v => Val.inc v (-k)) = .ok (.num x)`.
   What is missing: nothing provable — the statement is FALSE of IEEE-754 binary64 for
   non-dyadic fractions: 0.1 + 1 − 1 = 0.10000000000000009 ≠ 0.1 (recorded as known finding F1;
   exhibited by the executable model and the implementation in the differential check). It is
   true exactly where the additions are exact; the theorem below carries that guard: the number
   is an integer `n`, and `n`, `k`, `n + k` all have magnitude at most 2^53 (then all three are
   representable and both additions are exact). -/

/-- Building the integer-valued number `n` up by `k` and knocking it down by `k` restores it
    when `n`, `k` and `n + k` have magnitude at most 2^53. `int_exact` is the IEEE fact used:
    the sum of two integers of magnitude ≤ 2^53 whose exact sum also has magnitude ≤ 2^53 is
    computed exactly (all three are representable in binary64). -/
theorem C14_build_knock_partial
    (int_exact : ∀ m k : Int, m.natAbs ≤ 2^53 → k.natAbs ≤ 2^53 → (m + k).natAbs ≤ 2^53 →
      add (ofInt m : N) (ofInt k) = ofInt (m + k))
    (n k : Int) (hn : n.natAbs ≤ 2^53) (hk : k.natAbs ≤ 2^53) (hnk : (n + k).natAbs ≤ 2^53) :
    ((Val.inc (.num (ofInt n) : Val N) k) >>= fun v => Val.inc v (-k)) = .ok (.num (ofInt n)) := by
  show Outcome.ok (Val.num (add (add (ofInt n : N) (ofInt k)) (ofInt (-k)))) = _
  rw [int_exact n k hn hk hnk, int_exact (n + k) (-k) hnk (by omega) (by
    have : n + k + -k = n := by omega
    rw [this]; exact hn)]
  have : n + k + -k = n := by omega
  rw [this]

end

/-- non-vacuity: the exactness hypothesis holds for the `Int` instance (so the hypotheses are
    jointly satisfiable), with a concrete instance of the round trip. -/
example :
    ((Val.inc (.num (ofInt 41) : Val Int) 7) >>= fun v => Val.inc v (-7)) = .ok (.num (ofInt 41)) :=
  C14_build_knock_partial (N := Int) (fun _ _ _ _ _ => rfl) 41 7 (by decide) (by decide) (by decide)

end Rrss
