/-
  Rrss.Thm.C07 — cut, join, cast and turn transform values exactly and only their target.

  Part 1: `join ∘ split = id`.            Part 2: pieces are free of the delimiter.
  Part 3: the cast table, no crash.       Part 4: turn.
  Part 5: the statement protocol (`into` destination vs in place, parameter before operand).
-/
import Rrss.Lemmas.SplitJoin
import Rrss.Lemmas.Cast
import Rrss.Lemmas.Mutation
import Rrss.NumInt
namespace Rrss.C07
open Val NumOps

section
variable {N : Type}

/-! ## 1. `join (split s d) d = s` -/

/-- Cutting a non-empty text `s` at any delimiter text `d` (empty or not) succeeds, and joining
    the resulting array with the same delimiter gives back exactly `s`. -/
theorem join_split (s d : Str) (hs : s ≠ []) :
    (Val.split (.str s : Val N) (some (.str d))).bind (fun A => Val.join A (some (.str d)))
      = .ok (.str s) := by
  have hne : splitOn s d ≠ [] := splitOn_ne_nil s d hs
  have h1 : s.isEmpty = false := by cases s <;> simp_all
  simp [Val.split, Val.join, h1, hne, intercalate_splitOn]

example : (Val.split (.str str% "a, b,, c" : Val Int) (some (.str str% ", "))).bind
    (fun A => Val.join A (some (.str str% ", "))) = .ok (.str str% "a, b,, c") :=
  join_split _ _ (by simp)

/-- The same without a delimiter on either side: cut splits into characters, join
    concatenates, and the round trip is the identity on every non-empty text. -/
theorem join_split_chars (s : Str) (hs : s ≠ []) :
    (Val.split (.str s : Val N) none).bind (fun A => Val.join A none) = .ok (.str s) := by
  have hne : splitOn s [] ≠ [] := splitOn_ne_nil s [] hs
  have h1 : s.isEmpty = false := by cases s <;> simp_all
  simp [Val.split, Val.join, h1, hne, intercalate_splitOn]

example : (Val.split (.str str% "héllo" : Val Int) none).bind (fun A => Val.join A none)
    = .ok (.str str% "héllo") := join_split_chars _ (by simp)

/-- The empty text: cut gives the empty array (with or without a text delimiter) and joining the
    empty array gives the empty text, so the round trip is the identity there too. -/
theorem join_split_empty (d : Str) :
    Val.split (.str [] : Val N) (some (.str d)) = .ok emptyArr ∧
    Val.split (.str [] : Val N) none = .ok emptyArr ∧
    Val.join (emptyArr : Val N) (some (.str d)) = .ok (.str []) ∧
    Val.join (emptyArr : Val N) none = .ok (.str []) := by
  simp [Val.split, Val.join, emptyArr]

/-- What cut produces, said without reference to how it is computed: an array with an empty
    dictionary part whose sequence is a list of texts `pieces` such that (a) putting `d` between
    consecutive pieces gives `s`, (b) no piece contains `d`, and (c) stronger, `d` does not
    even *start* at any position inside a piece when reading on through the following
    delimiter and pieces (leftmost, non-overlapping matching). For every non-empty `s` and
    every non-empty `d`, of any length. -/
theorem split_pieces (s d : Str) (hs : s ≠ []) (hd : d ≠ []) :
    ∃ pieces : List Str,
      Val.split (.str s : Val N) (some (.str d)) = .ok (.arr (pieces.map .str) []) ∧
      intercalate d pieces = s ∧
      (∀ p ∈ pieces, ¬ d <:+: p) ∧
      (∀ l1 p l2, pieces = l1 ++ p :: l2 →
        ∀ j, j < p.length → ¬ d <+: (intercalate d (p :: l2)).drop j) := by
  have h1 : s.isEmpty = false := by cases s <;> simp_all
  exact ⟨splitOn s d, by simp [Val.split, h1], intercalate_splitOn s d,
    splitOn_no_delim s d hd, splitOn_no_delim_start s d hd⟩

example : Val.split (.str str% "aaa" : Val Int) (some (.str str% "aa"))
    = .ok (.arr [.str [], .str ['a']] []) := by
  simp [Val.split, splitOn]
  rw [splitAux]; simp [stripPrefix?]
  rw [splitAux]; simp [stripPrefix?]
  rw [splitAux]; simp [stripPrefix?]

/-- Cutting without a delimiter, or at the empty delimiter, gives one one-character text per
    character (code point, not byte) of `s`, in order; in particular as many as `s` has
    characters. -/
theorem split_chars (s : Str) (hs : s ≠ []) :
    Val.split (.str s : Val N) none = .ok (.arr (s.map fun c => .str [c]) []) ∧
    Val.split (.str s : Val N) (some (.str [])) = .ok (.arr (s.map fun c => .str [c]) []) ∧
    (splitOn s []).length = s.length := by
  have h1 : s.isEmpty = false := by cases s <;> simp_all
  simp [Val.split, h1, splitOn_nil_eq, List.map_map, Function.comp_def]

example : Val.split (.str str% "hé" : Val Int) none = .ok (.arr [.str ['h'], .str ['é']] []) :=
  (split_chars _ (by simp)).1

/-- Wrong kinds for cut and join are errors: a delimiter that is not a text, an operand that
    is not a text (cut) / not an array (join), an array element that is not a text (join). -/
theorem split_join_errors (v p : Val N) :
    ((∀ s, v ≠ .str s) → ∀ q, Val.split v q = .err (.invalidOp str% "split" v)) ∧
    ((∀ s d, v ≠ .arr s d) → ∀ q, Val.join v q = .err (.invalidOp str% "join" v)) ∧
    ((∀ d, p ≠ .str d) → ∀ s, Val.split (.str s) (some p) = .err (.invalidSplitDelim p)) ∧
    ((∀ d, p ≠ .str d) → ∀ s d, Val.join (.arr s d) (some p) = .err (.invalidJoinDelim p)) := by
  refine ⟨?_, ?_, ?_, ?_⟩
  · intro h q; cases v <;> simp_all [Val.split]
  · intro h q; cases v <;> simp_all [Val.join]
  · intro h s
    cases p <;> simp_all [Val.split] <;> split <;> rfl
  · intro h s d
    cases p <;> simp_all [Val.join] <;> split <;> rfl

/-- Join on a non-empty array: if some element (sequence first, then the dictionary values in
    key order) is not a text the result is the error naming the first such element, otherwise
    the texts with the delimiter between them. -/
theorem join_table (seq : List (Val N)) (dict : List (Key × Val N)) (d : Str)
    (hne : (seq.isEmpty && dict.isEmpty) = false) :
    Val.join (.arr seq dict) (some (.str d)) =
      (match allStrs (valIter seq dict) with
       | .ok ss => .ok (.str (intercalate d ss))
       | .error bad => .err (.invalidJoinElem bad)) ∧
    Val.join (.arr seq dict) none =
      (match allStrs (valIter seq dict) with
       | .ok ss => .ok (.str (intercalate [] ss))
       | .error bad => .err (.invalidJoinElem bad)) := by
  simp only [Val.join, hne]
  constructor <;> (cases allStrs (valIter seq dict) <;> rfl)

example : Val.join (.arr [.str ['a'], .num (1 : Int)] []) none
    = .err (.invalidJoinElem (.num 1)) := by
  simp [Val.join, allStrs, Except.map]

/-! ## 3. the cast table -/

variable [NumOps N]

/-- A text without parameter is parsed as a number (`str::parse::<f64>`), or the cast fails
    with "parsing failed" naming the text. -/
theorem cast_str_none (s : Str) :
    Val.cast (.str s : Val N) none =
      match (parse s : Option N) with
      | some n => .ok (.num n)
      | none => .err (.parseNumFailed s) := by
  simp only [Val.cast]
  cases (parse s : Option N) <;> rfl

/-- A text with a numeric radix `r`: an error naming `r` unless `r` is an integer
    (`tryToInteger r = some i`) with `2 ≤ i ≤ 36`; then the text is read by
    `i64::from_str_radix` in that radix, an unreadable text being the same error. -/
theorem cast_str_radix (s : Str) (r : N) :
    Val.cast (.str s : Val N) (some (.num r)) =
      match tryToInteger r with
      | none => .err (.invalidRadix (.num r))
      | some i =>
        if 2 ≤ i ∧ i ≤ 36 then
          match i64FromStrRadix s i.toNat with
          | some n => .ok (.num (ofInt n))
          | none => .err (.invalidRadix (.num r))
        else .err (.invalidRadix (.num r)) := by
  simp only [Val.cast]
  cases tryToInteger r with
  | none => rfl
  | some i =>
    simp only
    by_cases h : 2 ≤ i ∧ i ≤ 36
    · have h1 : ¬ (i < 0 ∨ i ≥ 2 ^ 32) := by omega
      have h2 : ¬ (i < 2 ∨ i > 36) := by omega
      rw [if_neg h1, if_neg h2, if_pos h]
      cases i64FromStrRadix s i.toNat <;> rfl
    · rw [if_neg h]
      by_cases h1 : i < 0 ∨ i ≥ 2 ^ 32
      · rw [if_pos h1]
      · have h2 : i < 2 ∨ i > 36 := by omega
        rw [if_neg h1, if_pos h2]

example : Val.cast (.str str% "ff" : Val Int) (some (.num 16)) = .ok (.num 255) := by
  rw [cast_str_radix]; rfl
example : Val.cast (.str str% "10" : Val Int) (some (.num 1)) = .err (.invalidRadix (.num 1)) := by
  rw [cast_str_radix]; rfl
example : Val.cast (.str str% "10" : Val Int) (some (.num 37)) = .err (.invalidRadix (.num 37)) := by
  rw [cast_str_radix]; rfl

/-- A text with a parameter that is not a number: "invalid radix" naming the parameter. -/
theorem cast_str_bad_param (s : Str) (p : Val N) (hp : ∀ n, p ≠ .num n) :
    Val.cast (.str s : Val N) (some p) = .err (.invalidRadix p) := by
  cases p <;> simp_all [Val.cast]

/-- A number with any parameter: error "unexpected parameter". -/
theorem cast_num_param (n : N) (p : Val N) :
    Val.cast (.num n) (some p) = .err (.unexpectedCastParam p) := rfl

/-- A number without parameter: the one-character text of code point `n` if `n` is an integer
    in `[0, 2^32)` that is a Unicode scalar value; otherwise "number to character failed". -/
theorem cast_num_none (n : N) :
    Val.cast (.num n) none =
      match tryToInteger n with
      | none => .err (.numToCharFailed n)
      | some i =>
        if 0 ≤ i ∧ i < 2 ^ 32 ∧ i.toNat.isValidChar then .ok (.str [Char.ofNat i.toNat])
        else .err (.numToCharFailed n) := by
  simp only [Val.cast]
  cases tryToInteger n with
  | none => rfl
  | some i =>
    simp only [charOfNat?]
    by_cases h1 : i < 0 ∨ i ≥ 2 ^ 32
    · rw [if_pos h1, if_neg (by omega)]
    · rw [if_neg h1]
      by_cases h2 : i.toNat.isValidChar
      · rw [if_pos h2, if_pos ⟨by omega, by omega, h2⟩]
      · rw [if_neg h2, if_neg (fun h => h2 h.2.2)]

example : Val.cast (.num (955 : Int)) none = .ok (.str ['λ']) := by
  rw [cast_num_none]; rfl
/-- a surrogate code point is not a character -/
example : Val.cast (.num (0xD800 : Int)) none = .err (.numToCharFailed 0xD800) := by
  rw [cast_num_none]; rfl
example : Val.cast (.num (-1 : Int)) none = .err (.numToCharFailed (-1)) := by
  rw [cast_num_none]; rfl

/-- Success of the number-to-character cast, as an equivalence. -/
theorem cast_num_none_ok_iff (n : N) (v : Val N) :
    Val.cast (.num n) none = .ok v ↔
      ∃ i c, tryToInteger n = some i ∧ 0 ≤ i ∧ i < 2 ^ 32 ∧ charOfNat? i.toNat = some c ∧
        v = .str [c] := by
  rw [cast_num_none]
  cases tryToInteger n with
  | none => simp
  | some i =>
    simp only [charOfNat?]
    by_cases h : 0 ≤ i ∧ i < 2 ^ 32 ∧ i.toNat.isValidChar
    · rw [if_pos h]
      constructor
      · intro hv; cases hv
        exact ⟨i, _, rfl, h.1, h.2.1, by rw [if_pos h.2.2], rfl⟩
      · rintro ⟨i', c, hi, _, _, hc, rfl⟩
        cases hi
        rw [if_pos h.2.2] at hc
        cases hc; rfl
    · rw [if_neg h]
      constructor
      · intro hv; cases hv
      · rintro ⟨i', c, hi, h0, h1, hc, rfl⟩
        cases hi
        exfalso; apply h
        refine ⟨h0, h1, ?_⟩
        by_cases hvc : i.toNat.isValidChar
        · exact hvc
        · rw [if_neg hvc] at hc; cases hc

/-- Everything that is neither a number nor a text cannot be cast. -/
theorem cast_other (v : Val N) (p : Option (Val N)) (h1 : ∀ n, v ≠ .num n) (h2 : ∀ s, v ≠ .str s) :
    Val.cast v p = .err (.invalidOp str% "cast" v) := by
  cases v <;> simp_all [Val.cast]

example : Val.cast (.arr [] [] : Val Int) none = .err (.invalidOp str% "cast" (.arr [] [])) :=
  cast_other _ _ (by simp) (by simp)

/-- `from_str_radix` on digit strings: for a radix `2 ≤ r ≤ 36` and a non-empty list of digit
    values all below `r`, spelled with `0-9a-z`, with optional sign, the result is the value
    of the digits in base `r` (most significant first) — provided it fits an `i64`, and `none`
    exactly when it does not. -/
theorem i64FromStrRadix_digits (r : Nat) (hr : 2 ≤ r ∧ r ≤ 36) (ds : List Nat) (hne : ds ≠ [])
    (hds : ∀ d ∈ ds, d < r) :
    i64FromStrRadix (ds.map digitChar) r =
      (if digitsValue r ds < 2 ^ 63 then some (Int.ofNat (digitsValue r ds)) else none) ∧
    i64FromStrRadix ('+' :: ds.map digitChar) r =
      (if digitsValue r ds < 2 ^ 63 then some (Int.ofNat (digitsValue r ds)) else none) ∧
    i64FromStrRadix ('-' :: ds.map digitChar) r =
      (if digitsValue r ds ≤ 2 ^ 63 then some (-(Int.ofNat (digitsValue r ds))) else none) :=
  i64FromStrRadix_digits_aux r hr ds hne hds

example : i64FromStrRadix (['-'] ++ [1, 0, 15].map digitChar) 16 = some (-271) := by decide

/-- In particular the standard spelling of a natural number in a radix `2 ≤ r ≤ 16`
    (`Nat.toDigits`, which is how decimal numerals are written) is read back as that number,
    and with a minus sign as its negative, whenever it fits an `i64`. -/
theorem i64FromStrRadix_toDigits (r : Nat) (hr : 2 ≤ r ∧ r ≤ 16) (n : Nat) :
    (n < 2 ^ 63 → i64FromStrRadix (Nat.toDigits r n) r = some (Int.ofNat n)) ∧
    (n ≤ 2 ^ 63 → i64FromStrRadix ('-' :: Nat.toDigits r n) r = some (-(Int.ofNat n))) := by
  obtain ⟨ds, hne, hds, hmap, hval⟩ := toDigits_eq_map r hr n
  obtain ⟨h1, _, h3⟩ := i64FromStrRadix_digits r ⟨hr.1, by omega⟩ ds hne hds
  rw [hmap, h1, h3, hval]
  exact ⟨fun h => by rw [if_pos h], fun h => by rw [if_pos h]⟩

example : i64FromStrRadix (Nat.toDigits 10 9223372036854775807) 10 = some 9223372036854775807 :=
  (i64FromStrRadix_toDigits 10 (by decide) _).1 (by decide)

/-- No transformation ever crashes or runs out of budget: cut, join, cast and the three
    roundings always return (`ok` or `err`), whatever the operand and parameter. In particular
    the `from_str_radix` panic for radices outside `[2, 36]` is gone. -/
theorem transformations_return (v : Val N) (p : Option (Val N)) :
    (Val.cast v p).returns = true ∧ (Val.split v p).returns = true ∧
    (Val.join v p).returns = true ∧ (Val.roundUp v).returns = true ∧
    (Val.roundDown v).returns = true ∧ (Val.roundNearest v).returns = true :=
  ⟨cast_returns v p, split_returns v p, join_returns v p, roundUp_returns v, roundDown_returns v,
   roundNearest_returns v⟩

/-- … said with the crash constructor: no site is reachable. -/
theorem transformations_never_crash (v : Val N) (p : Option (Val N)) (s : Site) :
    Val.cast v p ≠ .crash s ∧ Val.split v p ≠ .crash s ∧ Val.join v p ≠ .crash s ∧
    Val.roundUp v ≠ .crash s ∧ Val.roundDown v ≠ .crash s ∧ Val.roundNearest v ≠ .crash s := by
  obtain ⟨h1, h2, h3, h4, h5, h6⟩ := transformations_return v p
  refine ⟨?_, ?_, ?_, ?_, ?_, ?_⟩ <;> intro h <;> simp_all [Outcome.returns]

/-! ## 4. turn -/

/-- Turn up / down / round on a number is `ceil` / `floor` / `round`; on anything else it is
    an "invalid operation" error naming the value. -/
theorem rounding_table (v : Val N) :
    (∀ n, v = .num n →
      Val.roundUp v = .ok (.num (NumOps.ceil n)) ∧
      Val.roundDown v = .ok (.num (NumOps.floor n)) ∧
      Val.roundNearest v = .ok (.num (NumOps.round n))) ∧
    ((∀ n, v ≠ .num n) →
      Val.roundUp v = .err (.invalidOp str% "round up" v) ∧
      Val.roundDown v = .err (.invalidOp str% "round down" v) ∧
      Val.roundNearest v = .err (.invalidOp str% "round nearest" v)) := by
  constructor
  · rintro n rfl; exact ⟨rfl, rfl, rfl⟩
  · intro h; cases v <;> simp_all [Val.roundUp, Val.roundDown, Val.roundNearest]


/-! ## 5. the statement protocol

  `execStmt rec (.mutation op operand dest param)` is stated relative to what the
  sub-evaluations `evalOpt rec param` and `rec.evalPrimary operand` return (the interpreter is
  in record/fuel style, `rec` is arbitrary). `env.steps = n + 1` says the step budget is not
  exhausted; the first thing a statement does is pay one step.
  The order of evaluation is visible in the hypotheses: the parameter is evaluated in the
  environment after the tick, the operand in the environment `env2` the parameter evaluation
  left, and the destination is written in the environment `env3` the operand evaluation left. -/

/- SCOPE NOTE (statement level). The success theorems below are for a *variable* as destination
   (`mutation_into`, any operand) and a *variable* as in-place operand (`mutation_in_place`,
   `rounding_in_place`). NOT proved at statement level: the same for subscripted or pronoun
   operands / destinations (`cut x at i into y at j`, `turn it up`). What is missing is only
   the plumbing through `writeSubscript` / `subscriptVal`; the cell-level facts are there for
   every subscript path and for the pronoun: `C06.writeCell_var_value`,
   `C06.writeCell_var_frame`, `C06.writeCell_pronoun_frame` (what `writeCell w t keys` does for
   every closure `w`, every `keys`), `C06.write_path_then_read` and `transformations_return`.
   The failure theorems (`mutation_param_error`, `mutation_into_wrong_kind`) hold for every
   operand and destination. -/

section protocol
open Interp Env

/-- `op operand into y (with param)`, success: if the parameter evaluates to `p` (leaving
    `env2`), the operand then evaluates to `v` (leaving `env3`) and the transformation of `v`
    with `p` yields `v'`, then the statement succeeds; afterwards `y` holds `v'`, every variable
    with another key reads as it did in `env3` (so the operand keeps its value), and nothing but
    the scopes and the pronoun changed. `y` must be bindable: bound to a variable, or unbound in
    the innermost scope. -/
theorem mutation_into [co : CharOps] (rec : Rec N) (op : MutOp) (operand : Primary N) (y : VarName) (ry : Range)
    (param : Option (Expr N)) (st : ExecSt N) (env env2 env3 : Env N) (n : Nat)
    (p : Option (Val N)) (v v' : Val N)
    (hsteps : env.steps = n + 1)
    (hp : evalOpt rec param { env with steps := n } = (.ok p, env2))
    (hv : rec.evalPrimary operand env2 = (.ok v, env3))
    (hm : mutate op v p = .ok v')
    (hy : (∃ cur, lookupVarIn y env3.scopes = .ok cur) ∨
          (∃ e s rest, lookupVarIn y env3.scopes = .error e ∧ env3.scopes = s :: rest ∧
            slookup y.key s = none)) :
    ∃ scopes4,
      execStmt rec (.mutation op operand (some (.ident (.var y) ry)) param) st env
        = (.ok st, { env3 with last := some y, scopes := scopes4 }) ∧
      lookupVarIn y scopes4 = .ok v' ∧
      (∀ z : VarName, z.key ≠ y.key → lookupVarIn z scopes4 = lookupVarIn z env3.scopes) := by
  have hrun : execStmt rec (.mutation op operand (some (.ident (.var y) ry)) param) st env =
      ((fatal (writeCell (assignW v') (.var y) []) >>= fun _ => pure st) env3) := by
    rw [execStmt_mutation_eq, M_bind_ok _ _ _ _ _ (tick_succ env n hsteps),
      M_bind_ok _ _ _ _ _ hp]
    simp only
    rw [M_bind_ok _ _ _ _ _ hv]
    have : M.liftV (mutate op v p) env3 = (.ok v', env3) := by simp [M.liftV, hm]
    rw [M_bind_ok _ _ _ _ _ this]
    rfl
  rw [hrun]
  rcases hy with ⟨cur, hc⟩ | ⟨e, s, rest, he, hs, hn⟩
  · have hw := writeCell_var_bound (assignW v') y [] env3 cur hc
    rw [updateAt_assignW_nil] at hw
    refine ⟨setVarIn y v' env3.scopes, ?_, lookupVarIn_setVarIn_same y v' cur _ hc,
      fun z hz => lookupVarIn_setVarIn_other y z v' _ hz⟩
    rw [M_bind_ok _ _ _ _ _ (fatal_run _ _ _ _ hw)]
    rfl
  · have hw := writeCell_var_create (assignW v') y [] env3 e s rest he hs hn
    rw [updateAt_assignW_nil] at hw
    refine ⟨setVarIn y v' (sset y.key (.var .undef) s :: rest), ?_,
      lookupVarIn_setVarIn_same y v' .undef _ (lookupVarIn_sset_head_same y .undef s rest), ?_⟩
    · rw [M_bind_ok _ _ _ _ _ (fatal_run _ _ _ _ hw)]
      rfl
    · intro z hz
      rw [lookupVarIn_setVarIn_other y z v' _ hz, lookupVarIn_sset_head_other y z _ s rest hz, hs]

attribute [local instance] exampleCharOps in
/-- `cast "ff" into y with 16` in the empty environment (creates `y`) -/
example := mutation_into (N := Int) (mkRec (mkRec bottom)) .cast
  (.lit (.str str% "ff") default) (.simple ['y']) default (some (.prim (.lit (.num 16) default)))
  {} {} _ _ 99999 _ _ _ rfl rfl rfl rfl (.inr ⟨_, _, _, rfl, rfl, rfl⟩)

/-- The same with a variable `x` as operand, for the real interpreter one level up
    (`mkRec rec0`, i.e. `interp (k+1)`): after `op x into y` with `y ≠ x` (as keys), `x` still
    holds its value `cur` and `y` holds the transformed value. -/
theorem mutation_into_var [co : CharOps] (rec0 : Rec N) (op : MutOp) (x y : VarName) (rx ry : Range)
    (param : Option (Expr N)) (st : ExecSt N) (env env2 : Env N) (n : Nat)
    (p : Option (Val N)) (cur v' : Val N)
    (hsteps : env.steps = n + 1)
    (hp : evalOpt (mkRec rec0) param { env with steps := n } = (.ok p, env2))
    (hx : lookupVarIn x env2.scopes = .ok cur)
    (hm : mutate op cur p = .ok v')
    (hxy : y.key ≠ x.key)
    (hy : (∃ c, lookupVarIn y env2.scopes = .ok c) ∨
          (∃ e s rest, lookupVarIn y env2.scopes = .error e ∧ env2.scopes = s :: rest ∧
            slookup y.key s = none)) :
    ∃ scopes4,
      execStmt (mkRec rec0)
          (.mutation op (.ident (.var x) rx) (some (.ident (.var y) ry)) param) st env
        = (.ok st, { env2 with last := some y, scopes := scopes4 }) ∧
      lookupVarIn x scopes4 = .ok cur ∧
      lookupVarIn y scopes4 = .ok v' ∧
      (∀ z : VarName, z.key ≠ y.key → lookupVarIn z scopes4 = lookupVarIn z env2.scopes) := by
  have hv : (mkRec rec0).evalPrimary (.ident (.var x) rx) env2
      = (.ok cur, { env2 with last := some x }) := by
    show lookupVar x env2 = _
    simp only [lookupVar, hx]
  obtain ⟨scopes4, h1, h2, h3⟩ :=
    mutation_into (mkRec rec0) op (.ident (.var x) rx) y ry param st env env2
      { env2 with last := some x } n p cur v' hsteps hp hv hm hy
  exact ⟨scopes4, h1, by rw [h3 x (Ne.symm hxy)]; exact hx, h2, h3⟩

attribute [local instance] exampleCharOps in
/-- `cast x into y with 16` where `x` is "ff": the hypotheses are met … -/
example := mutation_into_var (N := Int) (mkRec bottom) .cast
  (.simple ['x']) (.simple ['y']) default default (some (.prim (.lit (.num 16) default))) {}
  { scopes := [[(.simple ['x'], .var (.str str% "ff"))]] } _ 99999 _ _ _ rfl rfl rfl rfl
  (by decide) (.inr ⟨_, _, _, rfl, rfl, rfl⟩)

/-- … and evaluating the interpreter gives what the theorem says -/
example :
    let _ := exampleCharOps
    let env : Env Int := { scopes := [[(.simple ['x'], .var (.str str% "ff"))]] }
    let stmt : Stmt Int := .mutation .cast (.ident (.var (.simple ['x'])) default)
      (some (.ident (.var (.simple ['y'])) default)) (some (.prim (.lit (.num 16) default)))
    let env' := (execStmt (interp 3) stmt {} env).2
    lookupVarIn (.simple ['x']) env'.scopes = .ok (.str str% "ff") ∧
    lookupVarIn (.simple ['y']) env'.scopes = .ok (.num 255) := ⟨rfl, rfl⟩

/-- Parameter first: if evaluating the parameter fails, the statement fails with that error in
    the environment the parameter evaluation left; neither operand nor destination is touched
    (for every operand and destination). -/
theorem mutation_param_error [co : CharOps] (rec : Rec N) (op : MutOp) (operand : Primary N)
    (dest : Option (Lhs N)) (param : Option (Expr N)) (st : ExecSt N) (env env2 : Env N)
    (n : Nat) (e : RtErr N)
    (hsteps : env.steps = n + 1)
    (hp : evalOpt rec param { env with steps := n } = (.err e, env2)) :
    execStmt rec (.mutation op operand dest param) st env = (.err e, env2) := by
  rw [execStmt_mutation_eq, M_bind_ok _ _ _ _ _ (tick_succ env n hsteps),
    M_bind_err _ _ _ _ _ hp]

attribute [local instance] exampleCharOps in
/-- the parameter is an unbound variable `z` -/
example := mutation_param_error (N := Int) (mkRec (mkRec bottom)) .cut
  (.ident .pronoun default) none (some (.prim (.ident (.var (.simple ['z'])) default))) {} {} _
  99999 _ rfl rfl

/-- With a destination, a wrong kind of operand or parameter (the transformation answers
    `err e`) is a fatal error of the statement — never a crash —, raised in the environment
    the operand evaluation left: the destination is not written, not even created. -/
theorem mutation_into_wrong_kind [co : CharOps] (rec : Rec N) (op : MutOp) (operand : Primary N) (d : Lhs N)
    (param : Option (Expr N)) (st : ExecSt N) (env env2 env3 : Env N) (n : Nat)
    (p : Option (Val N)) (v : Val N) (e : ValErr N)
    (hsteps : env.steps = n + 1)
    (hp : evalOpt rec param { env with steps := n } = (.ok p, env2))
    (hv : rec.evalPrimary operand env2 = (.ok v, env3))
    (hm : mutate op v p = .err e) :
    execStmt rec (.mutation op operand (some d) param) st env = (.err (.val e), env3) := by
  rw [execStmt_mutation_eq, M_bind_ok _ _ _ _ _ (tick_succ env n hsteps),
    M_bind_ok _ _ _ _ _ hp]
  simp only
  rw [M_bind_ok _ _ _ _ _ hv]
  have : M.liftV (mutate op v p) env3 = (.err (.val e), env3) := by simp [M.liftV, hm]
  rw [M_bind_err _ _ _ _ _ this]

attribute [local instance] exampleCharOps in
/-- `cast true into y` -/
example := mutation_into_wrong_kind (N := Int) (mkRec bottom) .cast
  (.lit (.bool true) default) (.ident (.var (.simple ['y'])) default) none {} {} _ _ 99999 _ _ _
  rfl rfl rfl rfl

/-- In place (no destination) on a bound variable `x`, for the real interpreter one level up:
    after the parameter evaluated to `p`, exactly one of two things happens. Either the
    transformation of the value `cur` of `x` succeeds with `v'`: the statement succeeds and `x`
    holds `v'`. Or it answers an error `e` (wrong kinds, unparsable text, bad radix, …): the
    statement fails fatally with that error and `x` keeps its value. There is no third case —
    no crash, no budget exhaustion — and in both cases all other variables read as before. -/
theorem mutation_in_place [co : CharOps] (rec0 : Rec N) (op : MutOp) (x : VarName) (rx : Range)
    (param : Option (Expr N)) (st : ExecSt N) (env env2 : Env N) (n : Nat)
    (p : Option (Val N)) (cur : Val N)
    (hsteps : env.steps = n + 1)
    (hp : evalOpt (mkRec rec0) param { env with steps := n } = (.ok p, env2))
    (hx : lookupVarIn x env2.scopes = .ok cur) :
    ∃ r scopes3,
      execStmt (mkRec rec0) (.mutation op (.ident (.var x) rx) none param) st env
        = (r, { env2 with last := some x, scopes := scopes3 }) ∧
      ((∃ v', mutate op cur p = .ok v' ∧ r = .ok st ∧ lookupVarIn x scopes3 = .ok v') ∨
       (∃ e, mutate op cur p = .err e ∧ r = .err (.val e) ∧ lookupVarIn x scopes3 = .ok cur)) ∧
      (∀ z : VarName, z.key ≠ x.key → lookupVarIn z scopes3 = lookupVarIn z env2.scopes) := by
  have hrun : execStmt (mkRec rec0) (.mutation op (.ident (.var x) rx) none param) st env =
      ((fatal (writeCell (liftW fun v => mutate op v p) (.var x) []) >>= fun _ => pure st)
        env2) := by
    rw [execStmt_mutation_eq, M_bind_ok _ _ _ _ _ (tick_succ env n hsteps),
      M_bind_ok _ _ _ _ _ hp]
    rfl
  rw [hrun]
  have hw := writeCell_var_bound (liftW fun v => mutate op v p) x [] env2 cur hx
  rcases returns_cases _ (mutate_returns op cur p) with ⟨v', hm⟩ | ⟨e, hm⟩
  · rw [updateAt_liftW_nil_ok env2.cap (fun v => mutate op v p) cur v' hm] at hw
    refine ⟨.ok st, setVarIn x v' env2.scopes, ?_,
      .inl ⟨v', hm, rfl, lookupVarIn_setVarIn_same x v' cur _ hx⟩,
      fun z hz => lookupVarIn_setVarIn_other x z v' _ hz⟩
    rw [M_bind_ok _ _ _ _ _ (fatal_run _ _ _ _ hw)]
    rfl
  · rw [updateAt_liftW_nil_err env2.cap (fun v => mutate op v p) cur e hm] at hw
    refine ⟨.err (.val e), setVarIn x cur env2.scopes, ?_,
      .inr ⟨e, hm, rfl, lookupVarIn_setVarIn_same x cur cur _ hx⟩,
      fun z hz => lookupVarIn_setVarIn_other x z cur _ hz⟩
    rw [M_bind_err _ _ _ _ _ (fatal_run _ _ _ _ hw)]

attribute [local instance] exampleCharOps in
/-- `cast x` where `x` is 955: afterwards `x` is "λ" -/
example := mutation_in_place (N := Int) (mkRec bottom) .cast
  (.simple ['x']) default none {} { scopes := [[(.simple ['x'], .var (.num 955))]] } _ 99999 _ _
  rfl rfl rfl
example :
    let _ := exampleCharOps
    let env : Env Int := { scopes := [[(.simple ['x'], .var (.num 955))]] }
    lookupVarIn (.simple ['x'])
      (execStmt (interp 2) (.mutation .cast (.ident (.var (.simple ['x'])) default) none none) {}
        env).2.scopes = .ok (.str ['λ']) := rfl

/-- `turn up/down/round x` on a bound variable, for the real interpreter two levels up (one for
    the expression, one for the primary): either the value of `x` is a number and is replaced
    by its rounding, or the statement fails fatally with the `invalid operation` error and `x`
    keeps its value; never a crash; all other variables read as before. -/
theorem rounding_in_place [co : CharOps] (rec0 : Rec N) (dir : RoundDir) (x : VarName) (rx : Range)
    (st : ExecSt N) (env : Env N) (n : Nat) (cur : Val N)
    (hsteps : env.steps = n + 1)
    (hx : lookupVarIn x env.scopes = .ok cur) :
    ∃ r scopes3,
      execStmt (mkRec (mkRec rec0)) (.rounding dir (.prim (.ident (.var x) rx))) st env
        = (r, { env with steps := n, last := some x, scopes := scopes3 }) ∧
      ((∃ v', roundW dir cur = .ok v' ∧ r = .ok st ∧ lookupVarIn x scopes3 = .ok v') ∨
       (∃ e, roundW dir cur = .err e ∧ r = .err (.val e) ∧ lookupVarIn x scopes3 = .ok cur)) ∧
      (∀ z : VarName, z.key ≠ x.key → lookupVarIn z scopes3 = lookupVarIn z env.scopes) := by
  have hrun : execStmt (mkRec (mkRec rec0)) (.rounding dir (.prim (.ident (.var x) rx))) st env =
      ((fatal (writeCell (liftW (roundW dir)) (.var x) []) >>= fun _ => pure st)
        { env with steps := n }) := by
    rw [execStmt_rounding_eq, M_bind_ok _ _ _ _ _ (tick_succ env n hsteps)]
    rfl
  rw [hrun]
  have hx' : lookupVarIn x ({ env with steps := n } : Env N).scopes = .ok cur := hx
  have hw := writeCell_var_bound (liftW (roundW dir)) x [] { env with steps := n } cur hx'
  rcases returns_cases _ (roundW_returns dir cur) with ⟨v', hm⟩ | ⟨e, hm⟩
  · rw [updateAt_liftW_nil_ok _ (roundW dir) cur v' hm] at hw
    refine ⟨.ok st, setVarIn x v' env.scopes, ?_,
      .inl ⟨v', hm, rfl, lookupVarIn_setVarIn_same x v' cur _ hx⟩,
      fun z hz => lookupVarIn_setVarIn_other x z v' _ hz⟩
    rw [M_bind_ok _ _ _ _ _ (fatal_run _ _ _ _ hw)]
    rfl
  · rw [updateAt_liftW_nil_err _ (roundW dir) cur e hm] at hw
    refine ⟨.err (.val e), setVarIn x cur env.scopes, ?_,
      .inr ⟨e, hm, rfl, lookupVarIn_setVarIn_same x cur cur _ hx⟩,
      fun z hz => lookupVarIn_setVarIn_other x z cur _ hz⟩
    rw [M_bind_err _ _ _ _ _ (fatal_run _ _ _ _ hw)]

attribute [local instance] exampleCharOps in
/-- `turn x up` where `x` is 3 (on `Int`, rounding is the identity) -/
example := rounding_in_place (N := Int) bottom .up (.simple ['x'])
  default {} { scopes := [[(.simple ['x'], .var (.num 3))]] } 99999 _ rfl rfl
/-- `turn x up` where `x` is a text: fatal error, no crash -/
example :
    let _ := exampleCharOps
    let env : Env Int := { scopes := [[(.simple ['x'], .var (.str ['a']))]] }
    (execStmt (interp 3) (.rounding .up (.prim (.ident (.var (.simple ['x'])) default))) {} env).1
      = .err (.val (.invalidOp str% "round up" (.str ['a']))) := rfl

end protocol

end
end Rrss.C07
