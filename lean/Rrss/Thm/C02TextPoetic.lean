/-
  Rrss.Thm.C02TextPoetic — property C02 at the level of CHARACTER STRINGS (continuation of
  Rrss/Thm/C02Text.lean) for the programs whose parse depends on something of a token that the
  grammar does not fix: a bare `break` (the parser looks whether the next token is spelled `it`),
  poetic number literals and `rock … like …` (the literal ends at the first token that is not
  spelled like a word), `X is -5` (the hyphen must be spelled `-`, not `minus`), poetic strings
  `X says …` (the text is cut out of the SOURCE between the start offsets of two tokens).  In
  Rrss/Thm/C02.lean these are the hypothesis `progFits` on the template tokens; here it is
  DISCHARGED for the tokens of the lexer run on a spelled text (Rrss/Spec/Spelling.lean):
  `lex_spell` gives that every token is spelled exactly like its piece, a piece of kind `Newline` /
  `Dot` / `Comma` is the line feed / `.` / `,` (no keyword alias has these kinds), and these are
  neither `it` nor words; `lex_spell_offsets` gives that every token starts at the byte offset of
  its piece (`Spelling.offsets`: the lengths of the separators and pieces before it).

  Setting and hypotheses as in `C02_text`; in addition `PunctLower`: `char::to_lowercase` maps each
  of the characters line feed, `.`, `,` to itself (true of the Rust std; met by both concrete
  tables, see the first example) — a bare `break` compares the LOWER-CASED spelling of the next
  token with `it`.  `progLexable hy ps bs` (decidable) allows every statement kind, `X is -5` if
  `hy`, poetic strings if `ps`.  A poetic number literal needs no new kind of piece: its words are
  keyword pieces (keywords count as words) and name pieces, its punctuation symbol and suffix
  pieces; the rest of a `says` line is ANY admissible run of pieces and separators.
  (Helper lemmas: Rrss/Lemmas/SpellOffsets.lean, Rrss/Lemmas/SpellPoetic.lean.)
-/
import Rrss.Lemmas.SpellPoetic
namespace Rrss
namespace C02Text
open Lexer Parser Grammar Spelling

/- FULL STATEMENT (not proved): as in Rrss/Thm/C02Text.lean — `parseProgram kw text = .ok p` with
   `p.code.map eraseB = progToAst bs` for EVERY program `bs` and every admissible way of writing
   it down.  The theorems below extend `C02_text` from `progPlain false` to all statement kinds.
   What is still missing:
   * `C02_text_poetic_string_partial` / `…_at_eof_partial`: the hypothesis `hstr` (the texts in the
     tree are the source slices at the offsets of the pieces) is asked for EVERY choice of templates `c₂` that agrees
     with the pieces on kinds, spellings, payloads and start offsets, not only for the given `c`
     (all such `c₂` put the same token at the same place, but "the length of `progToks bs c` depends
     on the picks only" is not proved); in the example it is proved for all `c₂` by unfolding;
   * `hminus` (`hyphensOK`) asks that every `Minus` piece right after an `is` piece is written `-`;
     what the parser needs is this only for the `is` of a poetic assignment (a text with `x is -5` and,
     elsewhere, the EXPRESSION `y is minus 1` is not covered);
   * everything listed in C02Text.lean under "spellings outside Spec/Spelling.lean": non-ASCII
     letters and blanks, numbers starting with `.`, apostrophes that the lexer drops (`ain't`
     inside a poetic literal or a `says` line), `'n'` right after a number / string. -/

section
variable {N : Type} [CharOps] [NumOps N]

/-- **C02 on character strings, bare `break`.** `C02_text` for programs that may contain bare
    `break`s (`progPlain true`: still no poetic constructs): whatever follows the `break` on its
    line — the line feed, or `.` / `,` and the line feed — is not read as the `it` of
    `break it down`, because the token's spelling IS the character(s) written. -/
theorem C02_text_break (laws : SpellLaws) (hpl : PunctLower)
    (hdot : (NumOps.parse ['.'] : Option N) = none)
    (kw : List (Str × TK)) (hkw : ∀ w, kw.lookup w = Spec.promised.lookup w)
    (bs : List (List (Statement N))) (c : Choices N) (items : List (Sep × Piece)) (e : Sep)
    (hwf : progWf bs = true) (hplain : progPlain true bs = true)
    (hlen : ulen (spell items e) < 2 ^ 32) (hok : spellOK none items e = true)
    (hnum : ∀ x ∈ items, x.2.kind = .number → (x.2.numOf : Option N).isSome = true)
    (hv : (visible items).map (fun p => (p.expect : TK × Str × Option N × Str))
      = (progToks bs c).map tview) :
    ∃ p : Program N, parseProgram kw (spell items e) = .ok p ∧
      p.code.map eraseB = progToAst bs :=
  parse_spell_lex laws hpl hdot kw hkw false false bs c items e hwf (lexable_of_plain true false false bs hplain)
    (fun h => by cases h) (fun h => by cases h) hlen hok hnum hv

/-- non-vacuity: both concrete tables meet `PunctLower`; the text `while x⏎break⏎⏎⏎` (the two
    blank lines close the loop and the top-level block) meets every hypothesis (kernel evaluation,
    ASCII tables, integers, transcribed keyword table), so it parses to the tree of the grammar … -/
example : @PunctLower asciiOps ∧ @PunctLower charOpsImpl :=
  ⟨SpellPoeticEx.punctLower_asciiOps, SpellPoeticEx.punctLower_charOpsImpl⟩
example : spell SpellPoeticEx.itemsBreak [] = str% "while x\nbreak\n\n\n" := by decide +kernel
example : ∃ p : Program Int,
    @parseProgram Int asciiOps numOpsInt defaultKeywords (spell SpellPoeticEx.itemsBreak []) = .ok p ∧
    p.code.map eraseB = @progToAst Int asciiOps SpellPoeticEx.progBreak :=
  @C02_text_break Int asciiOps numOpsInt spellLaws_asciiOps SpellPoeticEx.punctLower_asciiOps parseInt_dot
    defaultKeywords defaultKeywords_eq_promised SpellPoeticEx.progBreak
    (SpellPoeticEx.choicesOf SpellPoeticEx.progBreak SpellPoeticEx.itemsBreak)
    SpellPoeticEx.itemsBreak [] (by decide +kernel) (by decide +kernel) (by decide +kernel)
    (by decide +kernel) (by decide +kernel) (by decide +kernel)
/-- … which is this tree; cross-check, independent of the theorem: the model's `parseProgram`
    (fuel copy of the lexer, evaluated by the kernel) accepts the text -/
example : @progToAst Int asciiOps SpellPoeticEx.progBreak
    = [.mk default [.whileS (.prim (.ident (.var (.simple (str% "x"))) default))
        (.mk default [.break_ default])]] := by rfl
example : @parseReportF Int asciiOps numOpsInt defaultKeywords 200 (spell SpellPoeticEx.itemsBreak [])
    = some none := by decide +kernel

/-- **C02 on character strings, poetic number literals.** `C02_text` for `progLexable false false`: every
    program without poetic strings and without negative poetic right-hand sides — in particular
    with poetic number literals `X is|was|'s … <words>` (the words: any keyword alias in any letter
    case, any name; `,` `.` `'s` `'re`; a hyphen glued or not), `rock X like <words>` and bare
    `break`s.  The literal ends where the line ends: the `Newline` token after it is spelled as a
    line feed, which is white space, hence not a word. -/
theorem C02_text_poetic_number (laws : SpellLaws) (hpl : PunctLower)
    (hdot : (NumOps.parse ['.'] : Option N) = none)
    (kw : List (Str × TK)) (hkw : ∀ w, kw.lookup w = Spec.promised.lookup w)
    (bs : List (List (Statement N))) (c : Choices N) (items : List (Sep × Piece)) (e : Sep)
    (hwf : progWf bs = true) (hlx : progLexable false false bs = true)
    (hlen : ulen (spell items e) < 2 ^ 32) (hok : spellOK none items e = true)
    (hnum : ∀ x ∈ items, x.2.kind = .number → (x.2.numOf : Option N).isSome = true)
    (hv : (visible items).map (fun p => (p.expect : TK × Str × Option N × Str))
      = (progToks bs c).map tview) :
    ∃ p : Program N, parseProgram kw (spell items e) = .ok p ∧
      p.code.map eraseB = progToAst bs :=
  parse_spell_lex laws hpl hdot kw hkw false false bs c items e hwf hlx (fun h => by cases h) (fun h => by cases h)
    hlen hok hnum hv

/-- non-vacuity: the text `Tommy was a lovestruck ladykiller⏎rock x like a rolling stone⏎break⏎⏎`
    meets every hypothesis, so it parses to the tree of the grammar … -/
example : spell SpellPoeticEx.itemsTommy [] =
    str% "Tommy was a lovestruck ladykiller\nrock x like a rolling stone\nbreak\n\n" := by decide +kernel
example : ∃ p : Program Int,
    @parseProgram Int asciiOps numOpsInt defaultKeywords (spell SpellPoeticEx.itemsTommy []) = .ok p ∧
    p.code.map eraseB = @progToAst Int asciiOps SpellPoeticEx.progTommy :=
  @C02_text_poetic_number Int asciiOps numOpsInt spellLaws_asciiOps SpellPoeticEx.punctLower_asciiOps
    parseInt_dot defaultKeywords defaultKeywords_eq_promised SpellPoeticEx.progTommy
    (SpellPoeticEx.choicesOf SpellPoeticEx.progTommy SpellPoeticEx.itemsTommy)
    SpellPoeticEx.itemsTommy [] (by decide +kernel) (by decide +kernel) (by decide +kernel)
    (by decide +kernel) (by decide +kernel) (by decide +kernel)
/-- … which is this tree (the literals word by word); the model's `parseProgram` accepts the text -/
example : @progToAst Int asciiOps SpellPoeticEx.progTommy
    = [.mk default
        [.poeticNum (.ident (.var (.simple (str% "Tommy"))) default)
           (.lit [.word (str% "a"), .word (str% "lovestruck"), .word (str% "ladykiller")]),
         .push (.ident (.var (.simple (str% "x"))) default)
           (some (.lit [.word (str% "a"), .word (str% "rolling"), .word (str% "stone")])),
         .break_ default]] := by rfl
example : @parseReportF Int asciiOps numOpsInt defaultKeywords 200 (spell SpellPoeticEx.itemsTommy [])
    = some none := by decide +kernel

/-- **C02 on character strings, `X is -5`.** `C02_text` for `progLexable true false`: every program
    without poetic strings, now also with negative poetic right-hand sides, for the texts in which
    every `Minus` piece that comes right after an `is` / `was` / `'s` / `'re` piece is written `-`
    (`hyphensOK`, decidable; the aliases `minus` / `without` right after `is` would start a poetic
    number literal instead; elsewhere they are fine). -/
theorem C02_text_negative (laws : SpellLaws) (hpl : PunctLower)
    (hdot : (NumOps.parse ['.'] : Option N) = none)
    (kw : List (Str × TK)) (hkw : ∀ w, kw.lookup w = Spec.promised.lookup w)
    (bs : List (List (Statement N))) (c : Choices N) (items : List (Sep × Piece)) (e : Sep)
    (hwf : progWf bs = true) (hlx : progLexable true false bs = true)
    (hminus : hyphensOK (visible items) = true)
    (hlen : ulen (spell items e) < 2 ^ 32) (hok : spellOK none items e = true)
    (hnum : ∀ x ∈ items, x.2.kind = .number → (x.2.numOf : Option N).isSome = true)
    (hv : (visible items).map (fun p => (p.expect : TK × Str × Option N × Str))
      = (progToks bs c).map tview) :
    ∃ p : Program N, parseProgram kw (spell items e) = .ok p ∧
      p.code.map eraseB = progToAst bs :=
  parse_spell_lex laws hpl hdot kw hkw true false bs c items e hwf hlx (fun _ => hminus) (fun h => by cases h)
    hlen hok hnum hv

/-- non-vacuity: the text `x is -5⏎say x minus 1⏎Tommy was a lovestruck ladykiller⏎⏎` meets every
    hypothesis, so it parses to the tree of the grammar … -/
example : spell SpellPoeticEx.itemsNeg [] =
    str% "x is -5\nsay x minus 1\nTommy was a lovestruck ladykiller\n\n" := by decide +kernel
example : ∃ p : Program Int,
    @parseProgram Int asciiOps numOpsInt defaultKeywords (spell SpellPoeticEx.itemsNeg []) = .ok p ∧
    p.code.map eraseB = @progToAst Int asciiOps SpellPoeticEx.progNeg :=
  @C02_text_negative Int asciiOps numOpsInt spellLaws_asciiOps SpellPoeticEx.punctLower_asciiOps
    parseInt_dot defaultKeywords defaultKeywords_eq_promised SpellPoeticEx.progNeg
    (SpellPoeticEx.choicesOf SpellPoeticEx.progNeg SpellPoeticEx.itemsNeg)
    SpellPoeticEx.itemsNeg [] (by decide +kernel) (by decide +kernel) (by decide +kernel)
    (by decide +kernel) (by decide +kernel) (by decide +kernel) (by decide +kernel)
/-- … which is this tree; the model's `parseProgram` accepts the text -/
example : @progToAst Int asciiOps SpellPoeticEx.progNeg
    = [.mk default
        [.poeticNum (.ident (.var (.simple (str% "x"))) default)
           (.expr (.un .minus (.prim (.lit (.num 5) default)))),
         .output (.bin .minus (.prim (.ident (.var (.simple (str% "x"))) default))
           (.prim (.lit (.num 1) default)) []),
         .poeticNum (.ident (.var (.simple (str% "Tommy"))) default)
           (.lit [.word (str% "a"), .word (str% "lovestruck"), .word (str% "ladykiller")])]] := by rfl
example : @parseReportF Int asciiOps numOpsInt defaultKeywords 200 (spell SpellPoeticEx.itemsNeg [])
    = some none := by decide +kernel

/-- **C02 on character strings, texts that end with the input.** The three theorems above for
    the spellings `progToksD d bs c` of Thm/C02.lean (the blank line that closes the last top-level
    block and the last `d` further `Newline`s omitted, for every `d`): every program without poetic
    strings (`X is -5` if `hy`, under `hminus`).  At the end of the input nothing follows a bare
    `break` or a poetic number literal, or only the `.` / `,` of the line end. -/
theorem C02_text_poetic_at_eof (laws : SpellLaws) (hpl : PunctLower)
    (hdot : (NumOps.parse ['.'] : Option N) = none)
    (kw : List (Str × TK)) (hkw : ∀ w, kw.lookup w = Spec.promised.lookup w)
    (hy : Bool) (d : Nat) (bs : List (List (Statement N))) (c : Choices N)
    (items : List (Sep × Piece)) (e : Sep)
    (hwf : progWf bs = true) (hlx : progLexable hy false bs = true)
    (hminus : hy = true → hyphensOK (visible items) = true)
    (hlen : ulen (spell items e) < 2 ^ 32) (hok : spellOK none items e = true)
    (hnum : ∀ x ∈ items, x.2.kind = .number → (x.2.numOf : Option N).isSome = true)
    (hv : (visible items).map (fun p => (p.expect : TK × Str × Option N × Str))
      = (progToksD d bs c).map tview) :
    ∃ p : Program N, parseProgram kw (spell items e) = .ok p ∧
      p.code.map eraseB = progToAst bs :=
  parse_spell_lex_at_eof laws hpl hdot kw hkw hy false d bs c items e hwf hlx hminus (fun h => by cases h)
    hlen hok hnum hv

/-- non-vacuity: the text `while x⏎break⏎⏎x is -5⏎Tommy was a lovestruck ladykiller`, which ends
    right after the poetic literal (`d = 1`), meets every hypothesis, so it parses to the tree of
    the grammar; the model's `parseProgram` accepts the text -/
example : spell SpellPoeticEx.itemsEof [] =
    str% "while x\nbreak\n\nx is -5\nTommy was a lovestruck ladykiller" := by decide +kernel
example : ∃ p : Program Int,
    @parseProgram Int asciiOps numOpsInt defaultKeywords (spell SpellPoeticEx.itemsEof []) = .ok p ∧
    p.code.map eraseB = @progToAst Int asciiOps SpellPoeticEx.progEof :=
  @C02_text_poetic_at_eof Int asciiOps numOpsInt spellLaws_asciiOps SpellPoeticEx.punctLower_asciiOps
    parseInt_dot defaultKeywords defaultKeywords_eq_promised true 1 SpellPoeticEx.progEof
    SpellPoeticEx.choicesEof SpellPoeticEx.itemsEof [] (by decide +kernel) (by decide +kernel)
    (fun _ => by decide +kernel) (by decide +kernel) (by decide +kernel) (by decide +kernel)
    (by decide +kernel)
example : @parseReportF Int asciiOps numOpsInt defaultKeywords 200 (spell SpellPoeticEx.itemsEof [])
    = some none := by decide +kernel

/-- **Lexer round trip, start offsets.** `lex_spell` with positions: the token of the `i`-th piece
    starts at the byte offset of that piece in the text — the sum of the UTF-8 lengths of the
    separators and pieces before it and of its own separator (`Spelling.offsets 0 items`). -/
theorem lex_spell_offsets (laws : SpellLaws) (hdot : (NumOps.parse ['.'] : Option N) = none)
    (kw : List (Str × TK)) (hkw : ∀ w, kw.lookup w = Spec.promised.lookup w)
    (items : List (Sep × Piece)) (e : Sep)
    (hlen : ulen (spell items e) < 2 ^ 32) (hok : spellOK none items e = true)
    (hnum : ∀ x ∈ items, x.2.kind = .number → (x.2.numOf : Option N).isSome = true) :
    ∃ ts : List (Tok N), lexAll kw (spell items e) = .ok ts ∧
      ts.map tview = items.map (fun x => (x.2.expect : TK × Str × Option N × Str)) ∧
      ts.map (·.start) = offsets 0 items :=
  lexAll_spell_starts laws hdot kw hkw items e hlen hok hnum

/-- non-vacuity: the second example text of C02Text.lean (24 pieces, suffix `'S`, comments, ignored
    punctuation) meets the hypotheses; these are its offsets, and — cross-check independent of the
    theorem — the starts the model's lexer (fuel copy, kernel evaluation) returns on its characters -/
example : ∃ ts : List (Tok Int),
    @lexAll Int asciiOps numOpsInt defaultKeywords (spell SpellEx.items2 [' ']) = .ok ts ∧
    ts.map (·.start) = offsets 0 SpellEx.items2 := by
  obtain ⟨ts, h1, _, h3⟩ := @lex_spell_offsets Int asciiOps numOpsInt spellLaws_asciiOps parseInt_dot
    defaultKeywords defaultKeywords_eq_promised SpellEx.items2 [' '] (by decide +kernel)
    (by decide +kernel) (by decide +kernel)
  exact ⟨ts, h1, h3⟩
example : offsets 0 SpellEx.items2 =
    [0, 1, 10, 16, 18, 21, 23, 24, 27, 28, 32, 41, 46, 50, 53, 59, 61, 68, 70, 73, 75, 90, 91, 93] := by
  decide +kernel
example : (@lexViewsF Int asciiOps numOpsInt defaultKeywords 200 (spell SpellEx.items2 [' '])).map
      (fun l => l.map (·.2.2.1)) = some (offsets 0 SpellEx.items2) := by decide +kernel

/- FULL STATEMENT (not proved): `C02_text_poetic_string_partial` with `hstr` asked for the given
   `c` only (see the list at the top of the file for what is missing). -/

/-- **C02 on character strings, poetic strings.** `C02_text` for ALL statement kinds
    (`progLexable hy true`), poetic strings `X says|say <text>` included.  The rest of a `says` line
    may be any admissible run of pieces and separators (words, numbers, symbols, ignored
    punctuation, comments, string literals …) up to a line-feed piece.  `hstr` says what the texts
    in the tree are, in terms of the SPELLING alone: for templates `c₂` that carry the kinds,
    spellings, payloads and START OFFSETS of the visible pieces (`visibleAt items`, computed from
    the lengths of pieces and separators — nothing about the lexer), the text of every `X says …`
    of the tree is the slice of `spell items e` from the offset of the `says` piece to the offset
    of the line-feed piece, minus `says␣` (`progStrFits`, the poetic-string part of `progFits`).
    The theorem discharges that the lexer's tokens ARE such templates (`lex_spell_offsets`), and
    all other template conditions as in the theorems above (`hminus` only if `hy`). -/
theorem C02_text_poetic_string_partial (laws : SpellLaws) (hpl : PunctLower)
    (hdot : (NumOps.parse ['.'] : Option N) = none)
    (kw : List (Str × TK)) (hkw : ∀ w, kw.lookup w = Spec.promised.lookup w)
    (hy : Bool) (bs : List (List (Statement N))) (c : Choices N) (items : List (Sep × Piece)) (e : Sep)
    (hwf : progWf bs = true) (hlx : progLexable hy true bs = true)
    (hminus : hy = true → hyphensOK (visible items) = true)
    (hstr : ∀ c₂ : Choices N, c₂.pick = c.pick →
      (progToks bs c₂).map (fun t => (tview t, t.start)) = visibleAt items →
      progStrFits (spell items e) bs c₂)
    (hlen : ulen (spell items e) < 2 ^ 32) (hok : spellOK none items e = true)
    (hnum : ∀ x ∈ items, x.2.kind = .number → (x.2.numOf : Option N).isSome = true)
    (hv : (visible items).map (fun p => (p.expect : TK × Str × Option N × Str))
      = (progToks bs c).map tview) :
    ∃ p : Program N, parseProgram kw (spell items e) = .ok p ∧
      p.code.map eraseB = progToAst bs :=
  parse_spell_lex laws hpl hdot kw hkw hy true bs c items e hwf hlx hminus (fun _ => hstr)
    hlen hok hnum hv

/-- non-vacuity: the text `x says Hello, World! (you)⏎⏎` meets every hypothesis (`hstr`:
    `SpellPoeticEx.says_strFits`, proved for all `c₂` by unfolding the seven tokens; everything
    else by kernel evaluation), so it parses to the tree of the grammar … -/
example : spell SpellPoeticEx.itemsSays [] = str% "x says Hello, World! (you)\n\n" := by decide +kernel
example : @visibleAt Int numOpsInt SpellPoeticEx.itemsSays =
    [((.word, str% "x", none, []), 0), ((.says, str% "says", none, []), 2),
     ((.word, str% "Hello", none, []), 7), ((.comma, [','], none, []), 12),
     ((.word, str% "World", none, []), 14), ((.newline, ['\n'], none, []), 26),
     ((.newline, ['\n'], none, []), 27)] := SpellPoeticEx.says_views
example : ∃ p : Program Int,
    @parseProgram Int asciiOps numOpsInt defaultKeywords (spell SpellPoeticEx.itemsSays []) = .ok p ∧
    p.code.map eraseB = @progToAst Int asciiOps SpellPoeticEx.progSays :=
  @C02_text_poetic_string_partial Int asciiOps numOpsInt spellLaws_asciiOps
    SpellPoeticEx.punctLower_asciiOps parseInt_dot defaultKeywords defaultKeywords_eq_promised false
    SpellPoeticEx.progSays (SpellPoeticEx.choicesOf SpellPoeticEx.progSays SpellPoeticEx.itemsSays)
    SpellPoeticEx.itemsSays [] (by decide +kernel) (by decide +kernel) (fun h => by cases h)
    (fun c₂ hp hv => SpellPoeticEx.says_strFits c₂ hp hv)
    (by decide +kernel) (by decide +kernel) (by decide +kernel) (by decide +kernel)
/-- … which is this tree: the text with the ignored `!` and the comment, as the source has it; the
    model's `parseProgram` accepts the text -/
example : @progToAst Int asciiOps SpellPoeticEx.progSays
    = [.mk default [.poeticStr (.ident (.var (.simple (str% "x"))) default)
        (str% "Hello, World! (you)")]] := by rfl
example : @parseReportF Int asciiOps numOpsInt defaultKeywords 200 (spell SpellPoeticEx.itemsSays [])
    = some none := by decide +kernel

/-- **C02 on character strings, poetic strings, texts that end with the input.**
    `C02_text_poetic_string_partial` for the spellings `progToksD d bs c`: if the input ends in a
    `says` line, its text runs to the end of the source (trailing blanks and ignored punctuation
    included), as `progStrFitsD` says. -/
theorem C02_text_poetic_string_at_eof_partial (laws : SpellLaws) (hpl : PunctLower)
    (hdot : (NumOps.parse ['.'] : Option N) = none)
    (kw : List (Str × TK)) (hkw : ∀ w, kw.lookup w = Spec.promised.lookup w)
    (hy : Bool) (d : Nat) (bs : List (List (Statement N))) (c : Choices N)
    (items : List (Sep × Piece)) (e : Sep)
    (hwf : progWf bs = true) (hlx : progLexable hy true bs = true)
    (hminus : hy = true → hyphensOK (visible items) = true)
    (hstr : ∀ c₂ : Choices N, c₂.pick = c.pick →
      (progToksD d bs c₂).map (fun t => (tview t, t.start)) = visibleAt items →
      progStrFitsD (spell items e) d bs c₂)
    (hlen : ulen (spell items e) < 2 ^ 32) (hok : spellOK none items e = true)
    (hnum : ∀ x ∈ items, x.2.kind = .number → (x.2.numOf : Option N).isSome = true)
    (hv : (visible items).map (fun p => (p.expect : TK × Str × Option N × Str))
      = (progToksD d bs c).map tview) :
    ∃ p : Program N, parseProgram kw (spell items e) = .ok p ∧
      p.code.map eraseB = progToAst bs :=
  parse_spell_lex_at_eof laws hpl hdot kw hkw hy true d bs c items e hwf hlx hminus (fun _ => hstr)
    hlen hok hnum hv

/-- non-vacuity: the text `x says hi, there!`, which ends with the input (`d = 1`; the `!` is the
    trailing separator), meets every hypothesis (`hstr`: `SpellPoeticEx.saysEof_strFits`), so it
    parses to the tree of the grammar, with the text `hi, there!`; the model's `parseProgram`
    accepts the text -/
example : spell SpellPoeticEx.itemsSaysEof ['!'] = str% "x says hi, there!" := by decide +kernel
example : ∃ p : Program Int,
    @parseProgram Int asciiOps numOpsInt defaultKeywords (spell SpellPoeticEx.itemsSaysEof ['!']) = .ok p ∧
    p.code.map eraseB = [.mk default [.poeticStr (.ident (.var (.simple (str% "x"))) default)
        (str% "hi, there!")]] :=
  @C02_text_poetic_string_at_eof_partial Int asciiOps numOpsInt spellLaws_asciiOps
    SpellPoeticEx.punctLower_asciiOps parseInt_dot defaultKeywords defaultKeywords_eq_promised false 1
    SpellPoeticEx.progSaysEof SpellPoeticEx.choicesSaysEof SpellPoeticEx.itemsSaysEof ['!']
    (by decide +kernel) (by decide +kernel) (fun h => by cases h)
    (fun c₂ hp hv => SpellPoeticEx.saysEof_strFits c₂ hp hv)
    (by decide +kernel) (by decide +kernel) (by decide +kernel) (by decide +kernel)
example : @parseReportF Int asciiOps numOpsInt defaultKeywords 200 (spell SpellPoeticEx.itemsSaysEof ['!'])
    = some none := by decide +kernel

end

end C02Text
end Rrss
