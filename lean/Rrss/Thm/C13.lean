/-
  Rrss.Thm.C13 — property C13: syntax errors are rejected and attributed to the line they occur on.

  The parser model (Rrss/Parser.lean) works on the comment-filtered token list; a state `st` holds
  the remaining tokens `st.toks`, the lexer snapshot `st.last` after the last token pulled (what
  `current_line` reads), the snapshot `st.eof` of the exhausted lexer, and the source `st.src`.
  `parser n` is the parser with recursion depth `n`; `parseProgram kw src` lexes, filters comments
  and runs `(parser (#tokens + 2)).program` on `initState src raw`.

  1. NO TRUNCATION: a program is accepted only when every token has been consumed.
  2. SUFFIX / ERROR LOCATION: every parser function only drops tokens from the front, and every
     error it returns names a token of the input (all tokens before it consumed) or — only when no
     token remains — the line the lexer had reached.
  3. LINE = TRUE LINE: with C12, the line `Display` prints is the true line (1 + preceding line
     feeds) of that token, resp. of the end of the last token / of the input.
  4. CATALOGUE of faults, for an arbitrary `rec` (the parser one level down): which error the
     statement parsers return, located at the current token of the state in which it is detected.
  (Helper lemmas: Rrss/Lemmas/Parser{Suffix,SuffixStmt,Catalogue,Line,Examples}.lean.)
-/
import Rrss.Lemmas.ParserSuffixStmt
import Rrss.Lemmas.ParserCatalogue
import Rrss.Lemmas.ParserLine
import Rrss.Lemmas.ParserExamples
import Rrss.Lemmas.ParserPrefix
namespace Rrss
namespace Thm
namespace C13
open Parser Lexer Spec
open Parser.Ex

set_option linter.unusedVariables false
set_option linter.unusedSectionVars false

variable {N : Type} {α : Type} [co : CharOps]

/-! ## 1. No truncation -/

/-- **C13 (1), token level.** At every recursion depth: if `Parser::parse` accepts (`.ok`), no
    token remains — the top-level loop returns only at the end of the token list. -/
theorem no_truncation_tokens (n : Nat) {st st' : PState N} {prog : Program N}
    (h : (parser n).program st = .ok (prog, st')) : st'.toks = [] :=
  (parser_allConsumed n).2 st prog st' h

/-- non-vacuity: `say 1⏎say 2` (five tokens) is accepted and nothing is left; `say 1 say 2` is not
    accepted (and not truncated to `say 1`): the second `say` (byte 6, line 1) is reported. -/
example : obs ((prs 7).program (state srcTwoLines toksTwoLines)) = .ok [] := by decide +kernel
example : obs ((prs 6).program (state srcSaySay toksSaySay)) =
    .err (str% "ExpectedToken") 1 (some 6) := by decide +kernel

/-- **C13 (1), source level.** If `parse(text)` returns a program, then the run of the token-level
    parser on all non-comment tokens of the text ended in a state without tokens. -/
theorem no_truncation [NumOps N] {kw : List (Str × TK)} {src : Str} {prog : Program N}
    (h : parseProgram kw src = .ok prog) :
    ∃ raw st', lexAll kw src = .ok raw ∧
      (parser ((skipComments raw).length + 2)).program (initState src raw) = .ok (prog, st') ∧
      st'.toks = [] := by
  obtain ⟨raw, st', h1, h2⟩ := runOn_ok h
  exact ⟨raw, st', h1, h2, no_truncation_tokens _ h2⟩

/-- non-vacuity: the text `say 1⏎(c)⏎say 2⏎` parses (to two blocks) -/
example : ∃ p : Program Int,
    @parseProgram Int asciiOps _ defaultKeywords (str% "say 1\n(c)\nsay 2\n") = .ok p ∧
      p.code.length = 2 :=
  @parseProgram_of_okViewF Int asciiOps _ defaultKeywords 100 _ _ (by decide +kernel)

/-! ## 2. Tokens are only dropped from the front; errors point into the input -/

/-- **C13 (2), the invariant.** Every field of `parser n` (every parser function, at every
    recursion depth) is `Sound`: each `.ok` result is a `Step` (a prefix of the tokens was dropped,
    `src`/`eof` unchanged, `last` is the snapshot after the last dropped token) and each `.err`
    result was built in a state reached by such a step from the state the function started in.
    `sound_ok`, `sound_err_trace` and `sound_err` below spell this out. -/
theorem parser_sound (n : Nat) : RecSound (parser n : Rec N) := parser_recSound n

/-- **C13 (2), suffix.** A sound parser function only drops a prefix `pre` of the tokens and
    leaves `src`, `eof` alone; afterwards `last` is the lexer snapshot after the last dropped
    token (unchanged if nothing was dropped; `eof` if the exhausted lexer was pulled again). -/
theorem sound_ok {p : P N α} (hp : Sound p) {st st' : PState N} {a : α}
    (h : p st = .ok (a, st')) :
    (∃ pre, st.toks = pre ++ st'.toks ∧
      (st'.last = st.eof ∨ (pre = [] ∧ st'.last = st.last) ∨
        ∃ t, pre.getLast? = some t ∧ st'.last = t.after)) ∧
    st'.src = st.src ∧ st'.eof = st.eof :=
  ⟨(hp.ok st a st' h).toks, (hp.ok st a st' h).src, (hp.ok st a st' h).eof⟩

/-- **C13 (2), where errors are built.** An error returned by a sound parser function started in
    `st` was built in a state `st''` reached from `st` by consuming a prefix `pre` of the tokens,
    and its location is what `new_parse_error` computes in `st''` — the current (first unconsumed)
    token of `st''`, or the current line `st''.last.line` if `st''` has no token — or else it names
    the last token consumed before `st''` (in the parser only the follower of a poetic-literal
    hyphen is reported this way). -/
theorem sound_err_trace {p : P N α} (hp : Sound p) {st : PState N} {e : ParseErr N}
    (h : p st = .err e) :
    ∃ st'' pre, st.toks = pre ++ st''.toks ∧
      (st''.last = st.eof ∨ (pre = [] ∧ st''.last = st.last) ∨
        ∃ t, pre.getLast? = some t ∧ st''.last = t.after) ∧
      (e.loc = errLocOf st'' ∨ ∃ pre' t, pre = pre' ++ [t] ∧ e.loc = .token t) := by
  obtain ⟨st'', ⟨⟨pre, h1, h2⟩, _, _⟩, h3⟩ := hp.err st e h
  refine ⟨st'', pre, h1, h2, ?_⟩
  rcases h3 with h3 | ⟨pre', t, h3, h4⟩
  · exact Or.inl h3
  · refine Or.inr ⟨pre', t, ?_, h4⟩
    have : pre ++ st''.toks = (pre' ++ [t]) ++ st''.toks := by
      rw [← h1, h3, List.append_assoc]; rfl
    exact List.append_cancel_right this

/-- **C13 (2), a line is reported exactly when no token remains.** If the error carries a line
    instead of a token, it was built in a state without tokens, reached by consuming all of
    `st.toks`, and the line is the current line of that state. (Conversely `new_parse_error` in a
    state with a current token names that token: `errLocOf`.) -/
theorem sound_err_line {p : P N α} (hp : Sound p) {st : PState N} {e : ParseErr N} {ln : Nat}
    (h : p st = .err e) (hl : e.loc = .line ln) :
    ∃ st'', Step st st'' ∧ st''.toks = [] ∧ ln = st''.last.line := by
  obtain ⟨st'', h1, h3⟩ := hp.err st e h
  refine ⟨st'', h1, ?_⟩
  rcases h3 with h3 | ⟨pre', t, _, h4⟩
  · rw [hl] at h3
    unfold errLocOf at h3
    split at h3
    · cases h3
    · next hs => cases h3; exact ⟨hs, rfl⟩
  · rw [hl] at h4; cases h4

/-- **C13 (2), error location.** Consequently the error either names a token `t` of `st.toks`
    (everything before it, `pre`, having been consumed), or carries a line — that of the lexer
    after the last token of `st.toks`, or of the exhausted lexer, or (if `st` had no token) the
    line `st` started with. -/
theorem sound_err {p : P N α} (hp : Sound p) {st : PState N} {e : ParseErr N}
    (h : p st = .err e) :
    (∃ pre t post, st.toks = pre ++ t :: post ∧ e.loc = .token t) ∨
    (∃ ln, e.loc = .line ln ∧
      (ln = st.eof.line ∨ (st.toks = [] ∧ ln = st.last.line) ∨
        ∃ t, st.toks.getLast? = some t ∧ ln = t.after.line)) :=
  hp.err_ok h

/-- **C13 (2), invariant form.** The same relative to any earlier state `st0` from which `st` was
    reached by consuming tokens (`Step st0 st`): the error names a token of `st0.toks` or a line as
    above computed from `st0`. -/
theorem sound_err_from {p : P N α} (hp : Sound p) {st0 st : PState N} {e : ParseErr N}
    (hreach : Step st0 st) (h : p st = .err e) : ErrOk st0.toks st0.last st0.eof e :=
  ErrOk.of_step hreach (hp.err_ok h)

/-- non-vacuity of the five statements above: the hypothesis `Sound p` holds of every parser
    function, e.g. of `Parser::parse` and `parse_block` at depth 7; `Step` is reflexive … -/
example : Sound (prs 7).program ∧ Sound (prs 7).block ∧
    Step (state srcSaySay toksSaySay) (state srcSaySay toksSaySay) :=
  ⟨(parser_sound (co := asciiOps) 7).program, (parser_sound (co := asciiOps) 7).block, Step.refl _⟩

/-- … and there are runs with each kind of result: tokens left after a statement (`say 1 say 2`:
    `parse_statement` leaves the tokens at bytes 6 and 10), an error naming the current token, an
    error naming the consumed hyphen-follower (`x is a-⏎`: the line break at byte 7), an error at
    the line of the exhausted lexer (`x is a-` followed by a comment ending on line 3). -/
example : obs (@parseStatement Int asciiOps (prs 5) (state srcSaySay toksSaySay)) = .ok [6, 10] ∧
    obs ((prs 6).program (state srcSaySay toksSaySay)) = .err (str% "ExpectedToken") 1 (some 6) ∧
    obs ((prs 7).program (state srcHyphenNl toksHyphenNl 2)) =
      .err (str% "UnexpectedToken") 1 (some 7) ∧
    obs ((prs 7).program (state srcHyphen toksHyphenEnd 3)) =
      .err (str% "PoeticLiteralEndingWithHyphen") 3 none := by decide +kernel

/-- **C13 (2) for `Parser::parse`.** The two halves for the entry point, at every depth: an
    accepted run consumed all tokens; a rejected one reports a token of the input or the line
    reached after all of them. -/
theorem program_sound (n : Nat) {st : PState N} :
    (∀ prog st', (parser n).program st = .ok (prog, st') →
      st'.toks = [] ∧ st'.src = st.src ∧ st'.eof = st.eof) ∧
    (∀ e, (parser n).program st = .err e →
      (∃ pre t post, st.toks = pre ++ t :: post ∧ e.loc = .token t) ∨
      (∃ ln, e.loc = .line ln ∧
        (ln = st.eof.line ∨ (st.toks = [] ∧ ln = st.last.line) ∨
          ∃ t, st.toks.getLast? = some t ∧ ln = t.after.line))) :=
  ⟨fun prog st' h => ⟨no_truncation_tokens n h, ((parser_sound n).program.ok _ _ _ h).src,
      ((parser_sound n).program.ok _ _ _ h).eof⟩,
   fun e h => sound_err (parser_sound n).program h⟩

/-! ## 3. The reported line is the true line -/

/-- **C13 (3), what `to_string()` shows.** The rendered message starts with
    `Parse error (line n): ` where `n` is `e.line`: the start line of the token the error names,
    or the line it carries. -/
theorem rendered_line {e : ParseErr N} {s : Str} (h : renderParseError e = .ok s) :
    ∃ msg, s = str% "Parse error (line " ++ natStr e.line ++ str% "): " ++ msg := by
  unfold renderParseError at h
  cases hc : renderCode e.loc e.code with
  | ok msg => rw [hc] at h; simp only [Outcome.bind] at h; cases h; exact ⟨msg, rfl⟩
  | _ => rw [hc] at h; simp [Outcome.bind] at h

example : renderParseError (⟨.expectedToken .newline, .token say6⟩ : ParseErr Int) =
    .ok (str% "Parse error (line 1): Expected `newline`, found `say`") := rfl

/-- **C13 (3), any entry point.** Let `entry` be a parser entry point that is sound at every depth
    (e.g. `Parser::parse`, `parse_expression`), run on the text `src` (shorter than 4 GiB; a line
    feed is white space). If it returns an error `e`, then either `e` names a non-comment token
    `t` of the text, all tokens before `t` having been consumed, and the line reported is the true
    line of `t`'s first byte (1 + the number of line feeds before it); or `e` carries a line, no
    token remained, and that line is the true line of the end of the text, or — the lexer not yet
    exhausted — of the position `t.after.idx` the lexer had reached after the last non-comment
    token `t` (at or after the end of `t`), or 1 if the text has no token at all. -/
theorem runOn_error_line_true [NumOps N] {entry : Rec N → P N α}
    (hentry : ∀ n, Sound (entry (parser n))) {kw : List (Str × TK)} {src : Str} {e : ParseErr N}
    (hlen : ulen src < 2 ^ 32) (hnl : CharOps.isWhitespace '\n' = true)
    (h : runOn entry kw src = .err e) :
    ∃ raw, lexAll kw src = .ok raw ∧
      ((∃ pre t post, skipComments raw = pre ++ t :: post ∧ e.loc = .token t ∧
          e.line = (trueLoc src t.start).line) ∨
       (∃ ln, e.loc = .line ln ∧ e.line = ln ∧
         (ln = (trueLoc src (ulen src)).line ∨
          (skipComments raw = [] ∧ ln = 1) ∨
          ∃ t, (skipComments raw).getLast? = some t ∧ t.start + ulen t.spelling ≤ t.after.idx ∧
            t.after.idx ≤ ulen src ∧ ln = (trueLoc src t.after.idx).line))) := by
  obtain ⟨raw, h1, h2⟩ := runOn_err h
  exact ⟨raw, h1, errOk_line_true hlen hnl h1 ((hentry _).err_ok h2)⟩

/-- **C13 (3) for `parse(text)`.** A parse error of a program names a non-comment token of the
    text and reports the true line of that token's first byte; or it carries a line, every token
    had been consumed, and the line is the true line of the end of the text or of the position
    the lexer had reached after the last non-comment token. -/
theorem parseProgram_error_line_true [NumOps N] {kw : List (Str × TK)} {src : Str}
    {e : ParseErr N} (hlen : ulen src < 2 ^ 32) (hnl : CharOps.isWhitespace '\n' = true)
    (h : parseProgram kw src = .err e) :
    ∃ raw, lexAll kw src = .ok raw ∧
      ((∃ pre t post, skipComments raw = pre ++ t :: post ∧ e.loc = .token t ∧
          e.line = (trueLoc src t.start).line) ∨
       (∃ ln, e.loc = .line ln ∧ e.line = ln ∧
         (ln = (trueLoc src (ulen src)).line ∨
          ∃ t, (skipComments raw).getLast? = some t ∧ t.start + ulen t.spelling ≤ t.after.idx ∧
            t.after.idx ≤ ulen src ∧ ln = (trueLoc src t.after.idx).line))) := by
  obtain ⟨raw, h1, h2⟩ := runOn_err h
  refine ⟨raw, h1, ?_⟩
  rcases errOk_line_true hlen hnl h1 ((parser_sound _).program.err_ok h2) with h3 | ⟨ln, h3, h4, h5⟩
  · exact Or.inl h3
  · refine Or.inr ⟨ln, h3, h4, ?_⟩
    rcases h5 with h5 | ⟨h5, _⟩ | h5
    · exact Or.inl h5
    · obtain ⟨a, ha⟩ := program_nil (N := N) ((skipComments raw).length + 1)
        (st := initState src raw) h5
      rw [ha] at h2; cases h2
    · exact Or.inr h5

/-- non-vacuity, all hypotheses at once: the text below (a statement, a three-line comment, then
    two statements on line 5) is short, a line feed is ASCII white space, and `parse` rejects it
    with `ExpectedToken`, reporting line 5 and naming the token at byte 20 (the second `say` of
    line 5) — evaluated by the kernel through the fuel copy of the lexer loop. -/
example : ulen (str% "say 1\n(a\nb\nc)\nsay 2 say 3\n") < 2 ^ 32 ∧
    @CharOps.isWhitespace asciiOps '\n' = true ∧
    ∃ e : ParseErr Int,
      @parseProgram Int asciiOps _ defaultKeywords (str% "say 1\n(a\nb\nc)\nsay 2 say 3\n") = .err e ∧
      (e.codeName, e.line, e.tokStart) = (str% "ExpectedToken", 5, some 20) :=
  ⟨by decide, by decide,
   @parseProgram_of_errViewF Int asciiOps _ defaultKeywords 100 _ _ (by decide +kernel)⟩

/-- a line-located instance: `say` at the end of line 2 of a text without final line break -/
example : ∃ e : ParseErr Int,
    @parseProgram Int asciiOps _ defaultKeywords (str% "say 1\nsay") = .err e ∧
    (e.codeName, e.line, e.tokStart) = (str% "ExpectedPrimaryExpression", 2, none) :=
  @parseProgram_of_errViewF Int asciiOps _ defaultKeywords 100 _ _ (by decide +kernel)

/-- **C13 (3) for `parse_expression` on a text.** -/
theorem parseExpressionSrc_error_line_true [NumOps N] {kw : List (Str × TK)} {src : Str}
    {e : ParseErr N} (hlen : ulen src < 2 ^ 32) (hnl : CharOps.isWhitespace '\n' = true)
    (h : parseExpressionSrc kw src = .err e) :
    ∃ raw, lexAll kw src = .ok raw ∧
      ((∃ pre t post, skipComments raw = pre ++ t :: post ∧ e.loc = .token t ∧
          e.line = (trueLoc src t.start).line) ∨
       (∃ ln, e.loc = .line ln ∧ e.line = ln ∧
         (ln = (trueLoc src (ulen src)).line ∨
          (skipComments raw = [] ∧ ln = 1) ∨
          ∃ t, (skipComments raw).getLast? = some t ∧ t.start + ulen t.spelling ≤ t.after.idx ∧
            t.after.idx ≤ ulen src ∧ ln = (trueLoc src t.after.idx).line))) :=
  runOn_error_line_true (entry := fun r => r.expression) (fun n => (parser_sound n).expression)
    hlen hnl h

/-- non-vacuity: the hypotheses are those of `parseProgram_error_line_true` (instance above); the
    entry point is sound at every depth -/
example (n : Nat) : Sound (prs n).expression := (parser_sound (co := asciiOps) n).expression

/-- **C13 (3), token-located errors of the catalogue.** For any error code, an error naming a
    non-comment token `t` of the text reports the true line of `t`'s first byte. -/
theorem token_error_line_true [NumOps N] {kw : List (Str × TK)} {src : Str} {raw : List (Tok N)}
    (hlen : ulen src < 2 ^ 32) (hnl : CharOps.isWhitespace '\n' = true)
    (hlex : lexAll kw src = .ok raw) (c : PCode N) (t : Tok N) (ht : t ∈ skipComments raw) :
    (⟨c, .token t⟩ : ParseErr N).line = (trueLoc src t.start).line := by
  show t.range.start.line = _
  rw [c12_start_pos hlen hnl hlex t (List.mem_filter.mp ht).1]

/-- non-vacuity: the example text of C12 lexes (kernel evaluation), so the hypotheses are met by
    each of its nine tokens -/
example : ∃ raw : List (Tok Int),
    @lexAll Int asciiOps _ defaultKeywords exSrc = .ok raw ∧ raw.map view = exViews :=
  exSrc_lexes

/-! ## 4. Catalogue of syntax faults

  In all statements `rec` is arbitrary (the parser one recursion level down), `st` is the state in
  which the function is called, and `errLocOf st'` is the location `new_parse_error` computes in
  state `st'`: its current token `.token t` if `st'.toks = t :: _`, else `.line st'.last.line`.
  "The current token of `st` has none of the kinds `ks`" is written
  `∀ t, st.toks.head? = some t → t.kind ∉ ks` (true at the end of input). -/

/-! ### (a) a second statement on the same line -/

/-- **(a)** `expect_eol` in a state whose current token `t` is neither `,`/`.` nor a line break:
    `ExpectedToken(Newline)` at `t`. -/
theorem expectEol_second_statement {st : PState N} {t : Tok N} {ts : List (Tok N)}
    (hs : st.toks = t :: ts) (h : t.kind ∉ [.comma, .dot, .newline]) :
    expectEol st = .err ⟨.expectedToken .newline, .token t⟩ :=
  expectEol_err hs h

example : expectEol (state srcSaySay [say6, two10]) = .err ⟨.expectedToken .newline, .token say6⟩ :=
  expectEol_second_statement rfl (by decide)

/-- **(a)** the same after a `,`/`.` separator `s`: the token `t` after it must be a line break. -/
theorem expectEol_after_separator {st : PState N} {s t : Tok N} {ts : List (Tok N)}
    (hs : st.toks = s :: t :: ts) (h : s.kind ∈ [.comma, .dot]) (ht : t.kind ≠ .newline) :
    expectEol st = .err ⟨.expectedToken .newline, .token t⟩ :=
  expectEol_err_after_sep hs h ht

example : expectEol (state srcSaySay [tok .comma (str% ",") 5, say6, two10]) =
    .err ⟨.expectedToken .newline, .token say6⟩ :=
  expectEol_after_separator rfl (by decide) (by decide)

/-- **(a)** in the statement loop of a block: after a complete statement `s` (parsed from `st`,
    leaving `st1`), a current token `t` of `st1` that is neither `,`/`.` nor a line break is
    rejected with `ExpectedToken(Newline)` at `t` — also at block level and at top level (where the
    block starts in a state whose `current_loc` can be read). -/
theorem second_statement_same_line (rec : Rec N) {st st1 : PState N} {s : Stmt N} {t : Tok N}
    {ts : List (Tok N)} (hp : parseStatement rec st = .ok (some s, st1)) (hs : st1.toks = t :: ts)
    (hk : t.kind ∉ [.comma, .dot, .newline]) :
    stmtLoopBody rec st = .err ⟨.expectedToken .newline, .token t⟩ ∧
    (isFunctionTerminator s = false →
      fnStmtLoopBody rec st = .err ⟨.expectedToken .newline, .token t⟩) ∧
    (st.last.idx ≤ ulen st.src ∧ st.last.lineStart ≤ st.last.idx →
      parseBlock rec st = .err ⟨.expectedToken .newline, .token t⟩ ∧
      topLoopBody rec st = .err ⟨.expectedToken .newline, .token t⟩) :=
  ⟨stmtLoopBody_second_statement rec hp hs hk,
   fun hterm => fnStmtLoopBody_second_statement rec hp hterm hs hk,
   fun hloc => ⟨parseBlock_second_statement rec hloc hp hs hk,
     topLoopBody_second_statement rec hloc hp hs hk⟩⟩

/-- non-vacuity: `say 1 say 2` — `parse_statement` parses `say 1` and leaves `say 2` -/
example : @topLoopBody Int asciiOps (prs 5) (state srcSaySay toksSaySay) =
    .err ⟨.expectedToken .newline, .token say6⟩ :=
  ((second_statement_same_line (co := asciiOps) (prs 5) (st := state srcSaySay toksSaySay)
    (s := .output (.prim (.lit (.num 1) one4.range))) (ts := [two10]) rfl rfl (by decide)).2.2
    (by decide)).2

/-! ### (b) a token that cannot start a statement -/

/-- **(b)** Where a statement must start, a current token `t` whose kind is none of the
    statement keywords, `Word`, `CommonVariablePrefix`, `Pronoun` (nor `Else`/`Newline`, which end
    the block) — a literal, an operator, `up`, `than`, `into`, an error token (invalid identifier,
    `_`, unterminated string or comment, invalid character), … — is rejected with
    `UnexpectedToken` at `t`: by `parse_statement`, by the statement loop, and (from a state whose
    `current_loc` can be read) by `parse_block` and the top-level loop. -/
theorem unexpected_statement_start (rec : Rec N) {st : PState N} {t : Tok N} {ts : List (Tok N)}
    (hs : st.toks = t :: ts)
    (h : t.kind ∉ [.else_, .newline, .put, .let_, .word, .commonPrefix, .pronoun, .if_, .while_,
      .until_, .build, .knock, .say, .sayAlias, .listen, .cut, .join, .cast, .turn, .break_,
      .continue_, .take, .rock, .roll, .return_]) :
    parseStatement rec st = .err ⟨.unexpectedToken, .token t⟩ ∧
    stmtLoopBody rec st = .err ⟨.unexpectedToken, .token t⟩ ∧
    (st.last.idx ≤ ulen st.src ∧ st.last.lineStart ≤ st.last.idx →
      parseBlock rec st = .err ⟨.unexpectedToken, .token t⟩ ∧
      topLoopBody rec st = .err ⟨.unexpectedToken, .token t⟩) :=
  ⟨parseStatement_unexpected rec hs h, stmtLoopBody_unexpected rec hs h,
   fun hloc => ⟨parseBlock_unexpected rec hloc hs h, topLoopBody_unexpected rec hloc hs h⟩⟩

/-- non-vacuity: an error token (`foo1`), a number, and `than` where a statement must start -/
example : @topLoopBody Int asciiOps (prs 3) (state (str% "foo1") [err0]) =
      .err ⟨.unexpectedToken, .token err0⟩ ∧
    @parseStatement Int asciiOps (prs 3) (state (str% "1") [one4]) =
      .err ⟨.unexpectedToken, .token one4⟩ ∧
    @parseStatement Int asciiOps fuelRec (state (str% "than") [tok .than (str% "than") 0]) =
      .err ⟨.unexpectedToken, .token (tok .than (str% "than") 0)⟩ :=
  ⟨((unexpected_statement_start (co := asciiOps) _ rfl (by decide)).2.2 (by decide)).2,
   (unexpected_statement_start (co := asciiOps) _ rfl (by decide)).1,
   (unexpected_statement_start (co := asciiOps) _ rfl (by decide)).1⟩

/-! ### (c) a required keyword is missing -/

/-- **(c)** `expect_token(k)` in a state whose current token is not a `k`:
    `ExpectedToken(k)` located at that token — or, at the end of input, at the current line. -/
theorem expectToken_missing {k : TK} {st : PState N}
    (h : ∀ t, st.toks.head? = some t → t.kind ∉ [k]) :
    expectToken k st = .err ⟨.expectedToken k, errLocOf st⟩ :=
  expectToken_err h

/-- … spelled out: with a current token `t`, and at the end of input -/
theorem expectToken_missing_cases {k : TK} {st : PState N} :
    (∀ t ts, st.toks = t :: ts → t.kind ≠ k →
      expectToken k st = .err ⟨.expectedToken k, .token t⟩) ∧
    (st.toks = [] → expectToken k st = .err ⟨.expectedToken k, .line st.last.line⟩) := by
  constructor
  · intro t ts hs hk
    rw [expectToken_err (CurNotIn.cons hs (by simpa using hk))]
    simp [errLocOf, hs]
  · intro hs
    rw [expectToken_err (CurNotIn.nil hs)]
    simp [errLocOf, hs]

example : expectToken .into (state srcPut [x6]) = .err ⟨.expectedToken .into, .token x6⟩ ∧
    expectToken .into (state srcPut []) = .err ⟨.expectedToken .into, .line 1⟩ :=
  ⟨expectToken_missing_cases.1 _ _ rfl (by decide), expectToken_missing_cases.2 rfl⟩

/-- **(c) `into`.** `put <expression>` where, after the expression (parsed from the state after
    `put`, leaving `st2`), the current token is not `into`: `ExpectedToken(Into)` at that token
    (or at the current line at the end of input). -/
theorem put_missing_into (rec : Rec N) {st st2 : PState N} {p : Tok N} {ts : List (Tok N)}
    {v : Expr N} (hs : st.toks = p :: ts) (hp : p.kind = .put)
    (he : parseExpression rec { st with toks := ts, last := p.after } = .ok (v, st2))
    (h : ∀ t, st2.toks.head? = some t → t.kind ∉ [.into]) :
    parseStatement rec st = .err ⟨.expectedToken .into, errLocOf st2⟩ :=
  parseStatement_put_missing_into rec hs hp he h

/-- non-vacuity: `put 1 x` -/
example : @parseStatement Int asciiOps (prs 6) (state srcPut toksPut) =
    .err ⟨.expectedToken .into, .token x6⟩ :=
  put_missing_into (co := asciiOps) (prs 6) (st := state srcPut toksPut)
    (v := .prim (.lit (.num 1) one4.range)) (st2 := { state srcPut [x6] with last := one4.after })
    rfl rfl rfl (by decide)

/-- **(c) `be`.** `let <target>` not followed by `be`. -/
theorem let_missing_be (rec : Rec N) {st st2 : PState N} {l : Tok N} {ts : List (Tok N)}
    {d : Lhs N} (hs : st.toks = l :: ts) (hl : l.kind = .let_)
    (he : parseAssignmentLhs rec { st with toks := ts, last := l.after } = .ok (d, st2))
    (h : ∀ t, st2.toks.head? = some t → t.kind ∉ [.be]) :
    parseStatement rec st = .err ⟨.expectedToken .be, errLocOf st2⟩ :=
  parseStatement_let_missing_be rec hs hl he h

/-- non-vacuity: `let x 1` -/
example : @parseStatement Int asciiOps (prs 6) (state srcLet toksLet) =
    .err ⟨.expectedToken .be, .token one6⟩ :=
  let_missing_be (co := asciiOps) (prs 6) (st := state srcLet toksLet)
    (d := .ident (.var (.simple (str% "x"))) x4.range)
    (st2 := { state srcLet [one6] with last := x4.after }) rfl rfl rfl (by decide)

/-- **(c) `up` / `down`.** `build <identifier>` not followed by `up`, `knock <identifier>` not
    followed by `down`. -/
theorem build_knock_missing_suffix (rec : Rec N) {st st2 : PState N} {b : Tok N}
    {ts : List (Tok N)} {d : Ident × Range} (hs : st.toks = b :: ts)
    (he : expectIdentifier rec { st with toks := ts, last := b.after } = .ok (d, st2)) :
    (b.kind = .build → (∀ t, st2.toks.head? = some t → t.kind ∉ [.up]) →
      parseStatement rec st = .err ⟨.expectedToken .up, errLocOf st2⟩) ∧
    (b.kind = .knock → (∀ t, st2.toks.head? = some t → t.kind ∉ [.down]) →
      parseStatement rec st = .err ⟨.expectedToken .down, errLocOf st2⟩) :=
  ⟨fun hb h => parseStatement_build_missing_up rec hs hb he h,
   fun hb h => parseStatement_knock_missing_down rec hs hb he h⟩

/-- non-vacuity: `build x⏎` and `knock x` at the end of input -/
example : @parseStatement Int asciiOps (prs 6) (state srcBuild toksBuild) =
      .err ⟨.expectedToken .up, .token nl7'⟩ ∧
    @parseStatement Int asciiOps (prs 6) (state srcKnock toksKnock) =
      .err ⟨.expectedToken .down, .line 1⟩ :=
  ⟨(build_knock_missing_suffix (co := asciiOps) (prs 6) (st := state srcBuild toksBuild)
      (d := (.var (.simple (str% "x")), x6.range))
      (st2 := { state srcBuild [nl7'] with last := x6.after }) rfl rfl).1 rfl (by decide),
   (build_knock_missing_suffix (co := asciiOps) (prs 6) (st := state srcKnock toksKnock)
      (d := (.var (.simple (str% "x")), x6.range))
      (st2 := { state srcKnock [] with last := x6.after }) rfl rfl).2 rfl (by decide)⟩

/-- **(c) `to`, `top`.** `take it` not followed by `to`; `take it to the` not followed by `top`
    (`it`, `the` are matched by their lower-cased spelling). -/
theorem take_missing_to_top (rec : Rec N) {st : PState N} {tk it : Tok N}
    (hk : tk.kind = .take) (hit : isIspelled (str% "it") it = true) :
    (∀ ts, st.toks = tk :: it :: ts →
      (∀ t, ts.head? = some t → t.kind ∉ [.to]) →
      parseStatement rec st =
        .err ⟨.expectedToken .to, errLocOf { st with toks := ts, last := it.after }⟩) ∧
    (∀ to the ts, st.toks = tk :: it :: to :: the :: ts → to.kind = .to →
      isIspelled (str% "the") the = true → (∀ t, ts.head? = some t → t.kind ∉ [.top]) →
      parseStatement rec st =
        .err ⟨.expectedToken .top, errLocOf { st with toks := ts, last := the.after }⟩) :=
  ⟨fun ts hs h => parseStatement_take_missing_to rec hs hk hit h,
   fun to the ts hs hto hthe h => parseStatement_take_missing_top rec hs hk hit hto hthe h⟩

/-- non-vacuity: `take it to the⏎` and `take it⏎` -/
example : @parseStatement Int asciiOps fuelRec (state srcTake toksTake) =
      .err ⟨.expectedToken .top, .token nl14⟩ ∧
    @parseStatement Int asciiOps fuelRec (state srcTakeIt toksTakeIt) =
      .err ⟨.expectedToken .to, .token nl7'⟩ :=
  ⟨(take_missing_to_top (co := asciiOps) fuelRec (st := state srcTake toksTake) (tk := take0)
      (it := it5) rfl (by decide)).2 to8 the11 [nl14] rfl rfl (by decide) (by decide),
   (take_missing_to_top (co := asciiOps) fuelRec (st := state srcTakeIt toksTakeIt) (tk := take0)
      (it := it5) rfl (by decide)).1 [nl7'] rfl (by decide)⟩

/-- **(c) `down` after `break it`.** -/
theorem break_it_missing_down (rec : Rec N) {st : PState N} {b it : Tok N} {ts : List (Tok N)}
    (hs : st.toks = b :: it :: ts) (hk : b.kind = .break_)
    (hit : isIspelled (str% "it") it = true) (h : ∀ t, ts.head? = some t → t.kind ∉ [.down]) :
    parseStatement rec st =
      .err ⟨.expectedToken .down, errLocOf { st with toks := ts, last := it.after }⟩ :=
  parseStatement_break_missing_down rec hs hk hit h

example : @parseStatement Int asciiOps fuelRec (state srcBreakIt toksBreakIt) =
    .err ⟨.expectedToken .down, .token nl8⟩ :=
  break_it_missing_down (co := asciiOps) fuelRec (st := state srcBreakIt toksBreakIt) (b := break0)
    (it := it6) (ts := [nl8]) rfl rfl (by decide) (by decide)

/-- **(c) `than`, `as`.** In a comparison, right after `is`: `bigger`/`smaller` not followed by
    `than`; `as big`/`as small` not followed by `as`. -/
theorem comparison_missing_than_as (rec : Rec N) (lhs : Expr N) {st : PState N} :
    (∀ b ts, st.toks = b :: ts → (b.kind = .bigger ∨ b.kind = .smaller) →
      (∀ t, ts.head? = some t → t.kind ∉ [.than]) →
      parseFancyComparison rec lhs st =
        .err ⟨.expectedToken .than, errLocOf { st with toks := ts, last := b.after }⟩) ∧
    (∀ a b ts, st.toks = a :: b :: ts → a.kind = .as → (b.kind = .big ∨ b.kind = .small) →
      (∀ t, ts.head? = some t → t.kind ∉ [.as]) →
      parseFancyComparison rec lhs st =
        .err ⟨.expectedToken .as, errLocOf { st with toks := ts, last := b.after }⟩) :=
  ⟨fun b ts hs hb h => parseFancyComparison_missing_than rec lhs hs hb h,
   fun a b ts hs ha hb h => parseFancyComparison_missing_as rec lhs hs ha hb h⟩

/-- non-vacuity: `… is bigger 1` and `… is as big 1` -/
example : @parseFancyComparison Int asciiOps fuelRec default (state srcBigger toksBigger) =
      .err ⟨.expectedToken .than, .token one12⟩ ∧
    @parseFancyComparison Int asciiOps fuelRec default (state srcAsBig toksAsBig) =
      .err ⟨.expectedToken .as, .token one12⟩ :=
  ⟨(comparison_missing_than_as (co := asciiOps) fuelRec default
      (st := state srcBigger toksBigger)).1 bigger5 [one12] rfl (by decide) (by decide),
   (comparison_missing_than_as (co := asciiOps) fuelRec default
      (st := state srcAsBig toksAsBig)).2 as5 big8 [one12] rfl rfl (by decide) (by decide)⟩

/-! ### (d) a missing operand -/

/-- **(d)** Where a primary expression must start, a current token that cannot start one (a line
    break, a keyword, an operator, an error token; or no token): `ExpectedPrimaryExpression` at
    that token, or at the current line at the end of input — from
    `parse_non_subscript_primary_expression` and `parse_primary_expression`; and from
    `parse_expression` if the token is not a unary operator (`-`, `not`) either. -/
theorem operand_missing (rec : Rec N) {st : PState N}
    (h : ∀ t, st.toks.head? = some t → t.kind ∉ [.pronoun, .commonPrefix, .word, .mysterious,
      .null, .number, .stringLit, .empty, .true_, .false_, .roll]) :
    parseNonSubscriptPrimary rec st = .err ⟨.expectedPrimaryExpression, errLocOf st⟩ ∧
    parsePrimary rec st = .err ⟨.expectedPrimaryExpression, errLocOf st⟩ ∧
    ((∀ t, st.toks.head? = some t → t.kind ∉ [.minus, .not]) →
      parseExpression rec st = .err ⟨.expectedPrimaryExpression, errLocOf st⟩) := by
  refine ⟨parseNonSubscriptPrimary_err rec h, parsePrimary_err rec h, fun h2 => ?_⟩
  refine parseExpression_err rec (fun t ht hk => ?_)
  simp only [expressionStartKinds, List.mem_cons] at hk
  rcases hk with hk | hk | hk
  · exact h2 t ht (by simp [hk])
  · exact h2 t ht (by simp [hk])
  · exact h t ht hk

/-- non-vacuity: a line break, and the end of input -/
example : @parsePrimary Int asciiOps fuelRec (state srcSayNl [nl3]) =
      .err ⟨.expectedPrimaryExpression, .token nl3⟩ ∧
    @parseExpression Int asciiOps fuelRec (state srcSayNl []) =
      .err ⟨.expectedPrimaryExpression, .line 1⟩ :=
  ⟨(operand_missing (co := asciiOps) fuelRec (by decide)).2.1,
   (operand_missing (co := asciiOps) fuelRec (by decide)).2.2 (by decide)⟩

/-- **(d)** A statement keyword with its operand missing: after `say`/`shout`/…, `put`, `if`,
    `while`, `until`, a current token that cannot start an expression (e.g. the line break) is
    rejected with `ExpectedPrimaryExpression` at that token (at the current line at the end of
    input); after `build`, a token that cannot start an identifier with `ExpectedIdentifier`. -/
theorem statement_operand_missing (rec : Rec N) {st : PState N} {s : Tok N} {ts : List (Tok N)}
    (hs : st.toks = s :: ts) :
    ((s.kind = .say ∨ s.kind = .sayAlias ∨ s.kind = .put ∨ s.kind = .if_ ∨ s.kind = .while_ ∨
        s.kind = .until_) →
      (∀ t, ts.head? = some t → t.kind ∉ [.minus, .not, .pronoun, .commonPrefix, .word,
        .mysterious, .null, .number, .stringLit, .empty, .true_, .false_, .roll]) →
      parseStatement rec st = .err ⟨.expectedPrimaryExpression,
        errLocOf { st with toks := ts, last := s.after }⟩) ∧
    (s.kind = .build →
      (∀ t, ts.head? = some t → t.kind ∉ [.pronoun, .commonPrefix, .word]) →
      parseStatement rec st = .err ⟨.expectedIdentifier,
        errLocOf { st with toks := ts, last := s.after }⟩) := by
  refine ⟨fun hk h => ?_, fun hk h => parseStatement_build_missing_identifier rec hs hk h⟩
  rcases hk with hk | hk | hk | hk | hk | hk
  · exact parseStatement_say_missing_operand rec hs (Or.inl hk) h
  · exact parseStatement_say_missing_operand rec hs (Or.inr hk) h
  · exact parseStatement_put_missing_operand rec hs hk h
  · exact parseStatement_cond_missing_operand rec hs (Or.inl hk) h
  · exact parseStatement_cond_missing_operand rec hs (Or.inr (Or.inl hk)) h
  · exact parseStatement_cond_missing_operand rec hs (Or.inr (Or.inr hk)) h

/-- non-vacuity: `say⏎` names the line break; `say` at the end of input the line -/
example : @parseStatement Int asciiOps fuelRec (state srcSayNl toksSayNl) =
      .err ⟨.expectedPrimaryExpression, .token nl3⟩ ∧
    @parseStatement Int asciiOps fuelRec (state srcSayNl toksSayEnd) =
      .err ⟨.expectedPrimaryExpression, .line 1⟩ :=
  ⟨(statement_operand_missing (co := asciiOps) fuelRec (st := state srcSayNl toksSayNl) (s := say0)
      (ts := [nl3]) rfl).1 (by decide) (by decide),
   (statement_operand_missing (co := asciiOps) fuelRec (st := state srcSayNl toksSayEnd) (s := say0)
      (ts := []) rfl).1 (by decide) (by decide)⟩

/-! ### (e) a stray `else` -/

/-- **(e)** At top level (repaired code): an `else` where a block must start — or left over after
    a block — is rejected with `UnexpectedToken` at the `else` instead of looping forever. -/
theorem stray_else (rec : Rec N) {st : PState N} :
    (∀ e ts, st.toks = e :: ts → e.kind = .else_ →
      st.last.idx ≤ ulen st.src ∧ st.last.lineStart ≤ st.last.idx →
      topLoopBody rec st = .err ⟨.unexpectedToken, .token e⟩) ∧
    (∀ b st1 e ts, st.toks ≠ [] → parseBlock rec st = .ok (b, st1) → st1.toks = e :: ts →
      e.kind = .else_ → topLoopBody rec st = .err ⟨.unexpectedToken, .token e⟩) :=
  ⟨fun e ts hs he hloc => topLoopBody_stray_else rec hloc hs he,
   fun b st1 e ts hne hb hs he => topLoopBody_else_after_block rec hne hb hs he⟩

/-- non-vacuity: `else` as the whole program; and `say 1⏎else` (the block `say 1` leaves `else`) -/
example : @topLoopBody Int asciiOps fuelRec (state (str% "else") [else0]) =
      .err ⟨.unexpectedToken, .token else0⟩ ∧
    obs ((prs 7).program (state (str% "say 1\nelse")
      [say0, one4, nl5, tok .else_ (str% "else") 6 2])) =
      .err (str% "UnexpectedToken") 2 (some 6) :=
  ⟨(stray_else (co := asciiOps) fuelRec).1 _ _ rfl rfl (by decide), by decide +kernel⟩

/-! ### faults after an arbitrary prefix of complete blocks and statements -/

/-- **C13 (4), errors are fatal.** Let the top-level loop, started in `st`, parse a sequence of
    complete blocks (`TopPrefix`: each `parse_block` succeeds and is not followed by a stray
    `else`) and arrive in `st'` at a token that is not a line break; let the statement loop of the
    block starting there parse a sequence of complete statements, each with its end of line
    (`StmtPrefix`), and arrive in `st''`. Then an error `e` that `parse_statement` — or the
    statement loop (fault (a)) — returns in `st''` is the result of `Parser::parse` on `st`. The
    catalogue above supplies such errors for every `rec`, in particular `parser k`. (The depths
    `n+1 ≥ m+1 ≥ k+1` only count loop rounds.) -/
theorem fault_after_prefix {n m k : Nat} {st st' st'' : PState N} {e : ParseErr N}
    (htop : TopPrefix (n + 1) st (m + 1) st')
    (hloc : st'.last.idx ≤ ulen st'.src ∧ st'.last.lineStart ≤ st'.last.idx)
    (hcur : ∃ t ts, st'.toks = t :: ts ∧ t.kind ≠ .newline)
    (hstmts : StmtPrefix (m + 1) st' (k + 1) st'')
    (hfault : parseStatement (parser k) st'' = .err e ∨ stmtLoopBody (parser k) st'' = .err e) :
    (parser (n + 1)).program st = .err e := by
  have h1 : (parser (k + 1)).stmtLoop st'' = .err e := by
    rcases hfault with h | h
    · exact stmtLoop_of_parseStatement_err h
    · exact h
  obtain ⟨t, ts, hs, hk⟩ := hcur
  have h2 := topLoop_of_stmtLoop_err hloc (CurNotIn.cons hs (by simpa using hk)) (by simp [hs])
    (hstmts.err h1)
  exact program_of_topLoop_err (htop.err h2)

/-- non-vacuity: `say 1⏎⏎say 2⏎say 3 say 4` — two complete blocks (`say 1`, the blank line), one
    complete statement (`say 2⏎`), then two statements on line 4: the second `say` of line 4
    (byte 19) is reported, by the theorem and by direct evaluation. -/
example : (prs 6).program (state srcPrefix toksPrefix) =
    .err ⟨.expectedToken .newline, .token say19⟩ :=
  fault_after_prefix (co := asciiOps) (n := 5) (m := 3) (k := 2) (st' := stPrefix2)
    (st'' := stPrefix3)
    (topBlock (st := state srcPrefix toksPrefix) (st1 := stPrefix1) (by decide) rfl (by decide)
      (topBlock (st := stPrefix1) (st1 := stPrefix2) (by decide) rfl (by decide)
        (@TopPrefix.refl Int asciiOps _ _)))
    (by decide) ⟨say7, _, rfl, by decide⟩
    (stmtStep (st := stPrefix2)
      (st1 := { stPrefix2 with toks := toksPrefix.drop 6, last := two11.after }) (st2 := stPrefix3)
      rfl rfl (@StmtPrefix.refl Int asciiOps _ _))
    (Or.inr (second_statement_same_line (co := asciiOps) (prs 2) (st := stPrefix3)
      (st1 := { stPrefix3 with toks := [say19, four23], last := three17.after })
      (s := .output (.prim (.lit (.num 3) three17.range))) (ts := [four23])
      rfl rfl (by decide)).1)

example : obs ((prs 6).program (state srcPrefix toksPrefix)) =
    .err (str% "ExpectedToken") 4 (some 19) := by decide +kernel

/-- **C13 (4), errors are fatal, top level.** An error of a round of the top-level loop (faults
    (a), (b), (e) at the start of a block) after a sequence of complete blocks is the result of
    `Parser::parse`. -/
theorem top_fault_after_blocks {n m : Nat} {st st' : PState N} {e : ParseErr N}
    (htop : TopPrefix (n + 1) st (m + 1) st') (hfault : topLoopBody (parser m) st' = .err e) :
    (parser (n + 1)).program st = .err e :=
  program_of_topLoop_err (htop.err hfault)

/-- non-vacuity: `say 1⏎⏎else` — after the block `say 1⏎`, the round that parses the blank line
    finds the stray `else` (line 3) -/
example : (prs 4).program (state srcElse2 toksElse2) = .err ⟨.unexpectedToken, .token else7⟩ :=
  top_fault_after_blocks (co := asciiOps) (n := 3) (m := 2) (st' := stElse2)
    (topBlock (st := state srcElse2 toksElse2) (st1 := stElse2) (by decide) rfl (by decide)
      (@TopPrefix.refl Int asciiOps _ _))
    ((stray_else (co := asciiOps) (prs 2) (st := stElse2)).2 _ stElse3 else7 [] (by decide) rfl rfl
      rfl)

end C13
end Thm
end Rrss
