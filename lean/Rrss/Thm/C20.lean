/-
  Rrss.Thm.C20 — the command-line tool behaves exactly like the library on the same file.

  Model: `Cli.runSource` (`run_from_command_line` + `dump_output`), `Cli.main` (`rrss::run` /
  `cli::cli` / `load_and_run_from_command_line`), `Cli.renderLint`, `Cli.parseErrorOut`
  (Rrss/Cli.lean; mirrors src/cli/{mod,exec,linter,parser,error}.rs, src/lib.rs, src/main.rs).
  The library side is the model's own `Parser.parseProgram`, `Interp.execProgram`, `Lint.run`,
  `RtErr.render`, `Parser.renderParseError`.

  CLAIMED AS PARTIAL. The theorems below are statements about the composition in the model.
  Process creation, `clap`'s treatment of the argument vector (abstracted to `Cli.Usage`), the
  file system (a lookup that may fail), stdout buffering and flushing order between the two streams,
  colour codes of the `colored` crate, the `{:#?}` rendering of the tree (a parameter
  `debugFmt`), and the numeric exit status of the real binary are runtime behaviour: they are
  decided by running the built `rrss` binary in the correspondence check, not here.
-/
import Rrss.Cli
import Rrss.Thm.C09
import Rrss.Lemmas.LintDigits
namespace Rrss
namespace C20
open Cli

section
variable [CharOps] {N : Type} [NumOps N]

/-! ## (a) `exec` -/

/-- **`exec`, successful run.** If the file parses to `p` and the library interpreter, started in
    `Environment::new` on the given standard input, ends normally in environment `env'`, then the
    CLI's standard output is exactly `env'.out` — every byte the interpreter wrote, in order, and
    nothing else —, standard error is empty and the exit status is 0. -/
theorem C20_exec_ok (kw : List (Str × TK)) (debugFmt : Program N → Str) (fuel : Nat) (src stdin : Str)
    (steps cap : Nat) (p : Program N) (env' : Env N)
    (hp : Parser.parseProgram kw src = .ok p)
    (hx : Interp.execProgram fuel p { input := stdin, steps := steps, cap := cap } = (.ok (), env')) :
    runSource kw debugFmt fuel .exec src stdin steps cap =
      .ok { stdout := env'.out, stderr := [], exit := 0 } := by
  simp only [runSource, hp, hx]

/-- **`exec`, runtime error.** If the run ends in the runtime error `e` with environment `env'`,
    standard output is `env'.out` — everything produced BEFORE the error — and standard error is
    `Runtime error: ` followed by the library's rendering of `e` and a line end; exit status 0
    (`dump_output` only prints). -/
theorem C20_exec_runtime_error (kw : List (Str × TK)) (debugFmt : Program N → Str) (fuel : Nat)
    (src stdin : Str) (steps cap : Nat) (p : Program N) (e : RtErr N) (env' : Env N)
    (hp : Parser.parseProgram kw src = .ok p)
    (hx : Interp.execProgram fuel p { input := stdin, steps := steps, cap := cap } = (.err e, env')) :
    runSource kw debugFmt fuel .exec src stdin steps cap =
      .ok { stdout := env'.out, stderr := str% "Runtime error: " ++ e.render ++ ['\n'], exit := 0 } := by
  simp only [runSource, hp, hx]

/-- **Parse error, any subcommand.** If the file does not parse (error `e`, rendered by the
    library as `msg`), nothing is written to standard output — the program is not run, not
    linted, not printed — and standard error is `Parse error: ` followed by `msg` and a line end. -/
theorem C20_parse_error (kw : List (Str × TK)) (debugFmt : Program N → Str) (fuel : Nat) (cmd : Cmd)
    (src stdin : Str) (steps cap : Nat) (e : Parser.ParseErr N) (msg : Str)
    (hp : Parser.parseProgram kw src = .err e) (hm : Parser.renderParseError e = .ok msg) :
    runSource kw debugFmt fuel cmd src stdin steps cap =
      .ok { stdout := [], stderr := str% "Parse error: " ++ msg ++ ['\n'], exit := 0 } := by
  simp only [runSource, hp, parseErrorOut, hm]

/-- **A file that does not parse never prints on standard output**, whatever the subcommand and
    even if rendering the error panics. -/
theorem C20_parse_error_no_stdout (kw : List (Str × TK)) (debugFmt : Program N → Str) (fuel : Nat)
    (cmd : Cmd) (src stdin : Str) (steps cap : Nat) (e : Parser.ParseErr N)
    (hp : Parser.parseProgram kw src = .err e) :
    ∃ out, runSource kw debugFmt fuel cmd src stdin steps cap = .ok out ∧ out.stdout = [] := by
  simp only [runSource, hp, parseErrorOut]
  cases Parser.renderParseError e <;> exact ⟨_, rfl, rfl⟩

/-! ## (b) `lint` and `parse` -/

/-- **`lint`.** If the file parses to `p`, the library linter terminates normally with some list
    `ds` of diagnostics (it always does), and standard output is `renderLint ds`: the library's
    diagnostics, in the library's order, each as
    `Lint issue: (line N) issue` + one `⏎⇥suggestion` per suggestion + `⏎`; stderr empty. -/
theorem C20_lint (kw : List (Str × TK)) (debugFmt : Program N → Str) (fuel : Nat) (src stdin : Str)
    (steps cap : Nat) (p : Program N) (hp : Parser.parseProgram kw src = .ok p) :
    ∃ ds, Lint.run p = .ok ds ∧
      runSource kw debugFmt fuel .lint src stdin steps cap =
        .ok { stdout := Env.utf8 (renderLint ds), stderr := [], exit := 0 } := by
  refine ⟨_, LintDigits.run_ok p, ?_⟩
  simp only [runSource, hp, LintDigits.run_ok p]

omit [CharOps] in
/-- **The rendering of the diagnostics**: the friendly line if and only if there is none;
    otherwise the concatenation of the rendered diagnostics in order. -/
theorem C20_renderLint (ds : List Diag) :
    (renderLint ds = str% "No lint issues found :)" ↔ ds = []) ∧
    (ds ≠ [] → renderLint ds = ds.flatMap renderDiag) := by
  refine ⟨⟨fun h => ?_, fun h => by subst h; rfl⟩, fun h => ?_⟩
  · cases ds with
    | nil => rfl
    | cons d ds =>
      have hh := congrArg List.head? h
      simp [renderLint, renderDiag] at hh
  · cases ds with
    | nil => exact absurd rfl h
    | cons d ds => rfl

/-- **`parse`.** If the file parses to `p`, standard output is the debug rendering of `p`
    followed by a line end; stderr empty. -/
theorem C20_parse (kw : List (Str × TK)) (debugFmt : Program N → Str) (fuel : Nat) (src stdin : Str)
    (steps cap : Nat) (p : Program N) (hp : Parser.parseProgram kw src = .ok p) :
    runSource kw debugFmt fuel .parse src stdin steps cap =
      .ok { stdout := Env.utf8 (debugFmt p ++ ['\n']), stderr := [], exit := 0 } := by
  simp only [runSource, hp]

/-! ## (c) exit status -/

/-- **Bad usage** (no or unknown subcommand, missing or extra operand): exit status 1, nothing on
    standard output, the message on standard error. -/
theorem C20_bad_usage (kw : List (Str × TK)) (debugFmt : Program N → Str) (fuel : Nat) (msg : Str)
    (files : Str → Option Str) (stdin : Str) (steps cap : Nat) :
    main kw debugFmt fuel (.bad msg) files stdin steps cap =
      .ok { stdout := [], stderr := msg ++ ['\n'], exit := 1 } := rfl

/-- **Missing file**: exit status 1, nothing on standard output. -/
theorem C20_missing_file (kw : List (Str × TK)) (debugFmt : Program N → Str) (fuel : Nat) (cmd : Cmd)
    (path : Str) (files : Str → Option Str) (stdin : Str) (steps cap : Nat)
    (hf : files path = none) :
    main kw debugFmt fuel (.run cmd path) files stdin steps cap =
      .ok { stdout := [], stderr := str% "No such file or directory (os error 2)" ++ ['\n'],
            exit := 1 } := by
  simp only [main, hf]

/-- **An existing file is handed to `run_from_command_line` unchanged.** -/
theorem C20_existing_file (kw : List (Str × TK)) (debugFmt : Program N → Str) (fuel : Nat) (cmd : Cmd)
    (path src : Str) (files : Str → Option Str) (stdin : Str) (steps cap : Nat)
    (hf : files path = some src) :
    main kw debugFmt fuel (.run cmd path) files stdin steps cap =
      runSource kw debugFmt fuel cmd src stdin steps cap := by
  simp only [main, hf]

/-- **Every accepted invocation on an existing file exits 0** — success, parse error and runtime
    error alike — the only exception being a parse error whose `Display` panics (exit 101, the
    Rust panic status); that no error the parser produces has a panicking `Display` is part of
    property C01/C13, so it appears here as a disjunct. -/
theorem C20_exit_zero (kw : List (Str × TK)) (debugFmt : Program N → Str) (fuel : Nat) (cmd : Cmd)
    (path src : Str) (files : Str → Option Str) (stdin : Str) (steps cap : Nat) (out : Out)
    (hf : files path = some src)
    (h : main kw debugFmt fuel (.run cmd path) files stdin steps cap = .ok out) :
    out.exit = 0 ∨
      (out.exit = 101 ∧ ∃ e : Parser.ParseErr N, Parser.parseProgram kw src = .err e ∧
        ∀ msg, Parser.renderParseError e ≠ .ok msg) := by
  simp only [main, hf, runSource] at h
  split at h
  · next e he =>
    simp only [parseErrorOut] at h
    cases hr : Parser.renderParseError e with
    | ok msg => rw [hr] at h; cases h; exact .inl rfl
    | err _ => rw [hr] at h; cases h; exact .inr ⟨rfl, e, he, fun _ hm => by rw [hr] at hm; cases hm⟩
    | crash _ => rw [hr] at h; cases h; exact .inr ⟨rfl, e, he, fun _ hm => by rw [hr] at hm; cases hm⟩
    | fuel => rw [hr] at h; cases h; exact .inr ⟨rfl, e, he, fun _ hm => by rw [hr] at hm; cases hm⟩
    | resource => rw [hr] at h; cases h; exact .inr ⟨rfl, e, he, fun _ hm => by rw [hr] at hm; cases hm⟩
  · cases h
  · cases h
  · cases h
  · next prog hp =>
    cases cmd with
    | parse => cases h; exact .inl rfl
    | lint =>
      simp only [LintDigits.run_ok prog] at h
      cases h; exact .inl rfl
    | exec =>
      simp only [] at h
      split at h <;> first | (cases h; exact .inl rfl) | cases h

/-- **Exit status is non-zero exactly for bad usage and missing files** among the runs that print
    their errors properly: under the hypothesis that the parse error (if any) renders. -/
theorem C20_exit_status (kw : List (Str × TK)) (debugFmt : Program N → Str) (fuel : Nat)
    (usage : Usage) (files : Str → Option Str) (stdin : Str) (steps cap : Nat) (out : Out)
    (hrender : ∀ cmd path src (e : Parser.ParseErr N), usage = .run cmd path → files path = some src →
      Parser.parseProgram kw src = .err e → ∃ msg, Parser.renderParseError e = .ok msg)
    (h : main kw debugFmt fuel usage files stdin steps cap = .ok out) :
    (out.exit ≠ 0 ↔ ((∃ msg, usage = .bad msg) ∨ ∃ cmd path, usage = .run cmd path ∧ files path = none)) ∧
    (out.exit ≠ 0 → out.exit = 1 ∧ out.stdout = []) := by
  cases usage with
  | bad msg =>
    cases h
    exact ⟨⟨fun _ => .inl ⟨msg, rfl⟩, fun _ => by simp⟩, fun _ => ⟨rfl, rfl⟩⟩
  | run cmd path =>
    cases hf : files path with
    | none =>
      rw [C20_missing_file kw debugFmt fuel cmd path files stdin steps cap hf] at h
      cases h
      exact ⟨⟨fun _ => .inr ⟨cmd, path, rfl, hf⟩, fun _ => by simp⟩, fun _ => ⟨rfl, rfl⟩⟩
    | some src =>
      have h0 : out.exit = 0 := by
        rcases C20_exit_zero kw debugFmt fuel cmd path src files stdin steps cap out hf h with h0 | ⟨_, e, he, hno⟩
        · exact h0
        · obtain ⟨msg, hm⟩ := hrender cmd path src e rfl hf he
          exact absurd hm (hno msg)
      refine ⟨⟨fun hne => absurd h0 hne, fun hh => ?_⟩, fun hne => absurd h0 hne⟩
      rcases hh with ⟨msg, hm⟩ | ⟨cmd', path', hu, hn⟩
      · cases hm
      · cases hu; rw [hf] at hn; cases hn

/-! ## (d) no crash of its own -/

/-- **The CLI only crashes where the library's front end does**: whatever the subcommand, a crash
    of `run_from_command_line` at site `s` is a crash of the library's lexer/parser on that file
    at the same site. The interpreter never crashes (C09), the linter never crashes (C18), and the
    CLI has no crash site of its own. -/
theorem C20_crash_only_from_parser (kw : List (Str × TK)) (debugFmt : Program N → Str) (fuel : Nat)
    (cmd : Cmd) (src stdin : Str) (steps cap : Nat) (s : Site)
    (h : runSource kw debugFmt fuel cmd src stdin steps cap = .crash s) :
    Parser.parseProgram (N := N) kw src = .crash s := by
  simp only [runSource] at h
  split at h
  · cases h
  · next s' hs => cases h; exact hs
  · cases h
  · cases h
  · next prog hp =>
    cases cmd with
    | parse => cases h
    | lint => simp only [LintDigits.run_ok prog] at h; cases h
    | exec =>
      simp only [] at h
      split at h
      · cases h
      · cases h
      · next s' env' hx =>
        exact absurd (congrArg Prod.fst hx)
          (C09.execProgram_initial_never_crashes fuel prog stdin steps cap none none s')
      · cases h
      · cases h

/-- **`exec` never crashes once the program parses** (with C09: the interpreter never panics,
    for every program, every standard input, all budgets). -/
theorem C20_exec_never_crashes (kw : List (Str × TK)) (debugFmt : Program N → Str) (fuel : Nat)
    (src stdin : Str) (steps cap : Nat) (p : Program N) (hp : Parser.parseProgram kw src = .ok p)
    (s : Site) :
    runSource kw debugFmt fuel .exec src stdin steps cap ≠ .crash s := by
  intro h
  have := C20_crash_only_from_parser kw debugFmt fuel .exec src stdin steps cap s h
  rw [hp] at this
  cases this

/-- **`exec` is the library, case by case**: once the file parses to `p`, the CLI result is
    determined by the library run alone — output-so-far on stdout in both returning cases, the
    prefixed message on stderr in the error case — and the model's own budget outcomes
    (`fuel`, `resource`) are passed through. -/
theorem C20_exec_cases (kw : List (Str × TK)) (debugFmt : Program N → Str) (fuel : Nat)
    (src stdin : Str) (steps cap : Nat) (p : Program N) (hp : Parser.parseProgram kw src = .ok p) :
    let run := Interp.execProgram fuel p ({ input := stdin, steps := steps, cap := cap } : Env N)
    (run.1 = .ok () ∧ runSource kw debugFmt fuel .exec src stdin steps cap =
        .ok { stdout := run.2.out, stderr := [], exit := 0 }) ∨
    (∃ e, run.1 = .err e ∧ runSource kw debugFmt fuel .exec src stdin steps cap =
        .ok { stdout := run.2.out, stderr := str% "Runtime error: " ++ e.render ++ ['\n'], exit := 0 }) ∨
    (run.1 = .fuel ∧ runSource kw debugFmt fuel .exec src stdin steps cap = .fuel) ∨
    (run.1 = .resource ∧ runSource kw debugFmt fuel .exec src stdin steps cap = .resource) := by
  intro run
  have hcr := C09.execProgram_initial_never_crashes fuel p stdin steps cap none none
  rcases hrun : Interp.execProgram fuel p ({ input := stdin, steps := steps, cap := cap } : Env N)
    with ⟨o, env'⟩
  have hrun' : run = (o, env') := hrun
  cases o with
  | ok u => cases u; exact .inl ⟨by rw [hrun'], by simp only [runSource, hp, hrun, hrun']⟩
  | err e => exact .inr (.inl ⟨e, by rw [hrun'], by simp only [runSource, hp, hrun, hrun']⟩)
  | crash s => exact absurd (by rw [hrun]) (hcr s)
  | fuel => exact .inr (.inr (.inl ⟨by rw [hrun'], by simp only [runSource, hp, hrun]⟩))
  | resource => exact .inr (.inr (.inr ⟨by rw [hrun'], by simp only [runSource, hp, hrun]⟩))

end

/-! ## Non-vacuity: concrete runs (numbers = `Int`, ASCII classification, default keywords) -/
section Examples

/-- for the examples only -/
local instance exampleCharOps : CharOps where
  isAlphabetic c := (65 ≤ c.toNat && c.toNat ≤ 90) || (97 ≤ c.toNat && c.toNat ≤ 122)
  isNumeric c := 48 ≤ c.toNat && c.toNat ≤ 57
  isWhitespace c := c == ' ' || c == '\n' || c == '\t' || c == '\r'
  isUppercase c := 65 ≤ c.toNat && c.toNat ≤ 90
  isLowercase c := 97 ≤ c.toNat && c.toNat ≤ 122
  toLower c := [c.toLower]

private def dbg : Program Int → Str := fun _ => str% "<tree>"
private def files : Str → Option Str := fun p =>
  if p = str% "ok.rock" then some (str% "say 1\nsay 2") else
  if p = str% "rt.rock" then some (str% "say 1\nsay x") else
  if p = str% "bad.rock" then some (str% "say 1\nsay\n") else
  if p = str% "lint.rock" then some (str% "put 105 into X") else none

/-- (stdout, stderr, exit status) of a normal CLI result -/
private def view (o : Outcome Unit Out) : Option (List UInt8 × Str × Nat) :=
  match o with
  | .ok out => some (out.stdout, out.stderr, out.exit)
  | _ => none

private def run (u : Usage) : Option (List UInt8 × Str × Nat) :=
  view (main Lexer.defaultKeywords dbg 100 u files [] 1000 1000)

/-- `exec` of `say 1⏎say 2`: the two lines, nothing on stderr, exit 0 -/
example : run (.run .exec (str% "ok.rock")) = some (Env.utf8 (str% "1\n2\n"), [], 0) := by
  decide +kernel
/-- `exec` of `say 1⏎say x`: the output produced before the error, then the prefixed message -/
example : run (.run .exec (str% "rt.rock")) =
    some (Env.utf8 (str% "1\n"), str% "Runtime error: the name 'x' could not be found\n", 0) := by
  decide +kernel
/-- a file that does not parse: nothing on stdout (the first `say 1` is NOT executed), for every
    subcommand -/
example : run (.run .exec (str% "bad.rock")) =
    some ([], str% "Parse error: Parse error (line 2): Expected primary expression, found `\n`\n", 0) := by
  decide +kernel
example : run (.run .lint (str% "bad.rock")) =
    some ([], str% "Parse error: Parse error (line 2): Expected primary expression, found `\n`\n", 0) := by
  decide +kernel
/-- `lint`: one diagnostic with its suggestion / none -/
example : run (.run .lint (str% "lint.rock")) =
    some (Env.utf8 (str% "Lint issue: (line 1) Assignment of literal value `105` into `X` isn't very rock'n'roll\n\tConsider using a poetic literal such as: `X is * ********** *****`\n"),
      [], 0) := by
  decide +kernel
example : run (.run .lint (str% "ok.rock")) = some (Env.utf8 (str% "No lint issues found :)"), [], 0) := by
  decide +kernel
/-- `parse` -/
example : run (.run .parse (str% "ok.rock")) = some (Env.utf8 (str% "<tree>\n"), [], 0) := by
  decide +kernel
/-- missing file and bad usage: exit status 1, nothing on stdout -/
example : run (.run .parse (str% "nope.rock")) =
    some ([], str% "No such file or directory (os error 2)\n", 1) := by decide +kernel
example : run (.bad (str% "usage")) = some ([], str% "usage\n", 1) := by decide +kernel

end Examples

end C20
end Rrss
