/-
  Rrss.Thm.C13Nested — property C13, the nested half: a syntax fault at a statement boundary is
  reported (never hidden, the program never truncated) at ANY nesting depth, with the error — and
  hence the line — of the fault.

  Rrss/Thm/C13.lean gives (4) a catalogue of context-independent faults (in ANY state whose
  current tokens start with the fault, `parse_statement` / the statement loop of `parser k`
  returns a specific error located at a token of the fault) and lifts it over prefixes of
  complete TOP-LEVEL blocks. Here the catalogue is lifted over every program context spelled by
  the grammar of Rrss/Spec/Grammar.lean (Rrss/Spec/FaultContext.lean):

    `Ctx N`      what precedes a hole at a statement boundary of a block: complete statements of
                 the block (`next`), then the hole, or the header of an `if` (hole in the then- or
                 in the else-branch), `while`, `until` or function definition followed by a
                 context in the block it opens — nested arbitrarily;
    `ProgCtx N`  complete top-level blocks (each closed by its blank line, any number of further
                 blank lines), then a `Ctx` in the next top-level block;
    `k.toks c`   the tokens before the hole for the spelling choices `c : Choices N` (every free
                 alternative of the grammar and an arbitrary template — position, range, lexer
                 snapshot, keyword spelling — for every token): by `ctx_is_prefix_of_program`
                 exactly a prefix of a spelling of a whole program by the grammar;
    `k.wf fn`    the statements and headers before the hole are well-formed (`Statement.wf` of
                 C02); `fn` says that the block is a function body, where no complete statement
                 before the hole is an `if … else …` (which would end the body).

  What FOLLOWS the fault (`rest`) is arbitrary. Fuel: the number of tokens before the hole plus
  what the fault itself needs.

  SCOPE (inherited from the round-trip theorems C02, nothing is weakened here): the complete
  statements before the hole are those of `Grammar.Statement` — now every statement kind, poetic
  assignments and `rock … like` included; `Sane` is a condition on the token templates (true of
  lexed tokens), `Fits` (`k.Fits src c` / `p.Fits src c`, same shape as `linesFit` / `progFits` of
  C02) collects the places where the parser reads something of a template token that the grammar
  leaves open (the spelling of the token after a bare `break` or a poetic literal, of the `-` of
  `X is -5`, the source text of `X says …`): it is `True` for contexts without these constructs and
  follows from `NoIt` if only bare `break`s occur (`fault_in_context_plain`). The hole is at a
  STATEMENT BOUNDARY: a fault later inside a compound statement (e.g. in its `else` line) is a
  fault of that statement — `bad` then starts with the statement's first token and the hypothesis
  `hfault` has to be shown for it.
  (Helper lemmas: Rrss/Lemmas/ParserNested.lean; example data: Rrss/Lemmas/ParserNestedExamples.lean.)
-/
import Rrss.Lemmas.ParserNested
import Rrss.Lemmas.ParserNestedExamples
import Rrss.Thm.C13
import Rrss.Thm.C02
namespace Rrss
namespace Thm
namespace C13Nested
open Parser Grammar
open scoped Rrss.NEx

set_option linter.unusedVariables false

variable {N : Type} [CharOps]

/-! ## 0. The contexts are what the grammar spells -/

/-- **Contexts are prefixes of programs of the grammar.** Put any non-empty list of statements
    `ss` into the hole of a program context and end all open blocks and the program there
    (`p.plug ss`): the spelling `progToks (p.plug ss) c` of that program by the grammar of C02
    starts, for the same choices `c`, with the tokens `p.toks c` of the context; and if the context
    and `ss` are well-formed (`fnBodyOK`: only the last statement of `ss` may be an `if … else …`,
    in case the hole lies in a function body), so is the program (`progWf`, the hypothesis of the
    round-trip theorem C02). The same for a block context, read as a block (`linesToks`) or as a
    function body (`fnLinesToks`). -/
theorem ctx_is_prefix_of_program (p : ProgCtx N) (k : Ctx N) (c : Choices N) (ss : List (Statement N))
    (hss : ss ≠ []) :
    (∃ tail, progToks (p.plug ss) c = p.toks c ++ tail) ∧
    (∃ tail, linesToks (k.plug ss) c = k.toks c ++ tail) ∧
    (∃ tail, fnLinesToks (k.plug ss) c = k.toks c ++ tail) ∧
    (p.wf = true → stmtsWf ss = true → fnBodyOK ss = true → progWf (p.plug ss) = true) :=
  ⟨progCtx_toks_prefix p c ss hss, (ctx_toks_prefix k c ss hss).1, (ctx_toks_prefix k c ss hss).2,
   progCtx_plug_wf p ss hss⟩

/-- non-vacuity / what a context looks like: the context `f takes x⏎ while x⏎ if x⏎ say 1⏎ else⏎
    say 2⏎ □` (hole in the else-branch, after one statement, three blocks deep) is well-formed and
    has these 18 tokens; `say 3` may be plugged in. -/
example : (@ProgCtx.toks Int Lexer.asciiOps NEx.nCtx NEx.nC).map (·.kind) =
      [.word, .takes, .word, .newline, .while_, .word, .newline, .if_, .word, .newline, .say, .number,
       .newline, .else_, .newline, .say, .number, .newline] ∧
    NEx.nCtx.ctx.depth = 3 ∧ @ProgCtx.wf Int Lexer.asciiOps NEx.nCtx = true ∧
    [Grammar.Ex.sayS 3 .none] ≠ [] ∧ @stmtsWf Int Lexer.asciiOps [Grammar.Ex.sayS 3 .none] = true ∧
    fnBodyOK [Grammar.Ex.sayS 3 .none] = true := by
  decide +kernel

/-! ## 1. A fault inside nested blocks -/

/-- **C13, nested blocks.** Let `k` be a context inside a block, spelled with any choices `c`
    (`Sane`: the template tokens carry lexer snapshots that `current_loc` can read — true of lexed
    tokens, C12; `Fits`: the template conditions of the statements before the hole, `True` unless
    they contain a bare `break` or a poetic construct — both as in C02), let the tokens of the state be
    those of the context, then `bad ++ rest`, and let `bad ++ rest` be rejected with `e` in every
    state over the same text: by `parse_statement`, or by a round of the statement loop both of a
    block and of a function body (fault (a) of the catalogue), at every depth `≥ k0`. Then
    `parse_block` — and, if no statement before the hole at the outermost level is an
    `if … else …`, `parse_function_block` — started before the context returns exactly `e`, at
    every depth `n ≥ #tokens of the context + k0`: the complete statements and the headers of the
    open `if`/`else`/`while`/`until`/function statements before the fault neither hide the fault
    nor are they given up. -/
theorem fault_in_nested_block (k : Ctx N) (c : Choices N) (bad rest : List (Tok N)) (e : ParseErr N)
    (k0 : Nat) (st : PState N) (n : Nat)
    (htoks : st.toks = k.toks c ++ (bad ++ rest)) (hflag : st.parsingList = false)
    (hlast : SnapOK st.src st.last) (hsane : c.Sane st.src) (hfit : k.Fits st.src c)
    (hfault : ∀ m, k0 ≤ m → ∀ st' : PState N, st'.toks = bad ++ rest → st'.src = st.src →
      st'.eof = st.eof → st'.parsingList = false →
      parseStatement (parser m) st' = .err e ∨
        (stmtLoopBody (parser m) st' = .err e ∧ fnStmtLoopBody (parser m) st' = .err e))
    (hn : (k.toks c).length + k0 ≤ n) :
    (k.wf false = true → parseBlock (parser n) st = .err e) ∧
    (k.wf true = true → parseFunctionBlock (parser n) st = .err e) :=
  block_ctx_err_state k c (bad ++ rest) e k0 st n htoks hflag hlast hsane hfit
    (loopFault_of_states hfault) hn

/-- non-vacuity: the context above as the body of a function: `while x⏎ if x⏎ say 1⏎ else⏎ say 2⏎`,
    then `put into x` (`put` without operand: fault (d) of the catalogue, for every `rec`), then
    anything. `parse_function_block` reports the `into` (byte 44). -/
example : @parseFunctionBlock Int Lexer.asciiOps (@parser Int Lexer.asciiOps 14)
      { NEx.nState with toks := NEx.nToks.drop 4 } =
    .err ⟨.expectedPrimaryExpression, .token NEx.into44⟩ :=
  (@fault_in_nested_block Int Lexer.asciiOps NEx.nBody (((NEx.nC.sub 1).sub 0).sub 5)
    [NEx.put40, NEx.into44] (NEx.nToks.drop 20) _ 0 { NEx.nState with toks := NEx.nToks.drop 4 } 14
    (by decide +kernel) rfl NEx.nSnapOK NEx.nC_sane1 NEx.nC_fits1
    (fun m _ st' h1 _ _ _ => Or.inl
      ((@C13.statement_operand_missing Int Lexer.asciiOps (@parser Int Lexer.asciiOps m) st' NEx.put40
        (NEx.into44 :: NEx.nToks.drop 20) h1).1 (by decide) (by decide)))
    (by decide +kernel)).2 (by decide +kernel)

/-! ## 2. A fault anywhere in a program -/

/-- **C13, a fault in context is reported.** For every program context `p` built from well-formed
    statements (`p.wf`), every spelling `c` (`Sane`, `Fits`), every `bad`, `rest`, `e` such that `bad ++ rest` is
    rejected with `e` by `parse_statement` (or by the statement loops) in every state over the same
    text, at every depth `≥ k0`: `Parser::parse` on `p.toks c ++ bad ++ rest` returns `.err e`, at
    every depth `n > #tokens of the context + k0`. In particular the result is not `.ok` — the
    program is neither accepted nor truncated before the fault — and, the errors of the catalogue
    naming a token of `bad`, the reported line is that of the fault (`fault_in_context_source`). -/
theorem fault_in_context (p : ProgCtx N) (c : Choices N) (bad rest : List (Tok N)) (e : ParseErr N)
    (k0 : Nat) (st : PState N) (n : Nat)
    (hwf : p.wf = true) (htoks : st.toks = p.toks c ++ (bad ++ rest)) (hflag : st.parsingList = false)
    (hlast : SnapOK st.src st.last) (hsane : c.Sane st.src) (hfit : p.Fits st.src c)
    (hfault : ∀ m, k0 ≤ m → ∀ st' : PState N, st'.toks = bad ++ rest → st'.src = st.src →
      st'.eof = st.eof → st'.parsingList = false →
      parseStatement (parser m) st' = .err e ∨
        (stmtLoopBody (parser m) st' = .err e ∧ fnStmtLoopBody (parser m) st' = .err e))
    (hn : (p.toks c).length + k0 < n) :
    (parser n).program st = .err e := by
  cases n with
  | zero => omega
  | succ n =>
    exact program_ctx_err_state p c (bad ++ rest) e k0 st n hwf htoks hflag hlast hsane hfit
      (loopFault_of_states hfault) (by omega)

/-- non-vacuity: the whole example — the function `f` containing a `while` containing an
    `if`/`else`, `put into x` in the else-branch after `say 2`, then `say 3⏎`: all hypotheses hold
    (18 context tokens, `k0 = 0`, depth 19), the `into` on line 7 is reported … -/
example : (@parser Int Lexer.asciiOps 19).program NEx.nState =
    .err ⟨.expectedPrimaryExpression, .token NEx.into44⟩ :=
  @fault_in_context Int Lexer.asciiOps NEx.nCtx NEx.nC [NEx.put40, NEx.into44] (NEx.nToks.drop 20) _ 0
    NEx.nState 19 (by decide +kernel) (by decide +kernel) rfl NEx.nSnapOK NEx.nC_sane NEx.nC_fits
    (fun m _ st' h1 _ _ _ => Or.inl
      ((@C13.statement_operand_missing Int Lexer.asciiOps (@parser Int Lexer.asciiOps m) st' NEx.put40
        (NEx.into44 :: NEx.nToks.drop 20) h1).1 (by decide) (by decide)))
    (by decide +kernel)

/-- … and this is what the model parser computes (kernel evaluation, independent of the theorem):
    `ExpectedPrimaryExpression`, line 7, token at byte 44 -/
example : Parser.Ex.obs ((@parser Int Lexer.asciiOps 19).program NEx.nState) =
    .err (str% "ExpectedPrimaryExpression") 7 (some 44) := by decide +kernel

/-- **C13, a fault in context is reported — contexts without template-dependent constructs.** If
    no complete statement before the hole has a poetic literal, a poetic string, `rock … like` or a
    negative poetic right-hand side (`p.plain ab`; bare `break`s allowed iff `ab`, and then no
    template token may be spelled `it`: `NoIt`), `Fits` need not be assumed. (This is the statement
    for the grammar without poetic statements.) -/
theorem fault_in_context_plain (ab : Bool) (p : ProgCtx N) (c : Choices N) (bad rest : List (Tok N))
    (e : ParseErr N) (k0 : Nat) (st : PState N) (n : Nat)
    (hwf : p.wf = true) (hplain : p.plain ab = true) (hit : ab = true → c.NoIt)
    (htoks : st.toks = p.toks c ++ (bad ++ rest)) (hflag : st.parsingList = false)
    (hlast : SnapOK st.src st.last) (hsane : c.Sane st.src)
    (hfault : ∀ m, k0 ≤ m → ∀ st' : PState N, st'.toks = bad ++ rest → st'.src = st.src →
      st'.eof = st.eof → st'.parsingList = false →
      parseStatement (parser m) st' = .err e ∨
        (stmtLoopBody (parser m) st' = .err e ∧ fnStmtLoopBody (parser m) st' = .err e))
    (hn : (p.toks c).length + k0 < n) :
    (parser n).program st = .err e :=
  fault_in_context p c bad rest e k0 st n hwf htoks hflag hlast hsane
    (progCtx_plain_fits st.src p c hplain hit) hfault hn

/-- non-vacuity: the example context is plain (even with `ab = true`: no template is spelled `it`) -/
example : (@parser Int Lexer.asciiOps 19).program NEx.nState =
    .err ⟨.expectedPrimaryExpression, .token NEx.into44⟩ :=
  @fault_in_context_plain Int Lexer.asciiOps true NEx.nCtx NEx.nC [NEx.put40, NEx.into44]
    (NEx.nToks.drop 20) _ 0 NEx.nState 19 (by decide +kernel) (by decide +kernel) (fun _ => NEx.nC_noIt)
    (by decide +kernel) rfl NEx.nSnapOK NEx.nC_sane
    (fun m _ st' h1 _ _ _ => Or.inl
      ((@C13.statement_operand_missing Int Lexer.asciiOps (@parser Int Lexer.asciiOps m) st' NEx.put40
        (NEx.into44 :: NEx.nToks.drop 20) h1).1 (by decide) (by decide)))
    (by decide +kernel)

/-- **C13, source level: the fault is rejected and its line is reported.** Let the text `src` lex
    to `raw`, and let its non-comment tokens be a program context spelled by the grammar, then
    `bad ++ rest`, where `bad ++ rest` is rejected with `e` as in `fault_in_context` (at every
    depth from some `k0 ≤ #bad + #rest + 1` on — the depth `parse` runs with). Then `parse(src)`
    returns `.err e`; and if `e` names a token `t` of `bad` (as every error of the catalogue does),
    the line reported for `e` is the true line of `t`: 1 + the number of line feeds before its
    first byte (`src` shorter than 4 GiB, a line feed is white space: C12). -/
theorem fault_in_context_source [NumOps N] {kw : List (Str × TK)} {src : Str} {raw : List (Tok N)}
    (p : ProgCtx N) (c : Choices N) (bad rest : List (Tok N)) (e : ParseErr N) (k0 : Nat)
    (hlen : ulen src < 2 ^ 32) (hnl : CharOps.isWhitespace '\n' = true)
    (hlex : Lexer.lexAll kw src = .ok raw)
    (hwf : p.wf = true) (htoks : skipComments raw = p.toks c ++ (bad ++ rest))
    (hsane : c.Sane src) (hfit : p.Fits src c)
    (hfault : ∀ m, k0 ≤ m → ∀ st' : PState N, st'.toks = bad ++ rest → st'.src = src →
      st'.eof = Lexer.eofSnap src raw → st'.parsingList = false →
      parseStatement (parser m) st' = .err e ∨
        (stmtLoopBody (parser m) st' = .err e ∧ fnStmtLoopBody (parser m) st' = .err e))
    (hk0 : k0 ≤ bad.length + rest.length + 1) :
    parseProgram kw src = .err e ∧
    ∀ t, t ∈ bad → e.loc = .token t → e.line = (Spec.trueLoc src t.start).line := by
  refine ⟨parseProgram_of_program_err hlex ?_, fun t ht hloc => ?_⟩
  · refine fault_in_context p c bad rest e k0 (initState src raw) _ hwf htoks rfl
      (initState_snapOK src raw) hsane hfit hfault ?_
    rw [htoks]
    simp only [List.length_append]
    omega
  · have hmem : t ∈ skipComments raw := by
      rw [htoks]
      exact List.mem_append_right _ (List.mem_append_left _ ht)
    have := C13.token_error_line_true hlen hnl hlex e.code t hmem
    obtain ⟨code, loc⟩ := e
    simp only at hloc
    subst hloc
    exact this

/-- non-vacuity, everything at once: the text below lexes (kernel evaluation of the lexer) to the
    25 tokens `nToks`; they are the 18 tokens of the context above — with the lexed positions as
    templates — then `put into`, then `x⏎say 3⏎`; so `parse` rejects the text with
    `ExpectedPrimaryExpression` at the `into`, whose true line is 7 … -/
example : @parseProgram Int Lexer.asciiOps _ Lexer.defaultKeywords
      (str% "f takes x\nwhile x\nif x\nsay 1\nelse\nsay 2\nput into x\nsay 3\n") =
      .err ⟨.expectedPrimaryExpression, .token NEx.into44⟩ ∧
    (⟨.expectedPrimaryExpression, .token NEx.into44⟩ : ParseErr Int).line = 7 := by
  have h := @fault_in_context_source Int Lexer.asciiOps _ Lexer.defaultKeywords NEx.nSrc NEx.nToks
    NEx.nCtx NEx.nC [NEx.put40, NEx.into44] (NEx.nToks.drop 20)
    ⟨.expectedPrimaryExpression, .token NEx.into44⟩ 0 (by decide +kernel) (by decide) NEx.nSrc_lexes
    (by decide +kernel) (by decide +kernel) NEx.nC_sane NEx.nC_fits
    (fun m _ st' h1 _ _ _ => Or.inl
      ((@C13.statement_operand_missing Int Lexer.asciiOps (@parser Int Lexer.asciiOps m) st' NEx.put40
        (NEx.into44 :: NEx.nToks.drop 20) h1).1 (by decide) (by decide)))
    (by decide +kernel)
  exact ⟨h.1, (h.2 NEx.into44 (by decide +kernel) rfl).trans (by decide +kernel)⟩

/-- … in agreement with the direct evaluation of lexer and parser on the text -/
example : ∃ e : ParseErr Int, @parseProgram Int Lexer.asciiOps _ Lexer.defaultKeywords
      (str% "f takes x\nwhile x\nif x\nsay 1\nelse\nsay 2\nput into x\nsay 3\n") = .err e ∧
    (e.codeName, e.line, e.tokStart) = (str% "ExpectedPrimaryExpression", 7, some 44) :=
  @parseProgram_of_errViewF Int Lexer.asciiOps _ Lexer.defaultKeywords 100 _ _ (by decide +kernel)

/-! ## 3. The catalogue of Rrss/Thm/C13.lean in context -/

/-- **(b) in context: a token that cannot start a statement**, where a statement must start at any
    depth (a literal, an operator, `than`, `into`, an error token, …): `UnexpectedToken` at that
    token, from `Parser::parse`, at every depth `n > #tokens of the context`. -/
theorem stray_token_in_context (p : ProgCtx N) (c : Choices N) (t : Tok N) (rest : List (Tok N))
    (st : PState N) (n : Nat)
    (hwf : p.wf = true) (htoks : st.toks = p.toks c ++ t :: rest) (hflag : st.parsingList = false)
    (hlast : SnapOK st.src st.last) (hsane : c.Sane st.src) (hfit : p.Fits st.src c)
    (hk : t.kind ∉ [.else_, .newline, .put, .let_, .word, .commonPrefix, .pronoun, .if_, .while_,
      .until_, .build, .knock, .say, .sayAlias, .listen, .cut, .join, .cast, .turn, .break_,
      .continue_, .take, .rock, .roll, .return_])
    (hn : (p.toks c).length < n) :
    (parser n).program st = .err ⟨.unexpectedToken, .token t⟩ :=
  fault_in_context p c [t] rest _ 0 st n hwf htoks hflag hlast hsane hfit
    (fun m _ st' h1 _ _ _ => Or.inl (C13.unexpected_statement_start (parser m) h1 hk).1) (by omega)

/-- non-vacuity: in the example context, the number `2` where the statement after `say 2⏎` must
    start -/
example : (@parser Int Lexer.asciiOps 19).program
      { NEx.nState with toks := NEx.nToks.take 18 ++ [NEx.two38] } =
    .err ⟨.unexpectedToken, .token NEx.two38⟩ :=
  @stray_token_in_context Int Lexer.asciiOps NEx.nCtx NEx.nC NEx.two38 [] _ 19 (by decide +kernel)
    (by decide +kernel) rfl NEx.nSnapOK NEx.nC_sane NEx.nC_fits (by decide) (by decide +kernel)

/-- non-vacuity with poetic statements before the hole (the contexts range over all statement kinds
    of the grammar): `Tommy was a lovestruck ladykiller⏎ x says hello world⏎`, then a number; `Fits`
    holds because the text `hello world` is what the source has after `says ` -/
example : (@parser Int Lexer.asciiOps 12).program
      ⟨Grammar.Ex.poeticSrc,
        @ProgCtx.toks Int Lexer.asciiOps NEx.pCtx Grammar.Ex.cPoetic ++ [Grammar.Ex.num 1],
        ⟨1, 0, 0⟩, ⟨1, 0, 0⟩, false⟩ =
    .err ⟨.unexpectedToken, .token (Grammar.Ex.num 1)⟩ :=
  @stray_token_in_context Int Lexer.asciiOps NEx.pCtx Grammar.Ex.cPoetic (Grammar.Ex.num 1) [] _ 12
    (by decide +kernel) rfl rfl (Grammar.Ex.snapOK_default _) Grammar.Ex.cPoetic_sane NEx.pCtx_fits
    (by decide) (by decide +kernel)
example : (@ProgCtx.toks Int Lexer.asciiOps NEx.pCtx Grammar.Ex.cPoetic).map (·.kind) =
    [.word, .is, .commonPrefix, .word, .word, .newline, .word, .says, .word, .word, .newline] := by
  decide +kernel

/-- **(b) in context, source level.** If the non-comment tokens of a text are a program context
    spelled by the grammar followed by a token `t` that cannot start a statement (and anything),
    `parse(text)` fails with `UnexpectedToken` and reports the true line of `t`. (The other entries
    are lifted to texts by `fault_in_context_source` in the same way.) -/
theorem stray_token_source [NumOps N] {kw : List (Str × TK)} {src : Str} {raw : List (Tok N)}
    (p : ProgCtx N) (c : Choices N) (t : Tok N) (rest : List (Tok N))
    (hlen : ulen src < 2 ^ 32) (hnl : CharOps.isWhitespace '\n' = true)
    (hlex : Lexer.lexAll kw src = .ok raw)
    (hwf : p.wf = true) (htoks : skipComments raw = p.toks c ++ t :: rest)
    (hsane : c.Sane src) (hfit : p.Fits src c)
    (hk : t.kind ∉ [.else_, .newline, .put, .let_, .word, .commonPrefix, .pronoun, .if_, .while_,
      .until_, .build, .knock, .say, .sayAlias, .listen, .cut, .join, .cast, .turn, .break_,
      .continue_, .take, .rock, .roll, .return_]) :
    parseProgram kw src = .err ⟨.unexpectedToken, .token t⟩ ∧
    (⟨.unexpectedToken, .token t⟩ : ParseErr N).line = (Spec.trueLoc src t.start).line := by
  have h := fault_in_context_source p c [t] rest ⟨.unexpectedToken, .token t⟩ 0 hlen hnl hlex hwf htoks
    hsane hfit (fun m _ st' h1 _ _ _ => Or.inl (C13.unexpected_statement_start (parser m) h1 hk).1)
    (by omega)
  exact ⟨h.1, h.2 t (by simp) rfl⟩

/-- non-vacuity: the example text (`fault_in_context_source`) has this shape with `t` = `into`
    if one drops the `put`; here on the tokens: context, then the `into` of line 7 -/
example : @ProgCtx.wf Int Lexer.asciiOps NEx.nCtx = true ∧ NEx.nC.Sane NEx.nSrc ∧
    @ProgCtx.Fits Int Lexer.asciiOps NEx.nSrc NEx.nCtx NEx.nC ∧
    NEx.into44.kind ∉ [TK.else_, .newline, .put, .let_, .word, .commonPrefix, .pronoun, .if_, .while_,
      .until_, .build, .knock, .say, .sayAlias, .listen, .cut, .join, .cast, .turn, .break_,
      .continue_, .take, .rock, .roll, .return_] ∧
    Parser.Ex.obs ((@parser Int Lexer.asciiOps 19).program
      { NEx.nState with toks := NEx.nToks.take 18 ++ NEx.nToks.drop 19 }) =
      .err (str% "UnexpectedToken") 7 (some 44) :=
  ⟨by decide +kernel, NEx.nC_sane, NEx.nC_fits, by decide, by decide +kernel⟩

/-- **(d) in context: a statement keyword without its operand.** `say`/`shout`/…, `put`, `if`,
    `while`, `until` followed by a token `t` that cannot start an expression (a line break, `into`,
    an operator, …), at any depth: `ExpectedPrimaryExpression` at `t`. -/
theorem missing_operand_in_context (p : ProgCtx N) (c : Choices N) (s t : Tok N) (rest : List (Tok N))
    (st : PState N) (n : Nat)
    (hwf : p.wf = true) (htoks : st.toks = p.toks c ++ s :: t :: rest) (hflag : st.parsingList = false)
    (hlast : SnapOK st.src st.last) (hsane : c.Sane st.src) (hfit : p.Fits st.src c)
    (hs : s.kind = .say ∨ s.kind = .sayAlias ∨ s.kind = .put ∨ s.kind = .if_ ∨ s.kind = .while_ ∨
      s.kind = .until_)
    (ht : t.kind ∉ [.minus, .not, .pronoun, .commonPrefix, .word, .mysterious, .null, .number,
      .stringLit, .empty, .true_, .false_, .roll])
    (hn : (p.toks c).length < n) :
    (parser n).program st = .err ⟨.expectedPrimaryExpression, .token t⟩ :=
  fault_in_context p c [s, t] rest _ 0 st n hwf htoks hflag hlast hsane hfit
    (fun m _ st' h1 _ _ _ => Or.inl
      ((C13.statement_operand_missing (parser m) (st := st') (s := s) (ts := t :: rest) h1).1 hs
        (by intro t' ht'; cases ht'; exact ht)))
    (by omega)

/-- non-vacuity: the example (`put into x` in the else-branch) -/
example : (@parser Int Lexer.asciiOps 19).program NEx.nState =
    .err ⟨.expectedPrimaryExpression, .token NEx.into44⟩ :=
  @missing_operand_in_context Int Lexer.asciiOps NEx.nCtx NEx.nC NEx.put40 NEx.into44
    (NEx.nToks.drop 20) _ 19 (by decide +kernel) (by decide +kernel) rfl NEx.nSnapOK NEx.nC_sane
    NEx.nC_fits (by decide) (by decide) (by decide +kernel)

/-- **(a) in context: a second statement on the same line.** A complete one-line statement `s`
    (any kind of `SimpleStmt`, poetic assignments included; well-formed, spelled with any choices
    `cb` that are `Sane` and `Fits`) followed on its line by a token `t` that is neither `,`/`.` nor
    a line break and does not continue `s` (`s.Stop`), at any depth: `ExpectedToken(Newline)` at `t` — also directly inside a function
    body. (`parse_statement` succeeds on `s` by C02; the statement loop then fails.) -/
theorem second_statement_in_context (p : ProgCtx N) (c : Choices N) (s : SimpleStmt N) (cb : Choices N)
    (t : Tok N) (rest : List (Tok N)) (st : PState N) (n : Nat)
    (hwf : p.wf = true) (htoks : st.toks = p.toks c ++ (s.toks cb ++ t :: rest))
    (hflag : st.parsingList = false) (hlast : SnapOK st.src st.last) (hsane : c.Sane st.src)
    (hfit : p.Fits st.src c) (hs : s.wf = true) (hsaneb : cb.Sane st.src)
    (hfitb : s.Fits st.src cb (t :: rest))
    (hstop : s.Stop (t :: rest)) (ht : t.kind ∉ [.comma, .dot, .newline])
    (hn : (p.toks c).length + (s.toks cb).length < n) :
    (parser n).program st = .err ⟨.expectedToken .newline, .token t⟩ := by
  refine fault_in_context p c (s.toks cb ++ [t]) rest _ (s.toks cb).length st n hwf
    (by simpa using htoks) hflag hlast hsane hfit (fun m hm st' h1 h2 _ h4 => Or.inr ?_) hn
  obtain ⟨s', st1, hp, her, hts, _⟩ := C02.C02_statement (.simple s .none) cb (t :: rest) st' m
    (by simpa [Statement.wf] using hs) hstop (by simpa [simple_toks] using h1) h4 (h2 ▸ hsaneb)
    (h2 ▸ hfitb) hm
  have hterm : isFunctionTerminator s' = false := by
    rw [← isFunctionTerminator_erase, her, isFunctionTerminator_toStmt]; rfl
  have := C13.second_statement_same_line (parser m) hp hts ht
  exact ⟨this.1, this.2.1 hterm⟩

/-- non-vacuity: in the example context, `say 3 say 3` after `say 2⏎` -/
example : (@parser Int Lexer.asciiOps 21).program
      { NEx.nState with toks := NEx.nToks.take 18 ++ [NEx.say51, NEx.three55, NEx.say51, NEx.three55] } =
    .err ⟨.expectedToken .newline, .token NEx.say51⟩ :=
  @second_statement_in_context Int Lexer.asciiOps NEx.nCtx NEx.nC
    (.say (Comparison.toLogical (Term.toComparison (Prim.toTerm (.lit (.num 3)))))) NEx.cSay3
    NEx.say51 [NEx.three55] _ 21 (by decide +kernel) (by decide +kernel) rfl NEx.nSnapOK
    NEx.nC_sane NEx.nC_fits (by decide +kernel) NEx.cSay3_sane trivial
    (@stop_of_endsExpr Int Lexer.asciiOps false _ _ rfl) (by decide) (by decide +kernel)

/-- **(c) in context: `put E` without `into`.** `put`, a well-formed expression `ex` (any
    spelling), then a token `t` that is not `into` and does not continue `ex`, at any depth:
    `ExpectedToken(Into)` at `t`. -/
theorem put_missing_into_in_context (p : ProgCtx N) (c : Choices N) (pt : Tok N) (ex : Expression N)
    (cb : Choices N) (t : Tok N) (rest : List (Tok N)) (st : PState N) (n : Nat)
    (hwf : p.wf = true) (htoks : st.toks = p.toks c ++ pt :: (unparse ex cb ++ t :: rest))
    (hflag : st.parsingList = false) (hlast : SnapOK st.src st.last) (hsane : c.Sane st.src)
    (hfit : p.Fits st.src c) (hp : pt.kind = .put) (hex : ex.wf = true) (hstop : ex.Stop (t :: rest))
    (ht : t.kind ≠ .into) (hn : (p.toks c).length + (unparse ex cb).length < n) :
    (parser n).program st = .err ⟨.expectedToken .into, .token t⟩ := by
  refine fault_in_context p c (pt :: (unparse ex cb ++ [t])) rest _ (unparse ex cb).length st n hwf
    (by simpa using htoks) hflag hlast hsane hfit (fun m hm st' h1 _ _ h4 => Or.inl ?_) hn
  have h1' : st'.toks = pt :: (unparse ex cb ++ t :: rest) := by simpa using h1
  obtain ⟨v, st2, he, _, hts, _⟩ := C02.C02_expr ex cb (t :: rest)
    { st' with toks := unparse ex cb ++ t :: rest, last := pt.after } m hex hstop rfl h4 hm
  have := C13.put_missing_into (parser m) h1' hp he
    (by intro t' ht'; rw [hts] at ht'; cases ht'; simpa using ht)
  simpa [errLocOf, hts] using this

/-- non-vacuity: in the example context, `put 3 say` after `say 2⏎` -/
example : (@parser Int Lexer.asciiOps 20).program
      { NEx.nState with toks := NEx.nToks.take 18 ++ [NEx.put40, NEx.three55, NEx.say51] } =
    .err ⟨.expectedToken .into, .token NEx.say51⟩ :=
  @put_missing_into_in_context Int Lexer.asciiOps NEx.nCtx NEx.nC NEx.put40
    (Comparison.toLogical (Term.toComparison (Prim.toTerm (.lit (.num 3))))) (NEx.cSay3.sub 1)
    NEx.say51 [] _ 20 (by decide +kernel) (by decide +kernel) rfl NEx.nSnapOK
    NEx.nC_sane NEx.nC_fits rfl (by decide +kernel)
    (@stop_of_endsExpr Int Lexer.asciiOps false _ _ rfl) (by decide) (by decide +kernel)

end C13Nested
end Thm
end Rrss
