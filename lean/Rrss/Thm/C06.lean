/-
  Rrss.Thm.C06 — arrays are independent values with queue and dictionary behaviour.

  Vocabulary (defined in Rrss.Lemmas.Store, next to the helper lemmas):
  * `vivify v`   — `v`, except that mysterious becomes the empty array (what the write path
                   does to a value before indexing into it);
  * `slot k`     — the cell of an array a subscript designates: `idx (toUSize n)` for a number
                   `n` (the truncated, saturated `n as usize`), `key _` for mysterious / null /
                   booleans / texts, nothing for an array;
  * `indexPath v ks` — `Val.index` iterated along a list of subscripts, outermost first;
  * `Walkable cap ks v` — every value met when walking `ks` from `v` is an array or
                   mysterious and every subscript is acceptable to the write path;
  * `toSpec seq dict` — the abstract array of `Rrss.Spec.Store` behind a model array;
  * `popN n a`   — `Val.pop` iterated `n` times, collecting the values taken out;
  * `cellOutcome`— how `writeCell` reports the status of `updateAt` (Rrss.Lemmas.EnvFrame).

  The write path is `Val.updateAt cap f keys v`: walk `keys` (outermost array first) with
  `index_or_insert` semantics, run the closure `f` on the cell reached. Assignment is the
  closure `fun _ => .ok (x, b)` (`b` is the extra result: `()` here, `none` in the interpreter's
  `assignW`). Theorems are stated for an arbitrary closure wherever they hold for one.
-/
import Rrss.Lemmas.Store
import Rrss.Lemmas.EnvFrame
import Rrss.Lemmas.RockRoll
import Rrss.NumInt
namespace Rrss.C06
open Val NumOps

section
variable {N : Type} [NumOps N]

/-! ## 1. get after set, same key -/

/-- One level of the write path, any closure, any deeper path: if `a` is an array or mysterious
    and the subscript `k` is a number below both bounds (`cap`, the model's budget on
    auto-extension, and `usize::MAX`) or a dictionary key, then the write goes through the cell
    `c` that `k` designates in `a` (what reading yields there), its status is the status of the
    rest of the write from `c`, and reading the result at `k` yields the rewritten cell. -/
theorem write_then_read {β : Type} (cap : Nat) (f : Val N → VRes N (Val N × β)) (a k : Val N)
    (ks : List (Val N))
    (ha : a = .undef ∨ ∃ s d, a = .arr s d)
    (hk : (∃ n, k = .num n ∧ toUSize n < cap ∧ toUSize n < usizeMax) ∨
          ∃ key, toKey k = some key) :
    ∃ c, index (vivify a) k = .ok c ∧
      (updateAt cap f (k :: ks) a).2 = (updateAt cap f ks c).2 ∧
      index (updateAt cap f (k :: ks) a).1 k = .ok (updateAt cap f ks c).1 := by
  rcases updateAt_step cap f k ks a with ⟨_, _, hn⟩ | ⟨_, _, c, hc, hst, _, hrd⟩
  · exact absurd ⟨(vivify_arr_iff a).mpr ha, (writableKey_iff cap k).mpr hk⟩ hn
  · exact ⟨c, hc, hst, hrd⟩

example := write_then_read (N := Int) 100 (fun v => .ok (v, ())) (.arr [.num 4] []) (.num 0) []
  (.inr ⟨_, _, rfl⟩) (.inl ⟨0, rfl, by decide, by decide⟩)

/-- Get after set, numeric key: assigning `x` at `n` in an array or mysterious succeeds and
    reading at `n` then yields `x` (whatever the length was: the sequence is extended). -/
theorem get_set_same_num {β : Type} (cap : Nat) (a x : Val N) (b : β) (n : N)
    (ha : a = .undef ∨ ∃ s d, a = .arr s d)
    (h1 : toUSize n < cap) (h2 : toUSize n < usizeMax) :
    (updateAt cap (fun _ => .ok (x, b)) [.num n] a).2 = .ok b ∧
    index (updateAt cap (fun _ => .ok (x, b)) [.num n] a).1 (.num n) = .ok x := by
  obtain ⟨c, _, hst, hrd⟩ :=
    write_then_read cap (fun _ => .ok (x, b)) a (.num n) [] ha (.inl ⟨n, rfl, h1, h2⟩)
  exact ⟨hst, hrd⟩

example : (updateAt (N := Int) 100 (fun _ => .ok (.str ['x'], ())) [.num 3] (.arr [.num 1] [])).1
    = .arr [.num 1, .undef, .undef, .str ['x']] [] := rfl

/-- Get after set, dictionary key (mysterious, null, a boolean or a text as subscript). -/
theorem get_set_same_key {β : Type} (cap : Nat) (a x k : Val N) (b : β) (key : Key)
    (ha : a = .undef ∨ ∃ s d, a = .arr s d) (hk : toKey k = some key) :
    (updateAt cap (fun _ => .ok (x, b)) [k] a).2 = .ok b ∧
    index (updateAt cap (fun _ => .ok (x, b)) [k] a).1 k = .ok x := by
  obtain ⟨c, _, hst, hrd⟩ :=
    write_then_read cap (fun _ => .ok (x, b)) a k [] ha (.inr ⟨key, hk⟩)
  exact ⟨hst, hrd⟩

example : (updateAt (N := Int) 100 (fun _ => .ok (.num 5, ())) [.str ['k']] .undef).1
    = .arr [] [(.str ['k'], .num 5)] := rfl

/-- Get after set along a whole path of subscripts, any closure: whenever the write succeeds
    with extra result `b`, the closure produced some `(c', b)` and reading the result back along
    the same path yields `c'`. -/
theorem write_path_then_read {β : Type} (cap : Nat) (f : Val N → VRes N (Val N × β))
    (ks : List (Val N)) (v : Val N) (b : β) (h : (updateAt cap f ks v).2 = .ok b) :
    ∃ c c', f c = .ok (c', b) ∧ indexPath (updateAt cap f ks v).1 ks = .ok c' :=
  indexPath_updateAt_same cap f ks v b h

example : (updateAt (N := Int) 100 (fun c => .ok (c, ())) [.num 1, .str ['k']] .undef).2 = .ok () :=
  rfl

/-- … for assignment: a successful `let v at k₁ at k₂ … be x` reads back `x`. -/
theorem get_set_same_path {β : Type} (cap : Nat) (x : Val N) (b b' : β) (ks : List (Val N))
    (v : Val N) (h : (updateAt cap (fun _ => .ok (x, b)) ks v).2 = .ok b') :
    indexPath (updateAt cap (fun _ => .ok (x, b)) ks v).1 ks = .ok x := by
  obtain ⟨c, c', hf, hp⟩ := indexPath_updateAt_same cap (fun _ => .ok (x, b)) ks v b' h
  cases hf
  exact hp

example : indexPath (updateAt (N := Int) 100 (fun _ => .ok (.num 9, ())) [.num 1, .null] .undef).1
    [.num 1, .null] = .ok (.num 9) :=
  get_set_same_path 100 (.num 9) () () _ _ rfl

/-- When assignment along a path succeeds: exactly on walkable paths. -/
theorem set_path_ok_iff {β : Type} (cap : Nat) (x : Val N) (b : β) (ks : List (Val N))
    (v : Val N) :
    (updateAt cap (fun _ => .ok (x, b)) ks v).2 = .ok b ↔ Walkable cap ks v :=
  ⟨walkable_of_updateAt_ok cap _ b ks v, updateAt_ok_of_walkable cap x b ks v⟩

example : (updateAt (N := Int) 100 (fun _ => .ok (.num 9, ())) [.num 1, .str ['k'], .num 0] .undef)
    = (.arr [.undef, .arr [] [(.str ['k'], .arr [.num 9] [])]] [], .ok ()) := rfl

/-! ## 2. get after set, other key (frame inside a value) -/

/-- One level, any closure, any deeper path, any value `a`, success or failure of the write:
    a subscript `k'` designating another cell than `k` (a different truncated index, a different
    dictionary key, or one numeric and the other not) reads after the write what it read
    before — "before" meaning in `vivify a`, i.e. in the empty array if `a` was mysterious. -/
theorem get_set_other {β : Type} (cap : Nat) (f : Val N → VRes N (Val N × β)) (a k k' : Val N)
    (ks : List (Val N)) (h : slot k ≠ slot k') :
    index (updateAt cap f (k :: ks) a).1 k' = index (vivify a) k' :=
  index_updateAt_other cap f k k' ks a h

example : slot (.num (3 : Int)) ≠ slot (.num (2 : Int)) := by decide
example : slot (.num (3 : Int)) ≠ slot (.str ['3'] : Val Int) := by decide

/-- Instances of "another cell": numbers with different truncated index; a number against a
    non-number; two non-numbers with different dictionary keys. -/
theorem slot_ne_cases (k k' : Val N) :
    (∀ n m, k = .num n → k' = .num m → toUSize n ≠ toUSize m → slot k ≠ slot k') ∧
    (∀ n key, k = .num n → toKey k' = some key → slot k ≠ slot k' ∧ slot k' ≠ slot k) ∧
    (∀ key key', toKey k = some key → toKey k' = some key' → key ≠ key' → slot k ≠ slot k') := by
  refine ⟨?_, ?_, ?_⟩
  · rintro n m rfl rfl h; simp [slot, h]
  · rintro n key rfl hk; rw [slot_of_toKey hk]; simp [slot]
  · intro key key' hk hk' h; rw [slot_of_toKey hk, slot_of_toKey hk']; simp [h]

/-- The extension case said explicitly: writing at index `i` beyond the end leaves every index
    `j ≠ i` in the gap (and beyond) reading mysterious, and every old index reading its old
    value. -/
theorem get_set_other_num {β : Type} (cap : Nat) (f : Val N → VRes N (Val N × β))
    (s : List (Val N)) (d : List (Key × Val N)) (n m : N) (ks : List (Val N))
    (h : toUSize m ≠ toUSize n) :
    index (updateAt cap f (.num n :: ks) (.arr s d)).1 (.num m) =
      .ok (if h' : toUSize m < s.length then s[toUSize m] else .undef) := by
  rw [get_set_other cap f (.arr s d) (.num n) (.num m) ks (by simp [slot, Ne.symm h])]
  simp only [vivify_arr, index_arr_num]
  split
  · next h' => simp [h']
  · next h' => simp [List.getElem?_eq_none (Nat.le_of_not_lt h')]

example : index (updateAt (N := Int) 100 (fun _ => .ok (.num 7, ())) [.num 3] (.arr [.num 1] [])).1
    (.num 2) = .ok .undef := rfl

/-- Path frame, any closure, success or failure of the write: a read that succeeded before
    along `p ++ k' :: r'` yields the same value after a write along `p ++ k :: r`, when `k` and
    `k'` designate different cells. -/
theorem get_set_other_path {β : Type} (cap : Nat) (f : Val N → VRes N (Val N × β))
    (p : List (Val N)) (k k' : Val N) (r r' : List (Val N)) (v y : Val N)
    (hkk : slot k ≠ slot k') (hread : indexPath v (p ++ k' :: r') = .ok y) :
    indexPath (updateAt cap f (p ++ k :: r) v).1 (p ++ k' :: r') = .ok y :=
  indexPath_updateAt_other cap f p k k' r r' v y hkk hread

example : indexPath (N := Int) (.arr [.arr [.num 1, .num 2] []] []) ([.num 0] ++ .num 1 :: [])
    = .ok (.num 2) := rfl
example : indexPath (updateAt (N := Int) 100 (fun _ => .ok (.null, ())) ([.num 0] ++ .num 5 :: [])
      (.arr [.arr [.num 1, .num 2] []] [])).1 ([.num 0] ++ .num 1 :: []) = .ok (.num 2) :=
  get_set_other_path 100 _ [.num 0] (.num 5) (.num 1) [] [] _ _ (by decide) rfl

/-! ## 3. extension, missing elements, link to the specification -/

/-- Writing `x` at index `i = toUSize n` of an array: the dictionary is untouched and the new
    sequence has length `max len (i+1)`; cell `i` holds `x`, old cells keep their values, the
    new cells other than `i` are mysterious. For mysterious instead of an array: the same with
    the empty array. The new array is the specification's `setIdx`. -/
theorem set_num_shape {β : Type} (cap : Nat) (x : Val N) (b : β) (s : List (Val N))
    (d : List (Key × Val N)) (n : N) (h1 : toUSize n < cap) (h2 : toUSize n < usizeMax) :
    ∃ s', updateAt cap (fun _ => .ok (x, b)) [.num n] (.arr s d) = (.arr s' d, .ok b) ∧
      s'.length = max s.length (toUSize n + 1) ∧
      (∀ j, s'[j]? =
        if j = toUSize n then some x
        else if j < s.length then s[j]?
        else if j < toUSize n + 1 then some .undef else none) ∧
      toSpec s' d = Spec.Store.setIdx .undef (toSpec s d) (toUSize n) x := by
  refine ⟨(extendTo s (toUSize n + 1)).set (toUSize n) x, ?_, set_extendTo_length _ _ _,
    fun j => set_extendTo_getElem? _ _ _ _, ?_⟩
  · rw [updateAt_cons_num cap _ n [] s d h2 h1]; rfl
  · simp only [toSpec, Spec.Store.setIdx, Spec.Store.getIdx]
    rw [set_extendTo_eq_spec]
    congr 2
    funext j
    by_cases hj : j = toUSize n
    · simp [hj]
    · simp only [if_neg hj]; cases s[j]? <;> rfl

example := set_num_shape (N := Int) 100 (.num 7) () [.num 1] [] 3 (by decide) (by decide)

/-- the same for mysterious: it is first replaced by the empty array -/
theorem set_num_undef {β : Type} (cap : Nat) (f : Val N → VRes N (Val N × β)) (k : Val N)
    (ks : List (Val N)) :
    updateAt cap f (k :: ks) .undef = updateAt cap f (k :: ks) (.arr [] []) :=
  updateAt_cons_vivify cap f k ks .undef

/-- Writing `x` at a dictionary key: the sequence is untouched; the new dictionary binds the
    key to `x` and every other key as before. The new array is the specification's `setKey`. -/
theorem set_key_shape {β : Type} (cap : Nat) (x k : Val N) (b : β) (s : List (Val N))
    (d : List (Key × Val N)) (key : Key) (hk : toKey k = some key) :
    ∃ d', updateAt cap (fun _ => .ok (x, b)) [k] (.arr s d) = (.arr s d', .ok b) ∧
      (∀ key', dlookup key' d' = if key' = key then some x else dlookup key' d) ∧
      toSpec s d' = Spec.Store.setKey (toSpec s d) key x := by
  have hl : ∀ key', dlookup key' (dset key x d) = if key' = key then some x else dlookup key' d := by
    intro key'
    by_cases h : key' = key
    · subst h; simp
    · simp [h, dlookup_dset_other _ _ _ _ h]
  refine ⟨dset key x d, ?_, hl, ?_⟩
  · rw [updateAt_cons_key cap _ k key [] s d hk]; rfl
  · simp only [toSpec, Spec.Store.setKey]
    congr 1
    funext key'
    exact hl key'

example := set_key_shape (N := Int) 100 (.num 7) (.bool true) () [.num 1] [(.null, .num 2)]
  (.bool true) rfl

/-- Reading: an array read at a number yields the element at the truncated index, at a
    dictionary key the bound value, and mysterious where there is nothing — as the
    specification's `getIdx` / `getKey` say. -/
theorem read_spec (s : List (Val N)) (d : List (Key × Val N)) :
    (∀ n, index (.arr s d) (.num n) = .ok (Spec.Store.getIdx .undef (toSpec s d) (toUSize n))) ∧
    (∀ k key, toKey k = some key →
      index (.arr s d) k = .ok (Spec.Store.getKey .undef (toSpec s d) key)) := by
  constructor
  · intro n
    rw [index_arr_num]
    simp only [Spec.Store.getIdx, toSpec]
    cases s[toUSize n]? <;> rfl
  · intro k key hk
    rw [index_arr_key _ _ _ _ hk]
    simp only [Spec.Store.getKey, toSpec]
    cases dlookup key d <;> rfl

/-- Missing element / missing key reads mysterious. -/
theorem read_missing (s : List (Val N)) (d : List (Key × Val N)) :
    (∀ n, s.length ≤ toUSize n → index (.arr s d) (.num n) = .ok .undef) ∧
    (∀ k key, toKey k = some key → dlookup key d = none → index (.arr s d) k = .ok .undef) := by
  constructor
  · intro n h
    rw [index_arr_num, List.getElem?_eq_none h]; rfl
  · intro k key hk hn
    rw [index_arr_key _ _ _ _ hk, hn]; rfl

example : index (.arr [.num (1 : Int)] []) (.num 5) = .ok .undef := rfl
example : index (.arr [.num (1 : Int)] []) (.str ['k']) = .ok .undef := rfl

/-! ## 4. rock -/

omit [NumOps N] in
/-- Rock: onto an array appends at the back (dictionary untouched); onto mysterious makes the
    array of the pushed values; onto any other scalar makes the scalar the first element. -/
theorem push_table (vs : List (Val N)) :
    (∀ s d, push (.arr s d) vs = .ok (.arr (s ++ vs) d)) ∧
    push (.undef : Val N) vs = .ok (.arr vs []) ∧
    (∀ x : Val N, x ≠ .undef → (∀ s d, x ≠ .arr s d) → push x vs = .ok (.arr ([x] ++ vs) [])) := by
  refine ⟨fun _ _ => rfl, rfl, ?_⟩
  intro x h1 h2
  cases x <;> first | rfl | exact absurd rfl h1 | exact absurd rfl (h2 _ _)

omit [NumOps N] in
/-- … and it is the specification's `push`. -/
theorem push_spec (s vs : List (Val N)) (d : List (Key × Val N)) :
    ∃ s', push (.arr s d) vs = .ok (.arr s' d) ∧
      toSpec s' d = Spec.Store.push (toSpec s d) vs :=
  ⟨s ++ vs, rfl, rfl⟩

example : push (.num (5 : Int)) [.num 6, .num 7] = .ok (.arr [.num 5, .num 6, .num 7] []) := rfl

/-! ## 5. roll is first-in first-out -/

omit [NumOps N] in
/-- Roll takes the first element of the sequence (dictionary untouched); on an empty sequence
    it yields mysterious and leaves the array as it is; on a non-array it is an error. -/
theorem pop_table :
    (∀ (x : Val N) xs d, pop (.arr (x :: xs) d) = .ok (x, .arr xs d)) ∧
    (∀ d, pop (.arr [] d : Val N) = .ok (.undef, .arr [] d)) ∧
    (∀ v : Val N, (∀ s d, v ≠ .arr s d) → pop v = .err (.invalidOp str% "pop" v)) := by
  refine ⟨fun _ _ _ => rfl, fun _ => rfl, ?_⟩
  intro v h
  cases v <;> first | rfl | exact absurd rfl (h _ _)

omit [NumOps N] in
/-- … and it is the specification's `pop`. -/
theorem pop_spec (s : List (Val N)) (d : List (Key × Val N)) :
    ∃ x s', pop (.arr s d) = .ok (x, .arr s' d) ∧
      Spec.Store.pop .undef (toSpec s d) = (x, toSpec s' d) :=
  toSpec_pop s d

/-- FIFO: popping `n` times from an array yields the first `n` elements of its sequence in
    order, padded with mysterious when the sequence runs out, and leaves the rest. -/
theorem popN_eq (n : Nat) (s : List (Val N)) (d : List (Key × Val N)) :
    popN n (.arr s d) =
      .ok (s.take n ++ List.replicate (n - s.length) .undef, .arr (s.drop n) d) :=
  popN_arr n s d

/-- … and iterated roll is the specification's iterated `pop`: any history of rocks and rolls
    on an array is the corresponding history on the abstract queue (with `push_spec`). -/
theorem popN_spec (n : Nat) (s : List (Val N)) (d : List (Key × Val N)) :
    ∃ xs s', popN n (.arr s d) = .ok (xs, .arr s' d) ∧
      Spec.Store.popN .undef n (toSpec s d) = (xs, toSpec s' d) :=
  toSpec_popN n s d

/-- FIFO for pushes: pushing `xs` (in one or several rocks) onto the empty array and then
    rolling `xs.length + m` times yields `xs` in push order, then `m` times mysterious. -/
theorem pop_after_push (xs ys : List (Val N)) (m : Nat) :
    ((push (emptyArr : Val N) xs).bind fun a => (push a ys).bind fun a' =>
        popN ((xs ++ ys).length + m) a')
      = .ok (xs ++ ys ++ List.replicate m .undef, .arr [] []) := by
  simp only [emptyArr, push_arr, Outcome.bind_ok, List.nil_append, popN_arr]
  simp [List.take_of_length_le]

example : popN 3 (.arr [.num (1 : Int), .num 2] []) = .ok ([.num 1, .num 2, .undef], .arr [] []) :=
  rfl

/-! ## 6. decay: an array counts as its sequence length -/

/-- `decay` of an array is its sequence length (the dictionary part does not count); printing
    an array prints that number. -/
theorem decay_print (s : List (Val N)) (d : List (Key × Val N)) :
    decay (.arr s d) = .num (ofNat s.length) ∧
    outputText (.arr s d) = fmt (ofNat s.length : N) ∧
    toOutput (.arr s d) = .ok (fmt (ofNat s.length : N)) := by
  refine ⟨rfl, rfl, ?_⟩
  rw [toOutput_eq]; rfl

/-- Comparing an array with a number compares its length with the number (both orders, also
    for equality); comparing with null compares the length with zero. -/
theorem decay_compare (s : List (Val N)) (d : List (Key × Val N)) (m : N) :
    Val.compare (.arr s d) (.num m) = .ok (cmp (ofNat s.length) m) ∧
    Val.compare (.num m) (.arr s d) = .ok (cmp m (ofNat s.length)) ∧
    equals (.arr s d) (.num m) = beq (ofNat s.length) m ∧
    equals (.num m) (.arr s d) = beq m (ofNat s.length) ∧
    Val.compare (.arr s d) (.null : Val N) = .ok (cmp (ofNat s.length) (zero : N)) ∧
    Val.compare (.null : Val N) (.arr s d) = .ok (cmp (zero : N) (ofNat s.length)) := by
  refine ⟨rfl, rfl, rfl, rfl, rfl, rfl⟩

/-- Arithmetic with a number uses the length. -/
theorem decay_arith (cap : Nat) (s : List (Val N)) (d : List (Key × Val N)) (m : N) :
    plus cap (.arr s d) (.num m) = .ok (.num (add (ofNat s.length) m)) ∧
    plus cap (.num m) (.arr s d) = .ok (.num (add m (ofNat s.length))) ∧
    subtract (.arr s d) (.num m) = .num (sub (ofNat s.length) m) ∧
    subtract (.num m) (.arr s d) = .num (sub m (ofNat s.length)) ∧
    multiply cap (.arr s d) (.num m) = .ok (.num (mul (ofNat s.length) m)) ∧
    multiply cap (.num m) (.arr s d) = .ok (.num (mul m (ofNat s.length))) ∧
    divide (.arr s d) (.num m) = .num (div (ofNat s.length) m) ∧
    divide (.num m) (.arr s d) = .num (div m (ofNat s.length)) := by
  refine ⟨rfl, rfl, rfl, rfl, rfl, rfl, rfl, rfl⟩

example : plus 100 (.arr [.str ['a'], .undef] [(.null, .num 1)]) (.num (40 : Int)) = .ok (.num 42) :=
  rfl

/-! ## 7. errors, and no crash -/

/-- Reading: something that is neither a text nor an array is not indexable; an array as
    subscript is an invalid key (of an array or a text); a text can only be read at a number. -/
theorem index_errors (v k : Val N) :
    ((∀ t, v ≠ .str t) → (∀ s d, v ≠ .arr s d) → index v k = .err (.notIndexable v)) ∧
    (∀ s d s' d', v = .arr s d → k = .arr s' d' → index v k = .err (.invalidKey k)) ∧
    (∀ t, v = .str t → (∀ n, k ≠ .num n) → index v k = .err (.invalidKey k)) := by
  refine ⟨?_, ?_, ?_⟩
  · intro h1 h2
    cases v <;> first | rfl | exact absurd rfl (h1 _) | exact absurd rfl (h2 _ _)
  · rintro s d s' d' rfl rfl; rfl
  · rintro t rfl h
    cases k <;> first | rfl | exact absurd rfl (h _)

/-- Writing through (any closure, any deeper path): a text is "index not assignable"; null, a
    boolean or a number is "not indexable"; in an array (or mysterious) an array as subscript,
    or a number that truncates to `usize::MAX`, is an invalid key. In each case the value is
    left as it was (up to mysterious → empty array). -/
theorem write_errors {β : Type} (cap : Nat) (f : Val N → VRes N (Val N × β)) (k : Val N)
    (ks : List (Val N)) :
    (∀ t, updateAt cap f (k :: ks) (.str t) = (.str t, .err (.indexNotAssignable k (.str t)))) ∧
    (∀ v : Val N, (v = .null ∨ (∃ b, v = .bool b) ∨ ∃ n, v = .num n) →
        updateAt cap f (k :: ks) v = (v, .err (.notIndexable v))) ∧
    (∀ a s' d', (a = .undef ∨ ∃ s d, a = .arr s d) → k = .arr s' d' →
        updateAt cap f (k :: ks) a = (vivify a, .err (.invalidKey k))) ∧
    (∀ a n, (a = .undef ∨ ∃ s d, a = .arr s d) → k = .num n → usizeMax ≤ toUSize n →
        updateAt cap f (k :: ks) a = (vivify a, .err (.invalidKey k))) := by
  refine ⟨fun t => updateAt_cons_str cap f k ks t, ?_, ?_, ?_⟩
  · intro v hv
    apply updateAt_cons_notIndexable
    rcases hv with rfl | ⟨b, rfl⟩ | ⟨n, rfl⟩
    · exact .inl rfl
    · exact .inr (.inl rfl)
    · exact .inr (.inr rfl)
  · rintro a s' d' ha rfl
    rw [updateAt_cons_vivify]
    obtain ⟨s, d, hv⟩ := (vivify_arr_iff a).mpr ha
    rw [hv, updateAt_cons_arrkey]
  · rintro a n ha rfl hmax
    rw [updateAt_cons_vivify]
    obtain ⟨s, d, hv⟩ := (vivify_arr_iff a).mpr ha
    rw [hv, updateAt_cons_num_max cap f n ks s d hmax]

example : (updateAt (N := Int) 100 (fun _ => .ok (.num 1, ())) [.num 0] (.str ['a'])).2
    = .err (.indexNotAssignable (.num 0) (.str ['a'])) := rfl
example : (updateAt (N := Int) (2^70) (fun _ => .ok (.num 1, ())) [.num (2^64)] .undef).2
    = .err (.invalidKey (.num (2^64))) := rfl

/-- The write path never crashes by itself: if the closure never crashes, no path, value, or
    budget makes `updateAt` answer `crash` — the `valIndexOverflow` site (`i + 1` overflowing,
    `get_mut(i).unchecked_unwrap()` on a missing cell) is unreachable. -/
theorem write_never_crashes {β : Type} (cap : Nat) (f : Val N → VRes N (Val N × β))
    (hf : ∀ c s, f c ≠ .crash s) (keys : List (Val N)) (v : Val N) (s : Site) :
    (updateAt cap f keys v).2 ≠ .crash s :=
  updateAt_no_crash cap f hf keys v s

/-- the closures the interpreter uses never crash: assignment, and every lifted value operation
    that returns (`split`, `join`, `cast`, roundings — C07) -/
example (x : Val Int) :
    ∀ (c : Val Int) s, (fun _ => (.ok (x, ()) : VRes Int (Val Int × Unit))) c ≠ .crash s := by
  intro c s h; cases h

omit [NumOps N] in
/-- Push never fails at all (the `unreachable_unchecked` after `array_coerce` is unreachable). -/
theorem push_total (v : Val N) (vs : List (Val N)) : ∃ s d, push v vs = .ok (.arr s d) := by
  cases v <;> exact ⟨_, _, rfl⟩

end

/-! ## 8. independence: a write through a variable changes that variable only

  Values are immutable in the model: a `Val` stored in a scope, passed to a function or put
  inside another array is a *copy by construction*; there is no sharing that a later write
  could reveal. What has to be shown is that the write machinery (`resolve`, `setVarIn`,
  `sset`) touches the binding of the one target variable and nothing else. That Rust's
  `Rc::make_mut` realises the same value semantics is what the differential correspondence check
  carries. -/

/- SCOPE NOTE. The frame is proved for `writeCell`, the single place where the interpreter
   stores into a variable (every writing statement ends there: `writeIdent`, `writeLhs`,
   `writeSubscript`, `writePrimary`), and at statement level for rock, roll (section 9) and
   cut / join / cast / turn (C07, section 5) on variables. NOT proved: one theorem quantifying
   over *all* statements and fuel ("executing any statement that writes through `x` leaves
   every `y` with another key unchanged"); it is false as such for statements that evaluate
   sub-expressions with side effects (a function call, a `roll` inside a subscript), so it needs
   the record/fuel invariant "the set of variables a run may change", which is out of scope
   here. -/

section frame
variable [CharOps] {N : Type} [NumOps N]
open Interp Env

/-- Frame, variable target: `writeCell w (.var x) keys` — any closure `w` (assignment, rock,
    roll, cut/join/cast, turn, increment), any subscript path, success or failure, `x` bound
    or created — leaves every variable and every function with another key as it was, records
    `x` as the pronoun target, and changes nothing else in the environment (input, output,
    budgets). -/
theorem writeCell_var_frame (w : Writer N) (x : VarName) (keys : List (Val N)) (env : Env N) :
    ∃ scopes',
      (writeCell w (.var x) keys env).2 = { env with last := some x, scopes := scopes' } ∧
      (∀ y : VarName, y.key ≠ x.key → lookupVarIn y scopes' = lookupVarIn y env.scopes) ∧
      (∀ y : VarName, y.key ≠ x.key → lookupFuncIn y scopes' = lookupFuncIn y env.scopes) := by
  rcases var_cases x env with ⟨cur, h⟩ | h | ⟨e, s, rest, h, hs, hn⟩ | ⟨e, s, rest, e', h, hs, hn⟩
  · rw [writeCell_var_bound w x keys env cur h]
    exact ⟨_, rfl, fun y hy => lookupVarIn_setVarIn_other x y _ _ hy,
      fun y hy => lookupFuncIn_setVarIn_other x y _ _ hy⟩
  · rw [writeCell_var_noscope w x keys env h]
    exact ⟨env.scopes, rfl, fun _ _ => rfl, fun _ _ => rfl⟩
  · rw [writeCell_var_create w x keys env e s rest h hs hn]
    refine ⟨_, rfl, fun y hy => ?_, fun y hy => ?_⟩
    · rw [lookupVarIn_setVarIn_other x y _ _ hy, lookupVarIn_sset_head_other x y _ s rest hy, hs]
    · rw [lookupFuncIn_setVarIn_other x y _ _ hy, lookupFuncIn_sset_head_other x y _ s rest hy, hs]
  · rw [writeCell_var_dup w x keys env e s rest e' h hs hn]
    exact ⟨env.scopes, rfl, fun _ _ => rfl, fun _ _ => rfl⟩

/-- What the target variable holds afterwards, bound case: the result of the write path on its
    old value (also when the write fails part-way: what `index_or_insert` did stays); the
    outcome reports the status of the write path. -/
theorem writeCell_var_value (w : Writer N) (x : VarName) (keys : List (Val N)) (env : Env N)
    (cur : Val N) (h : lookupVarIn x env.scopes = .ok cur) :
    (writeCell w (.var x) keys env).1 = cellOutcome (updateAt env.cap w keys cur).2 ∧
    lookupVarIn x (writeCell w (.var x) keys env).2.scopes = .ok (updateAt env.cap w keys cur).1 := by
  rw [writeCell_var_bound w x keys env cur h]
  exact ⟨rfl, lookupVarIn_setVarIn_same x _ cur _ h⟩

example :
    let _ := Interp.exampleCharOps
    lookupVarIn (N := Int) (.simple ['x']) [[(.simple ['x'], .var (.num 1))]] = .ok (.num 1) := rfl

/-- … created case: an unbound name not taken in the innermost scope starts as mysterious. -/
theorem writeCell_var_created (w : Writer N) (x : VarName) (keys : List (Val N)) (env : Env N)
    (e : RtErr N) (s : Scope N) (rest : List (Scope N))
    (h : lookupVarIn x env.scopes = .error e) (hs : env.scopes = s :: rest)
    (hn : slookup x.key s = none) :
    (writeCell w (.var x) keys env).1 = cellOutcome (updateAt env.cap w keys .undef).2 ∧
    lookupVarIn x (writeCell w (.var x) keys env).2.scopes
      = .ok (updateAt env.cap w keys .undef).1 := by
  rw [writeCell_var_create w x keys env e s rest h hs hn]
  exact ⟨rfl, lookupVarIn_setVarIn_same x _ .undef _ (lookupVarIn_sset_head_same x .undef s rest)⟩

example :
    let _ := Interp.exampleCharOps
    let env : Env Int := { scopes := [[], [(.simple ['x'], .var (.num 1))]] }
    lookupVarIn (.simple ['z'])
        (writeCell (assignW (.num 9)) (.var (.simple ['z'])) [.str ['k']] env).2.scopes
      = .ok (.arr [] [(.str ['k'], .num 9)]) := rfl

/-- Frame, pronoun target: with no pronoun target the environment is unchanged and the error is
    captured; with target `x`, every variable and function with another key is as it was, and
    only the scopes change. -/
theorem writeCell_pronoun_frame (w : Writer N) (keys : List (Val N)) (env : Env N) :
    (env.last = none →
      writeCell w .pronoun keys env = (.ok { res := .error .missingPronoun }, env)) ∧
    (∀ x, env.last = some x →
      ∃ scopes', (writeCell w .pronoun keys env).2 = { env with scopes := scopes' } ∧
        (∀ y : VarName, y.key ≠ x.key → lookupVarIn y scopes' = lookupVarIn y env.scopes) ∧
        (∀ y : VarName, y.key ≠ x.key → lookupFuncIn y scopes' = lookupFuncIn y env.scopes) ∧
        (∀ cur, lookupVarIn x env.scopes = .ok cur →
          (writeCell w .pronoun keys env).1 = cellOutcome (updateAt env.cap w keys cur).2 ∧
          lookupVarIn x scopes' = .ok (updateAt env.cap w keys cur).1)) := by
  refine ⟨writeCell_pronoun_none w keys env, ?_⟩
  intro x hx
  cases hc : lookupVarIn x env.scopes with
  | ok cur =>
    rw [writeCell_pronoun_bound w x keys env cur hx hc]
    refine ⟨_, rfl, fun y hy => lookupVarIn_setVarIn_other x y _ _ hy,
      fun y hy => lookupFuncIn_setVarIn_other x y _ _ hy, ?_⟩
    intro cur' hcur
    cases hcur
    exact ⟨rfl, lookupVarIn_setVarIn_same x _ cur _ hc⟩
  | error e =>
    rw [writeCell_pronoun_unbound w x keys env e hx hc]
    refine ⟨env.scopes, rfl, fun _ _ => rfl, fun _ _ => rfl, ?_⟩
    intro cur hcur; cases hcur

example :
    let _ := Interp.exampleCharOps
    let env : Env Int :=
      { scopes := [[(.simple ['x'], .var (.num 1)), (.simple ['y'], .var (.num 2))]],
        last := some (.simple ['X']) }
    let env' := (writeCell (assignW (.num 9)) .pronoun [] env).2
    lookupVarIn (.simple ['x']) env'.scopes = .ok (.num 9) ∧
    lookupVarIn (.simple ['y']) env'.scopes = .ok (.num 2) := ⟨rfl, rfl⟩

end frame


/-! ## 9. the rock and roll statements on a variable

  Stated for the real interpreter one level up (`mkRec rec0`, i.e. `interp (k+1)`), relative to
  what evaluating the pushed expressions returns. `env.steps = n + 1`: the step budget is not
  exhausted. -/

section statements
open Interp Env

/-- `rock x with e₁, e₂, …` on a bound variable: the expressions are evaluated first (left to
    right, by `evalArgs`), then `x` becomes `push cur vals` — always an array, see `push_table` —
    and every other variable reads as before. The statement cannot fail once the expressions
    are evaluated. -/
theorem rock_statement [co : CharOps] {N : Type} [NumOps N] (rec0 : Rec N) (x : VarName)
    (rx : Range) (l : ExprList N) (st : ExecSt N) (env env2 : Env N) (n : Nat)
    (vals : List (Val N)) (cur : Val N)
    (hsteps : env.steps = n + 1)
    (hargs : evalArgs (mkRec rec0) l.toList { env with steps := n } = (.ok vals, env2))
    (hx : lookupVarIn x env2.scopes = .ok cur) :
    ∃ scopes3 s d,
      execStmt (mkRec rec0) (.push (.ident (.var x) rx) (some (.list l))) st env
        = (.ok st, { env2 with last := some x, scopes := scopes3 }) ∧
      push cur vals = .ok (.arr s d) ∧
      lookupVarIn x scopes3 = .ok (.arr s d) ∧
      (∀ z : VarName, z.key ≠ x.key → lookupVarIn z scopes3 = lookupVarIn z env2.scopes) := by
  obtain ⟨s, d, hpush⟩ := push_total cur vals
  have hrun : execStmt (mkRec rec0) (.push (.ident (.var x) rx) (some (.list l))) st env =
      ((fatal (writeCell (liftW fun v => Val.push v vals) (.var x) []) >>= fun _ => pure st)
        env2) := by
    rw [execStmt_push_list_eq, M_bind_ok _ _ _ _ _ (tick_succ env n hsteps),
      M_bind_ok _ _ _ _ _ hargs]
    rfl
  rw [hrun]
  have hw := writeCell_var_bound (liftW fun v => Val.push v vals) x [] env2 cur hx
  rw [updateAt_liftW_nil_ok env2.cap (fun v => Val.push v vals) cur _ hpush] at hw
  refine ⟨setVarIn x (.arr s d) env2.scopes, s, d, ?_, hpush,
    lookupVarIn_setVarIn_same x _ cur _ hx,
    fun z hz => lookupVarIn_setVarIn_other x z _ _ hz⟩
  rw [M_bind_ok _ _ _ _ _ (fatal_run _ _ _ _ hw)]
  rfl

attribute [local instance] exampleCharOps in
/-- `rock x with 6, 7` where `x` is the number 5 -/
example := rock_statement (N := Int) (mkRec bottom) (.simple ['x']) default
  ⟨.prim (.lit (.num 6) default), [.prim (.lit (.num 7) default)]⟩ {}
  { scopes := [[(.simple ['x'], .var (.num 5))]] } _ 99999 _ _ rfl rfl rfl
example :
    let _ := exampleCharOps
    let env : Env Int := { scopes := [[(.simple ['x'], .var (.num 5))]] }
    let l : ExprList Int := ⟨.prim (.lit (.num 6) default), [.prim (.lit (.num 7) default)]⟩
    lookupVarIn (.simple ['x'])
      (execStmt (interp 3) (.push (.ident (.var (.simple ['x'])) default) (some (.list l))) {}
        env).2.scopes = .ok (.arr [.num 5, .num 6, .num 7] []) := rfl

/-- `roll x into y` on a variable holding an array (`y` another, bindable variable): `y`
    receives the first element of the sequence (mysterious if the sequence is empty), `x` keeps
    the rest (and its dictionary part), every other variable reads as before. -/
theorem roll_statement_into [co : CharOps] {N : Type} [NumOps N] (rec0 : Rec N) (x y : VarName)
    (rx ry : Range) (st : ExecSt N) (env : Env N) (n : Nat) (s : List (Val N))
    (d : List (Key × Val N))
    (hsteps : env.steps = n + 1)
    (hx : lookupVarIn x env.scopes = .ok (.arr s d))
    (hxy : y.key ≠ x.key)
    (hy : (∃ c, lookupVarIn y env.scopes = .ok c) ∨
          (∃ e sc rest, lookupVarIn y env.scopes = .error e ∧ env.scopes = sc :: rest ∧
            slookup y.key sc = none)) :
    ∃ scopes',
      execStmt (mkRec rec0) (.pop (.ident (.var x) rx) (some (.ident (.var y) ry))) st env
        = (.ok st, { env with steps := n, last := some y, scopes := scopes' }) ∧
      lookupVarIn y scopes' = .ok (s.head?.getD .undef) ∧
      lookupVarIn x scopes' = .ok (.arr s.tail d) ∧
      (∀ z : VarName, z.key ≠ x.key → z.key ≠ y.key →
        lookupVarIn z scopes' = lookupVarIn z env.scopes) := by
  -- the pop
  have hx1 : lookupVarIn x ({ env with steps := n } : Env N).scopes = .ok (.arr s d) := hx
  have hw := writeCell_var_bound popW x [] { env with steps := n } (.arr s d) hx1
  have hupd : Val.updateAt ({ env with steps := n } : Env N).cap popW [] (.arr s d)
      = (.arr s.tail d, .ok (some (s.head?.getD .undef))) := by
    cases s <;> rfl
  rw [hupd] at hw
  let env1 : Env N := { env with steps := n, last := some x,
                                 scopes := setVarIn x (.arr s.tail d) env.scopes }
  have hpop : evalPop (mkRec rec0) (.ident (.var x) rx) { env with steps := n }
      = (.ok (s.head?.getD .undef), env1) := by
    rw [evalPop_eq]
    have : (mkRec rec0).writePrimary popW (.ident (.var x) rx) { env with steps := n }
        = (cellOutcome (.ok (some (s.head?.getD .undef))), env1) := hw
    rw [M_bind_ok _ _ _ _ _ this]
    rfl
  have hrun : execStmt (mkRec rec0) (.pop (.ident (.var x) rx) (some (.ident (.var y) ry))) st env
      = ((fatal (writeCell (assignW (s.head?.getD .undef)) (.var y) []) >>= fun _ => pure st)
          env1) := by
    rw [execStmt_pop_eq, M_bind_ok _ _ _ _ _ (tick_succ env n hsteps),
      M_bind_ok _ _ _ _ _ hpop]
    rfl
  rw [hrun]
  have hxs : lookupVarIn x env1.scopes = .ok (.arr s.tail d) :=
    lookupVarIn_setVarIn_same x _ _ _ hx
  have hfr : ∀ z : VarName, z.key ≠ x.key → lookupVarIn z env1.scopes = lookupVarIn z env.scopes :=
    fun z hz => lookupVarIn_setVarIn_other x z _ _ hz
  rcases hy with ⟨c, hc⟩ | ⟨e, sc, rest, he, hs, hn⟩
  · have hc1 : lookupVarIn y env1.scopes = .ok c := by rw [hfr y hxy]; exact hc
    have hw2 := writeCell_var_bound (assignW (s.head?.getD .undef)) y [] env1 c hc1
    rw [updateAt_assignW_nil] at hw2
    refine ⟨setVarIn y (s.head?.getD .undef) env1.scopes, ?_,
      lookupVarIn_setVarIn_same y _ c _ hc1, ?_, ?_⟩
    · rw [M_bind_ok _ _ _ _ _ (fatal_run _ _ _ _ hw2)]
      rfl
    · rw [lookupVarIn_setVarIn_other y x _ _ (Ne.symm hxy)]; exact hxs
    · intro z hzx hzy
      rw [lookupVarIn_setVarIn_other y z _ _ hzy]; exact hfr z hzx
  · -- `y` unbound: the innermost scope of `env1` is that of `env` with `x` possibly rewritten
    have he1 : lookupVarIn y env1.scopes = .error e := by rw [hfr y hxy]; exact he
    have hhead : ∃ sc1 rest1, env1.scopes = sc1 :: rest1 ∧ slookup y.key sc1 = none := by
      show ∃ sc1 rest1, setVarIn x (.arr s.tail d) env.scopes = sc1 :: rest1 ∧
        slookup y.key sc1 = none
      rw [hs]
      simp only [setVarIn]
      cases hsl : slookup x.key sc with
      | some _ =>
        exact ⟨_, _, rfl, by rw [slookup_sset_other _ _ _ _ hxy]; exact hn⟩
      | none => exact ⟨sc, _, rfl, hn⟩
    obtain ⟨sc1, rest1, hs1, hn1⟩ := hhead
    have hw2 := writeCell_var_create (assignW (s.head?.getD .undef)) y [] env1 e sc1 rest1 he1
      hs1 hn1
    rw [updateAt_assignW_nil] at hw2
    refine ⟨setVarIn y (s.head?.getD .undef) (sset y.key (.var .undef) sc1 :: rest1), ?_,
      lookupVarIn_setVarIn_same y _ .undef _ (lookupVarIn_sset_head_same y .undef sc1 rest1),
      ?_, ?_⟩
    · rw [M_bind_ok _ _ _ _ _ (fatal_run _ _ _ _ hw2)]
      rfl
    · rw [lookupVarIn_setVarIn_other y x _ _ (Ne.symm hxy),
        lookupVarIn_sset_head_other y x _ sc1 rest1 (Ne.symm hxy), ← hs1]
      exact hxs
    · intro z hzx hzy
      rw [lookupVarIn_setVarIn_other y z _ _ hzy,
        lookupVarIn_sset_head_other y z _ sc1 rest1 hzy, ← hs1]
      exact hfr z hzx

attribute [local instance] exampleCharOps in
/-- `roll x into y` where `x` is `[1, 2]` and `y` is new -/
example := roll_statement_into (N := Int) bottom (.simple ['x']) (.simple ['y']) default default {}
  { scopes := [[(.simple ['x'], .var (.arr [.num 1, .num 2] []))]] } 99999 _ _ rfl rfl
  (by decide) (.inr ⟨_, _, _, rfl, rfl, rfl⟩)
example :
    let _ := exampleCharOps
    let env : Env Int := { scopes := [[(.simple ['x'], .var (.arr [.num 1, .num 2] []))]] }
    let env' := (execStmt (interp 2)
      (.pop (.ident (.var (.simple ['x'])) default) (some (.ident (.var (.simple ['y'])) default)))
      {} env).2
    lookupVarIn (.simple ['x']) env'.scopes = .ok (.arr [.num 2] []) ∧
    lookupVarIn (.simple ['y']) env'.scopes = .ok (.num 1) := ⟨rfl, rfl⟩

/-- Roll of something that is not an array is a fatal error of the statement, not a crash
    (`back.unchecked_unwrap()` is not reached), and the variable keeps its value. -/
theorem roll_non_array [co : CharOps] {N : Type} [NumOps N] (rec0 : Rec N) (x : VarName)
    (rx : Range) (dest : Option (Lhs N)) (st : ExecSt N) (env : Env N) (n : Nat) (cur : Val N)
    (hsteps : env.steps = n + 1)
    (hx : lookupVarIn x env.scopes = .ok cur) (hcur : ∀ s d, cur ≠ .arr s d) :
    ∃ scopes',
      execStmt (mkRec rec0) (.pop (.ident (.var x) rx) dest) st env
        = (.err (.val (.invalidOp str% "pop" cur)),
           { env with steps := n, last := some x, scopes := scopes' }) ∧
      (∀ z : VarName, lookupVarIn z scopes' = lookupVarIn z env.scopes) := by
  have hx1 : lookupVarIn x ({ env with steps := n } : Env N).scopes = .ok cur := hx
  have hw := writeCell_var_bound popW x [] { env with steps := n } cur hx1
  have hupd : Val.updateAt ({ env with steps := n } : Env N).cap popW [] cur
      = (cur, .err (.invalidOp str% "pop" cur)) := by
    cases cur <;> first | rfl | exact absurd rfl (hcur _ _)
  rw [hupd] at hw
  refine ⟨setVarIn x cur env.scopes, ?_, fun z => lookupVarIn_setVarIn_self x z cur _ hx⟩
  rw [execStmt_pop_eq, M_bind_ok _ _ _ _ _ (tick_succ env n hsteps)]
  have hpop : evalPop (mkRec rec0) (.ident (.var x) rx) { env with steps := n }
      = (.err (.val (.invalidOp str% "pop" cur)),
         { env with steps := n, last := some x, scopes := setVarIn x cur env.scopes }) := by
    rw [evalPop_eq]
    have : (mkRec rec0).writePrimary popW (.ident (.var x) rx) { env with steps := n }
        = (cellOutcome (.err (.invalidOp str% "pop" cur)),
           { env with steps := n, last := some x, scopes := setVarIn x cur env.scopes }) := hw
    rw [M_bind_ok _ _ _ _ _ this]
    rfl
  rw [M_bind_err _ _ _ _ _ hpop]

attribute [local instance] exampleCharOps in
/-- `roll x` where `x` is a text -/
example := roll_non_array (N := Int) bottom (.simple ['x']) default none {}
  { scopes := [[(.simple ['x'], .var (.str ['a']))]] } 99999 _ rfl rfl (by simp)

end statements

/-! ### non-vacuity of the frame theorems: two variables, `y` a copy of `x`, write through `y` -/

section
attribute [local instance] Interp.exampleCharOps
open Interp Env

example :
    let a : Val Int := .arr [.num 1, .num 2] []
    let env : Env Int := { scopes := [[(.simple ['x'], .var a), (.simple ['y'], .var a)]] }
    let env' := (writeCell (assignW (.num 9)) (.var (.simple ['Y'])) [.num 3] env).2
    lookupVarIn (.simple ['x']) env'.scopes = .ok a ∧
    lookupVarIn (.simple ['y']) env'.scopes = .ok (.arr [.num 1, .num 2, .undef, .num 9] []) :=
  ⟨rfl, rfl⟩

end
end Rrss.C06
