/-
  Rrss.Thm.C17 — the constant folders only report values the interpreter would compute.

  Folders: `Fold.numExpr` / `Fold.strExpr` (and the top-level list versions `Fold.numList` /
  `Fold.strList`), mirrors of `NumericConstantFolder` / `SimpleStringConstantFolder`
  (src/analysis/tools.rs). Interpreter: `Interp.interp n` (fuel `n` = evaluation depth).
  Syntactic classes `Const`, `Reads` and the measure `Expr.depth`: Rrss/Spec/ConstExpr.lean.

  Arithmetic is uninterpreted: every theorem holds for every number type `N` with `NumOps N`
  (the folder and `Val.plus/subtract/multiply/divide/negate` call the same `NumOps` functions).

  Poetic literals are not expressions in this syntax tree: they occur only as the right-hand
  sides `PoeticRhs.lit` / `PushRhs.lit`, which the folders are never asked about
  (`Lint.boringPoetic` / `Lint.boringPush` deliberately answer "no diagnostic" for them; C18).
-/
import Rrss.Lemmas.FoldSound
import Rrss.NumInt
namespace Rrss
namespace C17
open Interp

/-! ### the running example: `1 + 2 * [3, 4]` over `N := Int` -/

private def r0 : Range := ⟨⟨1, 0⟩, ⟨1, 1⟩⟩
private def lit (x : Int) : Expr Int := .prim (.lit (.num x) r0)
/-- `1 + 2 * [3, 4]` (the right operand of `*` is the list `3, 4`) -/
private def ex1 : Expr Int := .bin .plus (lit 1) (.bin .multiply (lit 2) (lit 3) [lit 4]) []
/-- `1 + X` -/
private def ex2 : Expr Int := .bin .plus (lit 1) (.prim (.ident (.var (.simple (str% "X"))) r0)) []

section
variable [CharOps] {N : Type} [NumOps N]

/-- **Soundness, numeric, exact form.** If the numeric folder reports `x` for `e`, then
    evaluating `e` with fuel `n` in ANY environment `env` gives: the number `x` if
    `n ≥ e.depth`, and "out of fuel" otherwise — and in both cases the environment that comes
    back is `env` itself, unchanged in every component (variables, pronoun, input, output,
    write budget, step budget, size cap). No other outcome (error, crash, other value) exists. -/
theorem numExpr_sound_exact (e : Expr N) (x : N) (h : Fold.numExpr e = .ok x)
    (n : Nat) (env : Env N) :
    (interp n).evalExpr e env = (if e.depth ≤ n then .ok (.num x) else .fuel, env) :=
  FoldSound.numExpr_exact e x h n env

example : Fold.numExpr ex1 = .ok 25 := rfl
example [CharOps] (env : Env Int) : (interp 10).evalExpr ex1 env = (.ok (.num 25), env) := rfl
example [CharOps] (env : Env Int) : (interp 3).evalExpr ex1 env = (.fuel, env) := rfl

/-- **Soundness, numeric.** If the numeric folder reports `x` for `e`, then for every fuel and
    every environment the interpreter either runs out of fuel or yields exactly `num x`; in
    both cases the entire environment is left untouched. -/
theorem numExpr_sound (e : Expr N) (x : N) (h : Fold.numExpr e = .ok x) (n : Nat) (env : Env N) :
    (interp n).evalExpr e env = (.fuel, env) ∨ (interp n).evalExpr e env = (.ok (.num x), env) := by
  rw [FoldSound.numExpr_exact e x h n env]
  exact FoldSound.expected_cases _ _ _ _

/-- **Fuel sufficiency, numeric.** If the numeric folder reports `x` for `e`, then with any fuel
    `n ≥ e.depth` the interpreter yields exactly `num x` and leaves the environment untouched. -/
theorem numExpr_sound_enough_fuel (e : Expr N) (x : N) (h : Fold.numExpr e = .ok x) :
    ∃ n₀, ∀ n, n₀ ≤ n → ∀ env : Env N, (interp n).evalExpr e env = (.ok (.num x), env) :=
  ⟨e.depth, fun n hn env => by
    rw [FoldSound.numExpr_exact e x h n env]; exact FoldSound.expected_of_le hn _ _⟩

example : ex1.depth = 4 := by decide

/-- **Soundness, string, exact form.** If the string folder reports `s` for `e`, evaluating `e`
    with fuel `n` in any environment gives the string `s` if `n ≥ e.depth` and "out of fuel"
    otherwise; the environment is returned unchanged. -/
theorem strExpr_sound_exact (e : Expr N) (s : Str) (h : Fold.strExpr e = .ok s)
    (n : Nat) (env : Env N) :
    (interp n).evalExpr e env = (if e.depth ≤ n then .ok (.str s) else .fuel, env) :=
  FoldSound.strExpr_exact e s h n env

example : Fold.strExpr (.prim (.lit (.str (str% "hi")) r0) : Expr Int) = .ok (str% "hi") := rfl
example [CharOps] (env : Env Int) :
    (interp 2).evalExpr (.prim (.lit (.str (str% "hi")) r0)) env = (.ok (.str (str% "hi")), env) := rfl

/-- **Soundness, string.** If the string folder reports `s` for `e`, the interpreter either runs
    out of fuel or yields exactly `str s`, leaving the environment untouched. -/
theorem strExpr_sound (e : Expr N) (s : Str) (h : Fold.strExpr e = .ok s) (n : Nat) (env : Env N) :
    (interp n).evalExpr e env = (.fuel, env) ∨ (interp n).evalExpr e env = (.ok (.str s), env) := by
  rw [FoldSound.strExpr_exact e s h n env]
  exact FoldSound.expected_cases _ _ _ _

/-- **Fuel sufficiency, string.** -/
theorem strExpr_sound_enough_fuel (e : Expr N) (s : Str) (h : Fold.strExpr e = .ok s) :
    ∃ n₀, ∀ n, n₀ ≤ n → ∀ env : Env N, (interp n).evalExpr e env = (.ok (.str s), env) :=
  ⟨e.depth, fun n hn env => by
    rw [FoldSound.strExpr_exact e s h n env]; exact FoldSound.expected_of_le hn _ _⟩

omit [CharOps] [NumOps N] in
/-- The string folder accepts exactly the plain string literals. -/
theorem strExpr_ok_iff (e : Expr N) (s : Str) :
    Fold.strExpr e = .ok s ↔ ∃ r, e = .prim (.lit (.str s) r) :=
  FoldSound.strExpr_ok_iff e s

end

section
variable {N : Type} [NumOps N]

/-- **Completeness.** Every expression built solely from number literals, unary minus and
    `+ − × ÷` (with list right operands) folds to a number. -/
theorem numExpr_complete (e : Expr N) (h : Const e) : ∃ x, Fold.numExpr e = .ok x :=
  FoldSound.numExpr_of_const h

example : Const ex1 :=
  .bin rfl (.lit _ _) (.bin rfl (.lit _ _) (.lit _ _) (by
    intro e he
    cases he with
    | head => exact .lit _ _
    | tail _ h => cases h)) (by intro e he; cases he)

/-- **Completeness is exact**: the numeric folder reports a value for `e` if AND ONLY IF `e` is
    built solely from number literals, unary minus and `+ − × ÷`. -/
theorem numExpr_ok_iff_const (e : Expr N) : (∃ x, Fold.numExpr e = .ok x) ↔ Const e :=
  ⟨fun ⟨x, h⟩ => FoldSound.const_of_numExpr e x h, FoldSound.numExpr_of_const⟩

/-- **No false constants.** An expression that contains a variable, a pronoun, an array
    subscript, a function call or a pop anywhere is reported as constant by neither folder. -/
theorem no_false_constants (e : Expr N) (h : Reads e) :
    (∃ err, Fold.numExpr e = .error err) ∧ (∃ err, Fold.strExpr e = .error err) :=
  ⟨FoldSound.numExpr_error_of_reads h, FoldSound.strExpr_error_of_reads h⟩

example : Reads ex2 := .binFirst (.prim (.ident _ _))
example : Fold.numExpr ex2 = .error .unknownValue := rfl

/-- **Top-level lists, one element**: the list folds as its only expression (both folders). -/
theorem list_single (l : ExprList N) (h : l.rest = []) :
    Fold.numList l = Fold.numExpr l.first ∧ Fold.strList l = Fold.strExpr l.first :=
  ⟨FoldSound.numList_single l h, FoldSound.strList_single l h⟩

example : (⟨ex1, []⟩ : ExprList Int).rest = [] := rfl

/-- **Top-level lists, several elements**: both folders answer `needMoreInfo`, never a value. -/
theorem list_many (l : ExprList N) (h : l.rest ≠ []) :
    Fold.numList l = .error .needMoreInfo ∧ Fold.strList l = .error .needMoreInfo :=
  ⟨FoldSound.numList_many l h, FoldSound.strList_many l h⟩

example : (⟨ex1, [ex2]⟩ : ExprList Int).rest ≠ [] := by simp

end

section
variable [CharOps] {N : Type} [NumOps N]

/-- **Soundness for top-level lists (numeric).** If `numList` reports `x` for the list `l`, then
    `l` has exactly one element and evaluating it gives `num x` (or runs out of fuel) without
    touching the environment — this is the expression a plain assignment `Put l into …`
    evaluates (`execStmt` rejects longer lists with `listInvalid`). -/
theorem numList_sound (l : ExprList N) (x : N) (h : Fold.numList l = .ok x) :
    l.rest = [] ∧ ∀ (n : Nat) (env : Env N),
      (interp n).evalExpr l.first env = (if l.first.depth ≤ n then .ok (.num x) else .fuel, env) := by
  obtain ⟨h1, h2⟩ := (FoldSound.numList_ok_iff l x).mp h
  exact ⟨h1, FoldSound.numExpr_exact l.first x h2⟩

example : Fold.numList (⟨ex1, []⟩ : ExprList Int) = .ok 25 := rfl

/-- **Soundness for top-level lists (string).** -/
theorem strList_sound (l : ExprList N) (s : Str) (h : Fold.strList l = .ok s) :
    l.rest = [] ∧ ∀ (n : Nat) (env : Env N),
      (interp n).evalExpr l.first env = (if l.first.depth ≤ n then .ok (.str s) else .fuel, env) := by
  obtain ⟨h1, h2⟩ := (FoldSound.strList_ok_iff l s).mp h
  exact ⟨h1, FoldSound.strExpr_exact l.first s h2⟩

example : Fold.strList (⟨.prim (.lit (.str (str% "hi")) r0), []⟩ : ExprList Int) = .ok (str% "hi") := rfl

end
end C17
end Rrss
