/-
  Rrss.Thm.C02Text — property C02 at the level of CHARACTER STRINGS: the composition of the
  token-level round trip of the parser (Rrss/Thm/C02.lean) with a round trip of the lexer.

  Setting (Rrss/Spec/Spelling.lean, an independent specification). A text is written down as a
  list of `Piece`s, each preceded by a separator, plus a trailing separator (`spell items e`).
  A piece is: a keyword (one of the 128 promised alias words with a per-letter casing choice), a
  symbol alias (`+ - * / < <= > >= & , .`), a variable-name word (ASCII letters, not an alias in
  any casing), a number literal (starts with a digit; letters, digits, `.`), a string literal
  (no `"` inside; line feeds allowed), a line feed, a comment `( … )` (no `)` inside), the
  separator `'n'` / `'N'`, a suffix `'s` / `'re` in any casing.  A separator is any run of
  blanks/tabs and of the 19 ignored punctuation characters that start no token (`noiseChars`); it
  may be EMPTY wherever `glueOK` allows (`x,2`, `"a""b"`, `5+x`, `'n'2`; not `x y`, `x 2`, `2 x`,
  `2.`, `.5`, `..`, `x'n'`); a suffix is always glued to a keyword, a name, a number or a string
  literal (`x's`, `it's`, `5's`, `"a"'re`) and followed by a separator, a symbol, a string, a line
  feed or a comment; the only condition on a non-empty separator is that it does not start with
  `=` right after `<` / `>` (`spellOK`, decidable).
  `Piece.expect` is the token a piece stands for: kind (from the promised table / `Word` /
  `Number` / …), spelling (exactly the characters of the piece), number payload
  (`NumOps.parse` of the text), text payload (contents of strings and comments).

  Hypotheses, all true of the Rust std / of the real table, all met by the concrete instances
  (examples below): `SpellLaws` (what `char::is_alphabetic/is_numeric/is_whitespace/to_lowercase`
  do on ASCII), `hdot` (`"."` is not a number), `hkw` (the keyword table is the promised table),
  `hlen` (the text is shorter than 4 GiB), `hnum` (every number literal of the text parses).

  NOT included (no piece for them): names with non-ASCII letters, numbers starting with `.`,
  non-ASCII white space, apostrophes dropped inside or after words.  In `C02_text`: programs
  without poetic literals / poetic strings / `rock … like` / a bare `break` / `X is -5`
  (`progPlain false`; for those the parser reads source text or token spellings beyond what the
  tokens fix); `C02_text` is about the spellings in which every top-level block is closed by a
  blank line (`progToks`), `C02_text_at_eof` about those that end with the input (`progToksD d`).
  (Helper lemmas: Rrss/Lemmas/LexRoundTrip.lean, Relabel.lean, SpellCompose.lean, SpellExamples.lean.)
-/
import Rrss.Lemmas.SpellExamples
namespace Rrss
namespace C02Text
open Lexer Parser Grammar Spelling

/- FULL STATEMENT (not proved): for EVERY program `bs` of Spec/Grammar.lean, every choice `c` and
   every way of writing the tokens `progToks bs c` (or `progToksD d bs c`) down as characters that
   the language allows, `parseProgram kw text = .ok p` with `p.code.map eraseB = progToAst bs`.
   `C02_text` / `C02_text_at_eof` below prove it for the texts of Spec/Spelling.lean and the programs
   with `progPlain false`.  What is missing:
   * programs with poetic number literals, poetic strings (`X says …`), `rock … like`, `X is -5`, a
     bare `break`: there `progFits` relates template tokens to the SOURCE TEXT (`lineText`, the
     spelling `-` of the hyphen, the spelling of the token after `break`); it holds for lexed
     tokens by C12 (spellings are source slices), but that composition is not done here;
   * spellings outside Spec/Spelling.lean: non-ASCII letters in names and keywords (the Kelvin
     sign in `KNOCK`, C15), non-ASCII white space, numbers that start with `.`, apostrophes that the
     lexer drops (`x' y`, `ain''t`), `'n'` right after a number / string, the characters `_` and
     other error tokens (no program contains them);
   * `hnum`/`hdot` are hypotheses on `NumOps.parse` (the number type is abstract).
   Inherent limits found on the way (not gaps of the proof): see the report (a number followed
   directly by the `.` that ends a statement is read as part of the number: `say 5.5.`). -/

section
variable {N : Type} [CharOps] [NumOps N]

/-- **Lexer round trip.** Every admissible text (`spellOK`: well-formed pieces, admissible
    separators — any blank runs, ignored punctuation, comments between tokens, any keyword alias
    in any letter case) lexes, and `lexAll` returns exactly one token per piece, in order, nothing
    else: the token of the `i`-th piece has the kind the piece stands for (the kind the promised
    table gives the alias; `Word`; `Number`; `StringLiteral`; `Newline`; `Comment`; the symbol's
    kind; `ApostropheS` / `ApostropheRE` / `ApostropheNApostrophe`), its spelling is exactly the
    text of the piece, its number payload is `parse` of the text (numbers) and its text payload the
    contents (strings, comments). -/
theorem lex_spell (laws : SpellLaws) (hdot : (NumOps.parse ['.'] : Option N) = none)
    (kw : List (Str × TK)) (hkw : ∀ w, kw.lookup w = Spec.promised.lookup w)
    (items : List (Sep × Piece)) (e : Sep)
    (hlen : ulen (spell items e) < 2 ^ 32) (hok : spellOK none items e = true)
    (hnum : ∀ x ∈ items, x.2.kind = .number → (x.2.numOf : Option N).isSome = true) :
    ∃ ts : List (Tok N), lexAll kw (spell items e) = .ok ts ∧
      ts.map tview = items.map (fun x => (x.2.expect : TK × Str × Option N × Str)) :=
  lexAll_spell laws hdot kw hkw items e hlen hok hnum

/-- non-vacuity: the ASCII tables, the tables generated from the Rust std, the integer numbers and
    both keyword tables meet the hypotheses; so does the second example text (mixed case, other
    aliases, `'S` for `is`, `'N'` between the arguments, blank runs, ignored punctuation,
    comments) — it lexes to 24 tokens, two of them comments. -/
example : @SpellLaws asciiOps ∧ @SpellLaws charOpsImpl ∧ (numOpsInt.parse ['.'] : Option Int) = none ∧
    (∀ w, List.lookup w defaultKeywords = List.lookup w Spec.promised) ∧
    (∀ w, List.lookup w Generated.keywords = List.lookup w Spec.promised) :=
  ⟨spellLaws_asciiOps, spellLaws_charOpsImpl, parseInt_dot, defaultKeywords_eq_promised,
    keywords_eq_promised⟩
example : spell SpellEx.items2 [' '] =
    str% "\n(set\nup) PuT  \t1 in x;\nIF x'S  Stronger\tthan 0 ?!\n  Shout f TAKING x 'N'2 (two arguments)\n\n \n " := by
  decide +kernel
example : ∃ ts : List (Tok Int),
    @lexAll Int asciiOps numOpsInt defaultKeywords (spell SpellEx.items2 [' ']) = .ok ts ∧
    ts.map (·.kind) = [.newline, .comment, .put, .number, .into, .word, .newline, .if_, .word,
      .apostropheS, .bigger, .than, .number, .newline, .sayAlias, .word, .taking, .word,
      .apostropheNApostrophe, .number, .comment, .newline, .newline, .newline] := by
  obtain ⟨ts, h1, h2⟩ := @lex_spell Int asciiOps numOpsInt spellLaws_asciiOps parseInt_dot
    defaultKeywords defaultKeywords_eq_promised SpellEx.items2 [' '] (by decide +kernel)
    (by decide +kernel) (by decide +kernel)
  refine ⟨ts, h1, ?_⟩
  have : ts.map (·.kind) = (ts.map tview).map (·.1) := by simp [tview, List.map_map, Function.comp_def]
  rw [this, h2]
  decide +kernel

/-- **Lexer round trip, plain stage.** Well-formed pieces written with single spaces between them
    (`plain`; nothing before the first, nothing after the last piece) lex to their tokens — whatever
    the pieces are, except suffixes (which are glued): a single space is always enough. -/
theorem lex_spell_plain (laws : SpellLaws) (hdot : (NumOps.parse ['.'] : Option N) = none)
    (kw : List (Str × TK)) (hkw : ∀ w, kw.lookup w = Spec.promised.lookup w)
    (ps : List Piece) (hwf : ∀ p ∈ ps, p.wf = true ∧ p.isSuffix = false)
    (hlen : ulen (spell (plain ps) []) < 2 ^ 32)
    (hnum : ∀ p ∈ ps, p.kind = .number → (p.numOf : Option N).isSome = true) :
    ∃ ts : List (Tok N), lexAll kw (spell (plain ps) []) = .ok ts ∧
      ts.map tview = ps.map (fun p => (p.expect : TK × Str × Option N × Str)) :=
  lexAll_spell_plain laws hdot kw hkw ps hwf hlen hnum

/-- non-vacuity: the first example text, `put 1 into x ⏎ if x is greater than 0 ⏎ say f taking x , 2 ⏎ ⏎ ⏎` -/
example : spell (plain SpellEx.pieces1) [] =
    str% "put 1 into x \n if x is greater than 0 \n say f taking x , 2 \n \n \n" := by decide +kernel
example : ∃ ts : List (Tok Int),
    @lexAll Int asciiOps numOpsInt defaultKeywords (spell (plain SpellEx.pieces1) []) = .ok ts ∧
    ts.map tview = SpellEx.pieces1.map (fun p => (p.expect : TK × Str × Option Int × Str)) :=
  @lex_spell_plain Int asciiOps numOpsInt spellLaws_asciiOps parseInt_dot
    defaultKeywords defaultKeywords_eq_promised SpellEx.pieces1 (by decide +kernel) (by decide +kernel)
    (by decide +kernel)

/-- **What the parser gets to see.** The comment-skipping wrapper (`skipComments`, the token
    stream of the parser) drops exactly the tokens of the comment pieces: the remaining tokens are
    those of the visible pieces. -/
theorem lex_spell_visible (ts : List (Tok N)) (items : List (Sep × Piece))
    (h : ts.map tview = items.map (fun x => (x.2.expect : TK × Str × Option N × Str))) :
    (skipComments ts).map tview =
      (visible items).map (fun p => (p.expect : TK × Str × Option N × Str)) :=
  skipComments_views h

/-- non-vacuity: the second example text has 24 pieces, 22 of them visible -/
example : SpellEx.items2.length = 24 ∧ (visible SpellEx.items2).length = 22 := by decide +kernel

/-- cross-check, independent of the theorems: the model's lexer (its fuel copy, evaluated by the
    kernel) on the characters of the second example text returns these 24 token kinds, and the
    model's `parseProgram` accepts the text -/
example : (@lexViewsF Int asciiOps numOpsInt defaultKeywords 200 (spell SpellEx.items2 [' '])).map
      (fun l => l.map (·.1))
    = some [.newline, .comment, .put, .number, .into, .word, .newline, .if_, .word,
      .apostropheS, .bigger, .than, .number, .newline, .sayAlias, .word, .taking, .word,
      .apostropheNApostrophe, .number, .comment, .newline, .newline, .newline] := by decide +kernel
example : @parseReportF Int asciiOps numOpsInt defaultKeywords 200 (spell SpellEx.items2 [' ']) = some none := by
  decide +kernel

/-- **C02 on character strings.** Let `bs` be a well-formed program of the grammar
    (Spec/Grammar.lean) without template-dependent constructs, `c` any choice of the free
    alternatives of the grammar (and of templates), and `items`, `e` ANY admissible text whose
    visible pieces stand, one by one, for the tokens `progToks bs c` (same kinds — through any
    alias, any letter case, symbol or word —, the names, numbers and strings of the tree; any
    separators, ignored punctuation and comments in between).  Then `parseProgram` on the
    CHARACTERS `spell items e` succeeds and returns the blocks the grammar assigns to `bs`, up to
    source ranges and locations.  (`Choices.Sane` of `C02_program` is discharged by C12/C01: lexed
    tokens carry readable snapshots; `progFits` by `progPlain`.) -/
theorem C02_text (laws : SpellLaws) (hdot : (NumOps.parse ['.'] : Option N) = none)
    (kw : List (Str × TK)) (hkw : ∀ w, kw.lookup w = Spec.promised.lookup w)
    (bs : List (List (Statement N))) (c : Choices N) (items : List (Sep × Piece)) (e : Sep)
    (hwf : progWf bs = true) (hplain : progPlain false bs = true)
    (hlen : ulen (spell items e) < 2 ^ 32) (hok : spellOK none items e = true)
    (hnum : ∀ x ∈ items, x.2.kind = .number → (x.2.numOf : Option N).isSome = true)
    (hv : (visible items).map (fun p => (p.expect : TK × Str × Option N × Str))
      = (progToks bs c).map tview) :
    ∃ p : Program N, parseProgram kw (spell items e) = .ok p ∧
      p.code.map eraseB = progToAst bs :=
  parse_spell laws hdot kw hkw bs c items e hwf hplain hlen hok hnum hv

/-- non-vacuity: the three-line program `put 1 into x ⏎ if x is greater than 0 ⏎ say f taking x, 2`
    in its first spelling (single spaces, lower case, all picks 0) meets every hypothesis (kernel
    evaluation), so the text parses to the tree of the grammar … -/
example : ∃ p : Program Int,
    @parseProgram Int asciiOps numOpsInt defaultKeywords (spell SpellEx.items1 []) = .ok p ∧
    p.code.map eraseB = @progToAst Int asciiOps (SpellEx.prog) :=
  @C02_text Int asciiOps numOpsInt spellLaws_asciiOps parseInt_dot defaultKeywords
    defaultKeywords_eq_promised (SpellEx.prog)
    (@SpellEx.choices asciiOps SpellEx.pk1
      ((visible SpellEx.items1).map fun p => SpellEx.tokOf (@Piece.expect Int numOpsInt p)))
    SpellEx.items1 [] (by decide +kernel) (by decide +kernel) (by decide +kernel) (by decide +kernel)
    (by decide +kernel) (by decide +kernel)
/-- … which is this tree -/
example : @progToAst Int asciiOps (SpellEx.prog)
    = [.mk default
        [.assign (.ident (.var (.simple (str% "x"))) default) none ⟨.prim (.lit (.num 1) default), []⟩,
         .ifS (.bin .greater (.prim (.ident (.var (.simple (str% "x"))) default))
                (.prim (.lit (.num 0) default)) [])
           (.mk default [.output (.prim (.call (.simple (str% "f")) default
              [.prim (.ident (.var (.simple (str% "x"))) default), .prim (.lit (.num 2) default)]))])
           none]] := by rfl

/-- **C02 on character strings: two spellings, one tree.** Two admissible texts whose visible
    pieces stand for the tokens of the same program under two choices (other aliases, other letter
    case, `'s` for `is`, `'n'` for `,`, other blank runs, other comments, more blank lines, …) both
    parse, to the same tree up to source ranges and locations. -/
theorem C02_text_spelling_independent (laws : SpellLaws)
    (hdot : (NumOps.parse ['.'] : Option N) = none)
    (kw : List (Str × TK)) (hkw : ∀ w, kw.lookup w = Spec.promised.lookup w)
    (bs : List (List (Statement N))) (c₁ c₂ : Choices N)
    (items₁ items₂ : List (Sep × Piece)) (e₁ e₂ : Sep)
    (hwf : progWf bs = true) (hplain : progPlain false bs = true)
    (hlen₁ : ulen (spell items₁ e₁) < 2 ^ 32) (hlen₂ : ulen (spell items₂ e₂) < 2 ^ 32)
    (hok₁ : spellOK none items₁ e₁ = true) (hok₂ : spellOK none items₂ e₂ = true)
    (hnum₁ : ∀ x ∈ items₁, x.2.kind = .number → (x.2.numOf : Option N).isSome = true)
    (hnum₂ : ∀ x ∈ items₂, x.2.kind = .number → (x.2.numOf : Option N).isSome = true)
    (hv₁ : (visible items₁).map (fun p => (p.expect : TK × Str × Option N × Str))
      = (progToks bs c₁).map tview)
    (hv₂ : (visible items₂).map (fun p => (p.expect : TK × Str × Option N × Str))
      = (progToks bs c₂).map tview) :
    ∃ p₁ p₂ : Program N, parseProgram kw (spell items₁ e₁) = .ok p₁ ∧
      parseProgram kw (spell items₂ e₂) = .ok p₂ ∧
      p₁.code.map eraseB = p₂.code.map eraseB := by
  obtain ⟨p₁, h₁, k₁⟩ := C02_text laws hdot kw hkw bs c₁ items₁ e₁ hwf hplain hlen₁ hok₁ hnum₁ hv₁
  obtain ⟨p₂, h₂, k₂⟩ := C02_text laws hdot kw hkw bs c₂ items₂ e₂ hwf hplain hlen₂ hok₂ hnum₂ hv₂
  exact ⟨p₁, p₂, h₁, h₂, k₁.trans k₂.symm⟩

/-- non-vacuity: the two spellings of the three-line program,
    `put 1 into x ⏎ if x is greater than 0 ⏎ say f taking x , 2 ⏎ ⏎ ⏎` and
    `⏎(set⏎up) PuT  ⇥1 in x;⏎IF x'S  Stronger⇥than 0 ?!⏎  Shout f TAKING x 'N'2 (two arguments)⏎⏎ ⏎ `,
    meet every hypothesis (kernel evaluation of all side conditions, ASCII tables, integers, the
    transcribed keyword table): both parse, to the same tree. -/
example : ∃ p₁ p₂ : Program Int,
    @parseProgram Int asciiOps numOpsInt defaultKeywords (spell SpellEx.items1 []) = .ok p₁ ∧
    @parseProgram Int asciiOps numOpsInt defaultKeywords (spell SpellEx.items2 [' ']) = .ok p₂ ∧
    p₁.code.map eraseB = p₂.code.map eraseB :=
  @C02_text_spelling_independent Int asciiOps numOpsInt spellLaws_asciiOps parseInt_dot defaultKeywords
    defaultKeywords_eq_promised (SpellEx.prog)
    (@SpellEx.choices asciiOps SpellEx.pk1
      ((visible SpellEx.items1).map fun p => SpellEx.tokOf (@Piece.expect Int numOpsInt p)))
    (@SpellEx.choices asciiOps SpellEx.pk2
      ((visible SpellEx.items2).map fun p => SpellEx.tokOf (@Piece.expect Int numOpsInt p)))
    SpellEx.items1 SpellEx.items2 [] [' '] (by decide +kernel) (by decide +kernel) (by decide +kernel)
    (by decide +kernel) (by decide +kernel) (by decide +kernel) (by decide +kernel) (by decide +kernel)
    (by decide +kernel) (by decide +kernel)

/-- **C02 on character strings, texts that end with the input.** The same for the spellings
    `progToksD d bs c` of Thm/C02.lean: the blank line that closes the last top-level block and the
    last `d` further `Newline`s omitted (for every `d`: `…⏎say 1⏎⏎`, `…⏎say 1⏎`, `…⏎say 1`). -/
theorem C02_text_at_eof (laws : SpellLaws) (hdot : (NumOps.parse ['.'] : Option N) = none)
    (kw : List (Str × TK)) (hkw : ∀ w, kw.lookup w = Spec.promised.lookup w)
    (d : Nat) (bs : List (List (Statement N))) (c : Choices N) (items : List (Sep × Piece)) (e : Sep)
    (hwf : progWf bs = true) (hplain : progPlain false bs = true)
    (hlen : ulen (spell items e) < 2 ^ 32) (hok : spellOK none items e = true)
    (hnum : ∀ x ∈ items, x.2.kind = .number → (x.2.numOf : Option N).isSome = true)
    (hv : (visible items).map (fun p => (p.expect : TK × Str × Option N × Str))
      = (progToksD d bs c).map tview) :
    ∃ p : Program N, parseProgram kw (spell items e) = .ok p ∧
      p.code.map eraseB = progToAst bs :=
  parse_spell_at_eof laws hdot kw hkw d bs c items e hwf hplain hlen hok hnum hv

/-- non-vacuity: the third spelling of the three-line program, which ends right after the last
    statement (`d = 2`: the blank line closing the `if` and the `Newline` of the last line omitted,
    as well as the blank line closing the block), meets every hypothesis … -/
example : spell SpellEx.items3 [] = str% "put 1 into x\nif x is greater than 0\nsay f taking x, 2" := by
  decide +kernel
example : ∃ p : Program Int,
    @parseProgram Int asciiOps numOpsInt defaultKeywords (spell SpellEx.items3 []) = .ok p ∧
    p.code.map eraseB = @progToAst Int asciiOps SpellEx.prog :=
  @C02_text_at_eof Int asciiOps numOpsInt spellLaws_asciiOps parseInt_dot defaultKeywords
    defaultKeywords_eq_promised 2 SpellEx.prog
    (@SpellEx.choicesD asciiOps SpellEx.pk1
      ((visible SpellEx.items3).map fun p => SpellEx.tokOf (@Piece.expect Int numOpsInt p)))
    SpellEx.items3 [] (by decide +kernel) (by decide +kernel) (by decide +kernel) (by decide +kernel)
    (by decide +kernel) (by decide +kernel)

end

end C02Text
end Rrss
