/-
  C01 — lexing and parsing are total.

  FULL STATEMENT (proved below as `parse_total`):
    ∀ kw src, ulen src < 2^32 →
      (∃ p, parseProgram kw src = .ok p) ∨ (∃ e s, parseProgram kw src = .err e ∧ renderParseError e = .ok s)
  i.e. never `crash` (no panic / out-of-bounds slice / debug assertion), never `fuel`
  (termination), never `resource`, and every error renders — for every keyword table, every
  `CharOps` (Unicode classification) and every number type, without further hypotheses.

  The proof has four parts, each for every keyword table, `CharOps` and number type:
  * the lexer half at full strength (file C01Lex.lean): `lexAll_total` — no crash, no fuel,
    no error, every slice / location precondition met; `snapshots_in_range`, `eof_snapshot`;
  * termination of the parser: the fuel `#tokens + 2` that `parseProgram` hands to the
    record/fuel parser always suffices (`parse_terminates`) — every grammar cycle and every loop
    round consumes a token; this could not be proved while `Parser::parse` could loop on a stray
    `else` (defect D2, repaired);
  * `lexed_tokens_ok` + `parser_never_crashes`: the token list of the lexer satisfies the
    invariant `ToksOk` (spelling = slice of the source at the token's offset, non-empty
    spellings, tokens in source order, lexer snapshots in range), and on states satisfying the
    invariant `StOk` no function of the parser, at any recursion depth, reaches a crash site
    (`parseConsume`, `parseOpUnwrap`, `parseTakeFirst`, `parseExtractRange`, `parseCapFirstChar`,
    `parseNegNumber`, `parsePoeticText`, `parsePushRhs`, `lexCurrentLoc`, `lexStagedIndex`) or
    answers `resource`; results are again `StOk` states;
  * `render_total`: every error any parser function returns is `ErrRenderable` (an
    `UnexpectedToken` error carries a token, an `ExpectedOneOfTokens` list is not empty, a
    `MutationOperandMustBeIdentifier` operand is not an identifier), and `Display for ParseError`
    does not panic on such errors (sites `dispWriteList`, `dispUnexpectedToken`, `dispExpectedId`).
  (Definitions: Rrss/Lemmas/ParserInv.lean; one lemma per parser function:
  Rrss/Lemmas/ParserNoCrash.lean; assembly: Rrss/Lemmas/ParserTotal.lean.)

  What is NOT covered by these theorems and stays with the correspondence run / no-panic oracle:
  * stack depth: the Rust parser is recursive-descent; a deeply nested input (long chains of
    `not`, `roll`, nested blocks) can exhaust the native stack, which the model (fuel = number
    of tokens + 2) does not represent;
  * how a reached crash site would manifest in a release build (UB instead of a panic): moot for
    the sites shown unreachable here, but it relies on the model listing ALL sites of parser.rs
    and parser/display.rs (the tie checks this on inputs, it is not a theorem);
  * inputs of 4 GiB or more (`u32` columns of the lexer).
-/
import Rrss.Lemmas.ParserTotal
import Rrss.Thm.C01Lex
namespace Rrss.Thm.C01
open Rrss Rrss.Parser
open Rrss.Lexer (asciiOps defaultKeywords exSrc exViews exSrc_lexes view)

variable [CharOps] {N : Type} [NumOps N]

/-- Parsing terminates: the fuel bound of `parseProgram` is always sufficient (the parser never
    answers `fuel`), for every source text, keyword table, character table and number type. -/
theorem parse_terminates (kw : List (Str × TK)) (src : Str) :
    (parseProgram kw src : Outcome (ParseErr N) (Program N)) ≠ .fuel :=
  parse_fuel_sufficient kw src

/-- The same for the expression entry point `Parser::parse_expression`. -/
theorem parse_expression_terminates (kw : List (Str × TK)) (src : Str) :
    (parseExpressionSrc kw src : Outcome (ParseErr N) (Expr N)) ≠ .fuel :=
  parseExpressionSrc_fuel_sufficient kw src

/-- **The lexer hands the parser what it needs.** For a source text under 4 GiB, the token list
    the parser reads (the raw tokens minus comments) satisfies `ToksOk src`: every token's
    spelling is the slice of `src` that starts at the token's byte offset and is not empty, the
    lexer snapshot recorded after it satisfies `line_start ≤ idx ≤ len`, and the tokens are in
    source order without overlap; and the initial parser state satisfies the state invariant
    `StOk` (tokens `ToksOk`, the snapshots `last` and `eof` in range). -/
theorem lexed_tokens_ok {kw : List (Str × TK)} {src : Str} {raw : List (Tok N)}
    (hlen : ulen src < 2 ^ 32) (h : Lexer.lexAll kw src = .ok raw) :
    ToksOk src (skipComments raw) ∧ StOk (initState src raw) :=
  ⟨(toksOk_of_lex hlen h).filter _, initState_ok hlen h⟩

/-- non-vacuity: the example text of C01Lex (nine tokens, among them a two-line string, staged
    `'s` suffixes and an error token) lexes, and its tokens and initial state satisfy the
    invariants -/
example : ∃ raw : List (Tok Int), raw.map view = exViews ∧
    @ToksOk Int exSrc (skipComments raw) ∧ StOk (initState exSrc raw) := by
  obtain ⟨raw, h, hv⟩ := exSrc_lexes
  exact ⟨raw, hv, @lexed_tokens_ok asciiOps Int numOpsInt _ _ _ (by decide) h⟩

omit [NumOps N] in
/-- **What `Safe p` says** (the notion `parser_never_crashes` is stated with): started on any
    state satisfying the invariant `StOk`, the parser action `p` does not stop at a crash site,
    does not answer `resource`, every error it returns is `ErrRenderable`, and every state it
    returns satisfies `StOk` again. (It may answer `fuel`; that the fuel given by `parseProgram`
    suffices is `parse_terminates`.) -/
theorem safe_means {α : Type} (p : P N α) :
    Safe p ↔ ∀ st, StOk st →
      (∀ s, p st ≠ .crash s) ∧ p st ≠ .resource ∧ (∀ e, p st = .err e → ErrRenderable e) ∧
      (∀ a st', p st = .ok (a, st') → StOk st') :=
  safe_iff p

omit [NumOps N] in
/-- **The parser never crashes.** At every recursion depth `n`, every one of the 18 functions of
    the parser record `parser n` (unary and primary expressions, subscript chains, the binary /
    list / comparison loops, argument and parameter lists, poetic literals, build/knock counting,
    capitalized identifiers, blocks, function blocks, the three statement loops, and the entry
    points `expression` and `program`) is `Safe` in the sense of `safe_means`: on states whose
    tokens are `ToksOk` and whose snapshots are in range it reaches no crash site — the `consume`
    after a peek, the operator `unwrap`s, `take_first`, `extract_unchecked`,
    `spelling.chars().next().unwrap()`, `is_current_negative_number`, the literal-text slice and
    `strip_prefix(..).unwrap()` of poetic strings, the `Like`/`With` dispatch, `current_loc` —
    never answers `resource`, returns only renderable errors and only `StOk` states. -/
theorem parser_never_crashes (n : Nat) : RecOk (parser n : Rec N) :=
  parser_ok n

omit [NumOps N] in
/-- `parser_never_crashes` for the entry point `Parser::parse`, spelled out -/
theorem program_never_crashes (n : Nat) (st : PState N) (hst : StOk st) :
    (∀ s, (parser n).program st ≠ .crash s) ∧ (parser n).program st ≠ .resource ∧
    (∀ e, (parser n).program st = .err e → ErrRenderable e) ∧
    (∀ a st', (parser n).program st = .ok (a, st') → StOk st') :=
  (safe_iff _).mp (parser_ok n).program st hst

omit [NumOps N] in
/-- **Every parse error renders.** (a) `Display for ParseError` does not panic on an
    `ErrRenderable` error; (b) hence every error returned by a `Safe` parser action started on a
    `StOk` state — by `parser_never_crashes`: every function of the parser at every depth —
    renders to a string. -/
theorem render_total :
    (∀ e : ParseErr N, ErrRenderable e → ∃ s, renderParseError e = .ok s) ∧
    (∀ {α : Type} (p : P N α), Safe p → ∀ st, StOk st → ∀ e, p st = .err e →
      ∃ s, renderParseError e = .ok s) :=
  ⟨fun _ h => renderParseError_ok h,
   fun p hp st hst e he => renderParseError_ok (((safe_iff p).mp hp st hst).2.2.1 e he)⟩

/-- non-vacuity: the predicate is neither empty nor trivial — an `ExpectedOneOfTokens` error with
    a non-empty list at a line location is renderable, an `UnexpectedToken` error
    without a token is not -/
example : ErrRenderable (⟨.expectedOneOfTokens [.up, .down, .round], .line 3⟩ : ParseErr Int) ∧
    ¬ ErrRenderable (⟨.unexpectedToken, .line 3⟩ : ParseErr Int) :=
  ⟨errRenderable_of_codeSafe rfl,
   fun h => by obtain ⟨t, ht⟩ := h.1 rfl; cases ht⟩

/-- **C01, THE FULL THEOREM: lexing and parsing are total.** For every source text under 4 GiB,
    every keyword table, every Unicode classification and every number type, `parser::parse`
    (lexing, comment skipping, parsing) returns a program, or returns a parse error whose
    `Display` rendering succeeds. It never reaches a crash site of the lexer, the parser or the
    error display, and the model's own budgets (`fuel`, `resource`) are never exhausted. -/
theorem parse_total (kw : List (Str × TK)) (src : Str) (hlen : ulen src < 2 ^ 32) :
    (∃ p : Program N, parseProgram kw src = .ok p) ∨
    (∃ (e : ParseErr N) (s : Str), parseProgram kw src = .err e ∧ renderParseError e = .ok s) := by
  rcases runOn_total (N := N) (fun r => r.program) (fun n => (parser_good n).program)
      (fun n => (parser_ok n).program) kw src hlen with ⟨p, hp⟩ | ⟨e, he, hr⟩
  · exact Or.inl ⟨p, hp⟩
  · obtain ⟨s, hs⟩ := renderParseError_ok hr
    exact Or.inr ⟨e, s, he, hs⟩

/-- The same for the expression entry point `Parser::for_source_code(text).parse_expression()`. -/
theorem parse_expression_total (kw : List (Str × TK)) (src : Str) (hlen : ulen src < 2 ^ 32) :
    (∃ x : Expr N, parseExpressionSrc kw src = .ok x) ∨
    (∃ (e : ParseErr N) (s : Str),
      parseExpressionSrc kw src = .err e ∧ renderParseError e = .ok s) := by
  rcases runOn_total (N := N) (fun r => r.expression) (fun n => (parser_good n).expression)
      (fun n => (parser_ok n).expression) kw src hlen with ⟨p, hp⟩ | ⟨e, he, hr⟩
  · exact Or.inl ⟨p, hp⟩
  · obtain ⟨s, hs⟩ := renderParseError_ok hr
    exact Or.inr ⟨e, s, he, hs⟩

/-! ### non-vacuity: both outcomes occur, evaluated through the real pipeline by the kernel
    (ASCII tables, integer numbers, the real keyword table; the two well-founded lexer loops go
    through their fuel copies, `lexLoopF_sound`) -/

/-- a stray `else` (defect D2: used to loop forever) is a rendered parse error -/
example : ∃ e : ParseErr Int,
    @parseProgram Int asciiOps numOpsInt defaultKeywords (str% "say 1\nelse\n") = .err e ∧
    @renderParseError Int e = .ok (str% "Parse error (line 2): Unexpected token `else`") :=
  @parseReportF_err Int asciiOps numOpsInt _ 100 _ _ (by decide +kernel)

/-- an unterminated string is an error token, hence a rendered parse error -/
example : ∃ e : ParseErr Int,
    @parseProgram Int asciiOps numOpsInt defaultKeywords (str% "say \"abc") = .err e ∧
    @renderParseError Int e =
      .ok (str% "Parse error (line 1): Expected primary expression, found `\"abc`") :=
  @parseReportF_err Int asciiOps numOpsInt _ 100 _ _ (by decide +kernel)

/-- `say 1⏎foo1` (defect D1: used to slice out of bounds in the lexer) is a rendered parse error -/
example : ∃ e : ParseErr Int,
    @parseProgram Int asciiOps numOpsInt defaultKeywords (str% "say 1\nfoo1") = .err e ∧
    @renderParseError Int e = .ok (str% "Parse error (line 2): Unexpected token `foo1`") :=
  @parseReportF_err Int asciiOps numOpsInt _ 100 _ _ (by decide +kernel)

/-- the three guarded shapes of `ErrRenderable` occur: the explicit-token `UnexpectedToken` of the
    hyphen case, a non-empty `ExpectedOneOfTokens` list, a non-identifier mutation operand -/
example : (∃ e : ParseErr Int,
      @parseProgram Int asciiOps numOpsInt defaultKeywords (str% "X is a-,\n") = .err e ∧
      @renderParseError Int e = .ok (str% "Parse error (line 1): Unexpected token `,`")) ∧
    (∃ e : ParseErr Int,
      @parseProgram Int asciiOps numOpsInt defaultKeywords (str% "turn 1\n") = .err e ∧
      @renderParseError Int e =
        .ok (str% "Parse error (line 1): Expected `up`, `down`, or `round`, found `\n`")) ∧
    (∃ e : ParseErr Int,
      @parseProgram Int asciiOps numOpsInt defaultKeywords (str% "cut 1\n") = .err e ∧
      @renderParseError Int e = .ok (str% "Parse error (line 1): Mutation operand with no " ++
        str% "`into` destination must be identifier; found literal")) :=
  ⟨@parseReportF_err Int asciiOps numOpsInt _ 100 _ _ (by decide +kernel),
   @parseReportF_err Int asciiOps numOpsInt _ 100 _ _ (by decide +kernel),
   @parseReportF_err Int asciiOps numOpsInt _ 100 _ _ (by decide +kernel)⟩

/-- a text that exercises the guarded sites (capitalized and common identifiers, a function with
    parameters and call, `if`/`else`, expression lists, a poetic number and a poetic string —
    the literal-text slice —, `listen` — `current_loc` —, mutation, rounding, push/pop) parses
    to a program; it is under 4 GiB -/
example : (∃ p : Program Int, @parseProgram Int asciiOps numOpsInt defaultKeywords
      (str% "Tommy Lee takes X and Y\nif X is as big as 18\nsay X plus 1, 2\nelse\n" ++
        str% "shout \"no\"\n\ngive back Y\n\nMy heart says hello\nIt is -1\nlisten\n" ++
        str% "cut My heart into the pieces with \"l\"\nturn up X\nrock the pieces with 1, 2\n" ++
        str% "roll the pieces into X\nbuild X up, up\nput Tommy Lee taking 1, 2 into X\n") = .ok p) ∧
    ulen (str% "say 1\nelse\n") < 2 ^ 32 :=
  ⟨@parseReportF_ok Int asciiOps numOpsInt _ 200 _ (by decide +kernel), by decide⟩

end Rrss.Thm.C01
