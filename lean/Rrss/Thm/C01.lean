/-
  C01 — lexing and parsing are total.

  FULL STATEMENT (target):
    ∀ src, ulen src < 2^32 →
      (∃ p, parseProgram kw src = .ok p) ∨ (∃ e s, parseProgram kw src = .err e ∧ renderParseError e = .ok s)
  i.e. never `crash` (no panic / out-of-bounds slice / debug assertion), never `fuel`
  (termination), and every error renders.

  Proved so far, for every keyword table, `CharOps` and number type:
  * the lexer half at full strength (file C01Lex.lean): `lexAll_total` — no crash, no fuel,
    no error, every slice / location precondition met;
  * termination of the parser: the fuel `#tokens + 2` that `parseProgram` hands to the
    record/fuel parser always suffices (`parse_terminates` below) — every grammar cycle and
    every loop round consumes a token; this could not be proved while `Parser::parse` could
    loop on a stray `else` (defect D2, repaired);
  * combined: `parse_outcome_partial` — parsing a text under 4 GiB answers `ok`, `err` or
    stops at one of the PARSER's own crash sites; it never diverges and the lexer never crashes.
  What is missing for the full statement: unreachability of the parser's crash sites
  (`parseConsume`, `parseOpUnwrap`, `parsePoeticText`, `lexCurrentLoc`, … — all guarded
  locally by a preceding peek) and totality of `renderParseError` on the errors the parser
  builds. Until then those are carried by the correspondence run and the no-panic oracle.
-/
import Rrss.Lemmas.ParserFuel
import Rrss.Thm.C01Lex
namespace Rrss.Thm.C01
open Rrss Rrss.Parser

variable [CharOps] {N : Type} [NumOps N]

/-- Parsing terminates: the fuel bound of `parseProgram` is always sufficient (the parser never
    answers `fuel`), for every source text, keyword table, character table and number type. -/
theorem parse_terminates (kw : List (Str × TK)) (src : Str) :
    (parseProgram kw src : Outcome (ParseErr N) (Program N)) ≠ .fuel :=
  parse_fuel_sufficient kw src

/-- The same for the expression entry point `Parser::parse_expression`. -/
theorem parse_expression_terminates (kw : List (Str × TK)) (src : Str) :
    (parseExpressionSrc kw src : Outcome (ParseErr N) (Expr N)) ≠ .fuel :=
  parseExpressionSrc_fuel_sufficient kw src

end Rrss.Thm.C01
