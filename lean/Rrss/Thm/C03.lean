/-
  Rrss.Thm.C03 — expressions evaluate by the Rockstar value rules for every operand kind.

  Part A: every value operation of the model equals the flat 6 × 6 table of `Spec.Coercion`
  (for all values, arbitrary nesting; arithmetic of numbers uninterpreted, no IEEE law needed).
  Part B: evaluation order — operator application, left-to-right fold over list operands with
  the environment threaded, short circuit, and which combinations stop the program.
  Helper lemmas: Rrss/Lemmas/Coercion.lean, Eval.lean, ApplyOp.lean.
-/
import Rrss.Lemmas.Eval
import Rrss.NumInt
set_option linter.unusedSectionVars false
namespace Rrss
open Interp NumOps

section
variable {N : Type} [NumOps N]

/-! ## A. the coercion tables -/

/-- `+` is the table `Spec.plus`, for every pair of values. The only way the model deviates is
    its own size budget: a string result longer than `cap` is not built (`resource`); every
    other result, including mysterious for an invalid combination, is `ok`. -/
theorem C03_plus (cap : Nat) (a b : Val N) :
    Val.plus cap a b = Spec.capped cap (Spec.plus a b) :=
  Val.plus_eq_spec cap a b

/-- `+` when the result fits the budget (always, if it is not a string). -/
theorem C03_plus_within_budget (cap : Nat) (a b : Val N)
    (h : ∀ r, Spec.plus a b = .str r → r.length ≤ cap) :
    Val.plus cap a b = .ok (Spec.plus a b) := by
  rw [Val.plus_eq_spec]
  unfold Spec.capped
  split
  · next r heq => rw [if_neg (by have := h r heq; omega), heq]
  · rfl

/-- non-vacuity: numeric-looking string, array as its length, null as zero, an invalid pair. -/
example :
    Val.plus 100 (.str str% "05" : Val Int) (.num 5) = .ok (.str str% "055")
    ∧ Val.plus 100 (.num 5 : Val Int) (.str str% "05") = .ok (.str str% "505")
    ∧ Val.plus 100 (.arr [.undef] [] : Val Int) (.num 5) = .ok (.num 6)
    ∧ Val.plus 100 (.null : Val Int) (.num 5) = .ok (.num 5)
    ∧ Val.plus 100 (.null : Val Int) (.arr [.undef] []) = .ok .undef
    ∧ Val.plus 2 (.str str% "05" : Val Int) (.num 5) = .resource := by
  refine ⟨?_, ?_, ?_, ?_, ?_, ?_⟩ <;> rfl

/-- Operand order of `+` with a string: a scalar (mysterious, null, Boolean, number) is spliced
    in by its canonical text on the side it stands on. -/
theorem C03_plus_operand_order (x : Val N) (s : Str) (hx : x.kind ≤ 3) :
    Spec.plus x (.str s) = .str (Spec.text x ++ s)
    ∧ Spec.plus (.str s) x = .str (s ++ Spec.text x) := by
  cases x <;> first | exact ⟨rfl, rfl⟩ | (simp [Val.kind] at hx)

/-- `-` is the table `Spec.minus`. It never fails: invalid combinations yield mysterious. -/
theorem C03_minus (a b : Val N) : Val.subtract a b = Spec.minus a b :=
  Val.subtract_eq_spec a b

/-- `/` is the table `Spec.over`. It never fails (division by zero is IEEE division). -/
theorem C03_over (a b : Val N) : Val.divide a b = Spec.over a b :=
  Val.divide_eq_spec a b

/-- `*` is the table `Spec.times` (numeric cells, and `string * count` repetition), up to the
    size budget of the model: a repeated string longer than `cap` is not built. -/
theorem C03_times (cap : Nat) (a b : Val N) :
    Val.multiply cap a b = Spec.capped cap (Spec.times a b) :=
  Val.multiply_eq_spec cap a b

/-- `*` when the result fits the budget. -/
theorem C03_times_within_budget (cap : Nat) (a b : Val N)
    (h : ∀ r, Spec.times a b = .str r → r.length ≤ cap) :
    Val.multiply cap a b = .ok (Spec.times a b) := by
  rw [Val.multiply_eq_spec]
  unfold Spec.capped
  split
  · next r heq => rw [if_neg (by have := h r heq; omega), heq]
  · rfl

/-- non-vacuity: repetition by a number and by an array (its length); the reverse order and a
    negative count are invalid. -/
example :
    Val.multiply 100 (.str str% "ab" : Val Int) (.num 3) = .ok (.str str% "ababab")
    ∧ Val.multiply 100 (.str str% "ab" : Val Int) (.arr [.undef, .null] []) = .ok (.str str% "abab")
    ∧ Val.multiply 100 (.num 3 : Val Int) (.str str% "ab") = .ok .undef
    ∧ Val.multiply 100 (.str str% "ab" : Val Int) (.num (-1)) = .ok .undef
    ∧ Val.multiply 100 (.null : Val Int) (.num 7) = .ok (.num 0) := by
  refine ⟨?_, ?_, ?_, ?_, ?_⟩ <;> rfl

/-- `is` is the table `Spec.equals`. -/
theorem C03_equals (a b : Val N) : Val.equals a b = Spec.equals a b :=
  Val.equals_eq_spec a b

/-- Ordering is the table `Spec.compare`: the same ordering on comparable pairs, `Ok(None)` on
    unordered ones, and `InvalidComparison a b` exactly on the pairs the table marks invalid. -/
theorem C03_compare (a b : Val N) :
    Val.compare a b = match Spec.compare a b with
      | .is o => .ok o
      | .invalid => .err (.invalidComparison a b) :=
  Val.compare_eq_spec a b

/-- non-vacuity of the value-dependent cells. -/
example :
    Spec.equals (.str str% "05" : Val Int) (.num 5) = true
    ∧ Spec.equals (.null : Val Int) (.arr [] [(.null, .num 1)]) = true
    ∧ Spec.equals (.null : Val Int) (.arr [.undef] []) = false
    ∧ Spec.equals (.undef : Val Int) .null = true
    ∧ Spec.compare (.str str% "05" : Val Int) (.num 7) = .is (some .lt)
    ∧ Spec.compare (.str str% "ten" : Val Int) (.num 7) = .is none
    ∧ Spec.compare (.arr [.undef] [] : Val Int) .null = .is (some .gt)
    ∧ Spec.compare (.arr [.undef] [] : Val Int) (.str str% "1") = .invalid := by
  decide

/-- unary minus is the table `Spec.negate`; on anything but a number it is the error
    `InvalidOperationForType("negate", v)`. -/
theorem C03_negate (v : Val N) :
    Val.negate v = match Spec.negate v with
      | some r => .ok r
      | none => .err (.invalidOp str% "negate" v) :=
  Val.negate_eq_spec v

/-- build up / knock down is the table `Spec.inc`; on mysterious, strings and arrays it is the
    error `InvalidOperationForType("increment" | "decrement", v)` (by the sign of the amount). -/
theorem C03_inc (v : Val N) (k : Int) :
    Val.inc v k = match Spec.inc v k with
      | some r => .ok r
      | none => .err (.invalidOp (if k ≥ 0 then str% "increment" else str% "decrement") v) :=
  Val.inc_eq_spec v k

/-- truthiness is the table `Spec.truthy`. -/
theorem C03_truthy (v : Val N) : Val.isTruthy v = Spec.truthy v :=
  Val.isTruthy_eq_spec v

/-- The text printed for a value is its canonical rendering `Spec.text`; the `unreachable!()`
    arm of `to_string_for_output` is never reached. -/
theorem C03_text (v : Val N) :
    Val.toOutput v = .ok (Spec.text v) ∧ Val.outputText v = Spec.text v :=
  ⟨by rw [Val.toOutput_eq, Val.outputText_eq_spec], Val.outputText_eq_spec v⟩

/-- non-vacuity. -/
example :
    Spec.text (.arr [.undef, .null] [(.null, .num 1)] : Val Int) = str% "2"
    ∧ Spec.text (.num (-12) : Val Int) = str% "-12"
    ∧ Spec.text (.bool true : Val Int) = str% "true" := by decide

/-! ## B. evaluation -/

/-- One operator application on evaluated operands is the table-level `Spec.binop` (all
    thirteen operators), lifted into the interpreter: a `ValError` becomes the runtime error
    `ValError(..)`, and the environment is not touched. -/
theorem C03_apply (op : BinOp) (a b : Val N) (env : Env N) :
    applyOp op a (pure b) env = M.liftV (Spec.binop env.cap op a b) env := by
  rw [applyOp_pure, opVal_eq_spec]

/-- With an arbitrary (effectful, possibly failing) right operand `b`: if the left operand
    decides (`Spec.decides`: a falsy left operand of `and`, a truthy one of `or` / `nor`) the
    result is the decided value, `b` is not run and the environment is unchanged; otherwise
    `b` is run exactly once, a failure of `b` is the result, and on success the operator is
    applied to its value in the environment `b` left. -/
theorem C03_apply_lazy (op : BinOp) (a : Val N) (b : M N (Val N)) (env : Env N) :
    (∀ r, Spec.decides op a = some r → applyOp op a b env = (.ok r, env))
    ∧ (Spec.decides op a = none →
        applyOp op a b env = match b env with
          | (.ok bv, env') => M.liftV (Spec.binop env'.cap op a bv) env'
          | (.err er, env') => (.err er, env')
          | (.crash s, env') => (.crash s, env')
          | (.fuel, env') => (.fuel, env')
          | (.resource, env') => (.resource, env')) :=
  ⟨fun _ h => applyOp_decided h b env, fun h => applyOp_undecided h b env⟩

/-- A unary expression evaluates its operand and applies `Spec.unop` (`not`: negated
    truthiness; unary minus: numbers only, otherwise the program stops). -/
theorem C03_unary [CharOps] (rec : Rec N) (op : UnOp) (e : Expr N) :
    evalExpr rec (.un op e) = (rec.evalExpr e >>= fun v => M.liftV (Spec.unop op v)) := by
  cases op
  · show (rec.evalExpr e >>= fun v => M.liftV (Val.negate v)) = _
    congr 1; funext v; rw [Val.negate_eq_spec]; rfl
  · show (rec.evalExpr e >>= fun v => pure (Val.bool (!v.isTruthy))) = _
    have : ∀ v : Val N, (pure (Val.bool (!v.isTruthy)) : M N (Val N)) = M.liftV (Spec.unop .not v) := by
      intro v; rw [Val.isTruthy_eq_spec]; rfl
    simp only [this]

/-- A binary expression evaluates its left operand first, then folds the operator over the
    operand list. -/
theorem C03_binary [CharOps] (rec : Rec N) (op : BinOp) (a e : Expr N) (es : List (Expr N)) :
    evalExpr rec (.bin op a e es) = (rec.evalExpr a >>= fun v => foldOp rec op v (e :: es)) := rfl

/-- List operands are folded left to right: `foldOp rec op v [e₁, …, eₙ]` is exactly the
    big-step relation `Spec.Fold` with `rec.evalExpr` as the evaluator of operands — the
    operands are evaluated in order, each in the environment left by the previous one, an
    operand is skipped when the accumulated value decides alone, and the first operand
    evaluation or operator application that is not `ok` is the result (later operands are not
    evaluated). `Spec.Fold` is functional in `out` (it is equivalent to an equation). -/
theorem C03_fold (rec : Rec N) (op : BinOp) (v : Val N) (es : List (Expr N)) (env : Env N)
    (out : Outcome (RtErr N) (Val N) × Env N) :
    foldOp rec op v es env = out ↔ Spec.Fold rec.evalExpr op v es env out :=
  foldOp_iff_fold rec op es v env out

/-- concrete evaluations on `Int` (fuel 2): `1 + 2, "x", 3` folds left to right to `"3x3"`
    (not `"12x3"`, not `"3x" + 3` regrouped); an invalid comparison in the middle of a list
    stops before the next operand (`it`, which would fail with `MissingPronoun`) is run. -/
example [CharOps] (r0 : Range) :
    evalExpr (interp 2) (.bin .plus (.prim (.lit (.num (1 : Int)) r0)) (.prim (.lit (.num 2) r0))
        [.prim (.lit (.str str% "x") r0), .prim (.lit (.num 3) r0)]) ({} : Env Int)
      = (.ok (.str str% "3x3"), {})
    ∧ evalExpr (interp 2) (.bin .less (.prim (.lit (.num (1 : Int)) r0)) (.prim (.lit (.bool true) r0))
        [.prim (.ident .pronoun r0)]) ({} : Env Int)
      = (.err (.val (.invalidComparison (.num 1) (.bool true))), {}) := ⟨rfl, rfl⟩

/-- Short circuit through a whole binary expression: if the left operand of `and` evaluates to
    a falsy value, the expression yields `false` with the environment exactly as the left
    operand left it, and none of the right operands (one, or a list) is run — the result does
    not depend on them. Dually a truthy left operand of `or` yields `true`; a truthy left
    operand of `nor` with a single right operand yields `false`. -/
theorem C03_short_circuit [CharOps] (rec : Rec N) (l e : Expr N) (es : List (Expr N))
    (a : Val N) (env env1 : Env N) (hl : rec.evalExpr l env = (.ok a, env1)) :
    (Spec.truthy a = false → evalExpr rec (.bin .and l e es) env = (.ok (.bool false), env1))
    ∧ (Spec.truthy a = true → evalExpr rec (.bin .or l e es) env = (.ok (.bool true), env1))
    ∧ (Spec.truthy a = true → evalExpr rec (.bin .nor l e []) env = (.ok (.bool false), env1)) := by
  have hF : ∀ (es : List (Expr N)) (env : Env N),
      Spec.Fold rec.evalExpr .and (.bool false) es env (.ok (.bool false), env) := by
    intro es
    induction es with
    | nil => intro env; exact .done _ _
    | cons e es ih => intro env; exact .skip (r := .bool false) rfl (ih env)
  have hT : ∀ (es : List (Expr N)) (env : Env N),
      Spec.Fold rec.evalExpr .or (.bool true) es env (.ok (.bool true), env) := by
    intro es
    induction es with
    | nil => intro env; exact .done _ _
    | cons e es ih => intro env; exact .skip (r := .bool true) rfl (ih env)
  refine ⟨?_, ?_, ?_⟩ <;> intro ht <;> rw [C03_binary, M.bind_ok hl, C03_fold]
  · exact .skip (r := .bool false) (by simp [Spec.decides, ht]) (hF es env1)
  · exact .skip (r := .bool true) (by simp [Spec.decides, ht]) (hT es env1)
  · exact .skip (r := .bool false) (by simp [Spec.decides, ht]) (.done _ _)

/-- non-vacuity / concrete evaluation: `null and it` is `false` although `it` alone fails
    (no variable was accessed yet); `null or it` does run `it` and fails. -/
example [CharOps] (r0 : Range) :
    evalExpr (interp 2) (.bin .and (.prim (.lit .null r0)) (.prim (.ident .pronoun r0)) [])
        ({} : Env Int) = (.ok (.bool false), {})
    ∧ evalExpr (interp 2) (.bin .or (.prim (.lit .null r0)) (.prim (.ident .pronoun r0)) [])
        ({} : Env Int) = (.err .missingPronoun, {}) := ⟨rfl, rfl⟩

/-- Invalid combinations stop the program with a runtime error rather than a wrong value —
    for the operations that can fail: unary minus on a non-number, an ordering operator on a
    pair the table marks invalid, build/knock on mysterious, a string or an array. The error
    is the `ValError` named, the environment is as the operand evaluation left it (nothing is
    printed or assigned by the failing application). -/
theorem C03_invalid_stops [CharOps] :
    -- unary minus
    (∀ (rec : Rec N) (e : Expr N) (v : Val N) (env env1 : Env N),
        rec.evalExpr e env = (.ok v, env1) → Spec.negate v = none →
        evalExpr rec (.un .minus e) env = (.err (.val (.invalidOp str% "negate" v)), env1))
    -- ordering operators
    ∧ (∀ (a b : Val N) (env : Env N), Spec.compare a b = .invalid →
        ∀ op, op = BinOp.less ∨ op = .lessEq ∨ op = .greater ∨ op = .greaterEq →
        applyOp op a (pure b) env = (.err (.val (.invalidComparison a b)), env))
    -- build / knock
    ∧ (∀ (v : Val N) (k : Int), Spec.inc v k = none →
        Val.inc v k
          = .err (.invalidOp (if k ≥ 0 then str% "increment" else str% "decrement") v)) := by
  refine ⟨?_, ?_, ?_⟩
  · intro rec e v env env1 he hv
    rw [C03_unary, M.bind_ok he]
    simp only [Spec.unop, hv]
    rfl
  · intro a b env h op hop
    rw [C03_apply]
    rcases hop with rfl | rfl | rfl | rfl <;> simp only [Spec.binop, Spec.ordered, h] <;> rfl
  · intro v k h
    rw [Val.inc_eq_spec, h]

/-- non-vacuity: which cells are invalid. -/
example :
    Spec.negate (.str str% "05" : Val Int) = none
    ∧ Spec.compare (.bool true : Val Int) (.num 1) = .invalid
    ∧ Spec.compare (.arr [.undef] [] : Val Int) (.arr [.undef] []) = .invalid
    ∧ Spec.inc (.str str% "05" : Val Int) 1 = none
    ∧ Spec.inc (.undef : Val Int) (-1) = none := by
  decide

/-- `+ - * /`, `is`, `isnt`, `and`, `or`, `nor` never stop the program: on evaluated operands
    they always yield a value (mysterious for an invalid combination, as the code and its
    tests have it) — except that `+` and `*` can exhaust the model's size budget (`resource`),
    which is not an outcome of the program. -/
theorem C03_arith_never_fails (a b : Val N) (env : Env N) :
    (applyOp .minus a (pure b) env = (.ok (Spec.minus a b), env))
    ∧ (applyOp .divide a (pure b) env = (.ok (Spec.over a b), env))
    ∧ (applyOp .plus a (pure b) env = (.ok (Spec.plus a b), env)
        ∨ applyOp .plus a (pure b) env = (.resource, env))
    ∧ (applyOp .multiply a (pure b) env = (.ok (Spec.times a b), env)
        ∨ applyOp .multiply a (pure b) env = (.resource, env))
    ∧ (∀ op, op = BinOp.eq ∨ op = .notEq ∨ op = .and ∨ op = .or ∨ op = .nor →
        ∃ r, applyOp op a (pure b) env = (.ok (.bool r), env)) := by
  have capped_cases : ∀ v : Val N, Spec.capped env.cap v = .ok v ∨ Spec.capped env.cap v = .resource := by
    intro v
    unfold Spec.capped
    split
    · split
      · exact .inr rfl
      · exact .inl rfl
    · exact .inl rfl
  refine ⟨?_, ?_, ?_, ?_, ?_⟩
  · rw [C03_apply]; rfl
  · rw [C03_apply]; rfl
  · rw [C03_apply]
    rcases capped_cases (Spec.plus a b) with h | h
    · exact .inl (by simp only [Spec.binop, h]; rfl)
    · exact .inr (by simp only [Spec.binop, h]; rfl)
  · rw [C03_apply]
    rcases capped_cases (Spec.times a b) with h | h
    · exact .inl (by simp only [Spec.binop, h]; rfl)
    · exact .inr (by simp only [Spec.binop, h]; rfl)
  · intro op hop
    rcases hop with rfl | rfl | rfl | rfl | rfl <;> exact ⟨_, by rw [C03_apply]; rfl⟩

/-- `knock x down` `k` times is `build x up` `−k` times: the two statements execute
    identically (both run `Val.inc` — the table `Spec.inc` — on the current value of the
    variable through the write path). -/
theorem C03_dec_is_inc_neg [CharOps] (rec : Rec N) (i : Ident) (r r' : Range) (k : Int)
    (st : ExecSt N) :
    execStmt rec (.dec i r k) st = execStmt rec (.inc i r' (-k)) st := rfl

/-- Compound assignment applies the same operator fold to the current value of the target:
    `let d be op e, es…` reads `d` (`evalLhs`), folds `op` over the operands (`C03_fold`),
    and assigns the result to `d`. (That this is the assignment of the expanded binary
    expression is `C14_compound_assignment`.) -/
theorem C03_compound [CharOps] (rec : Rec N) (d : Lhs N) (op : BinOp) (e : Expr N)
    (es : List (Expr N)) (st : ExecSt N) :
    execStmt rec (.assign d (some op) ⟨e, es⟩) st
      = (do Env.tick
            let newVal ← (do let l ← evalLhs rec d; foldOp rec op l (e :: es))
            fatal (writeLhs rec (assignW newVal) d)
            pure st) := rfl

/-- `say e` evaluates `e` and prints the canonical text `Spec.text` of its value. -/
theorem C03_say [CharOps] (rec : Rec N) (e : Expr N) (st : ExecSt N) :
    execStmt rec (.output e) st
      = (do Env.tick
            let v ← rec.evalExpr e
            Env.output (Spec.text v)
            pure st) := by
  show (do Env.tick
           let v ← rec.evalExpr e
           let text ← M.liftV v.toOutput
           Env.output text
           pure st) = _
  simp only [Val.toOutput_eq, Val.outputText_eq_spec]
  rfl

end
end Rrss
