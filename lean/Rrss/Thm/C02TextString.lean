/-
  Rrss.Thm.C02TextString — property C02 at the level of CHARACTER STRINGS for programs with poetic
  strings `X says …` (continuation of Rrss/Thm/C02TextPoetic.lean): the two theorems that were
  `_partial` there, WITHOUT the hypothesis quantified over all template choices.

  In `C02_text_poetic_string_partial` the hypothesis `hstr` (the texts stored in the tree for
  `X says TEXT` are the slices of `spell items e` at the offsets of the pieces: `progStrFits`) was
  asked for EVERY choice of templates `c₂` that agrees with the visible pieces on kinds, spellings,
  payloads and start offsets.  Here it is asked for ONE such choice, the given `c`: the length of
  every token list of the grammar depends on the alternatives picked only
  (`progToks_length_of_pick`, `progToksD_length_of_pick`; per statement `stmtToks_length_of_pick`,
  `stmtToksD_length_of_pick`), so two choices with the same picks put the token of every node of the
  syntax at the same index, and `progStrFits` reads only views and start offsets of tokens
  (`progStrFits_congr`).  For a concrete text `hva` and `hstr` are closed propositions that the
  kernel evaluates (see the examples).  The `_partial` theorems are corollaries (and are used in
  the proof).  (Helper lemmas: Rrss/Lemmas/SpellString.lean.)

  Note: the KINDS of the tokens do not depend on the picks only — `mkTok (.anyKind s)` (the `it` of
  `break it down`, `it` / `the` of `take it to the top`) keeps the kind of the template; lengths
  do, and that is what is needed.
-/
import Rrss.Thm.C02TextPoetic
import Rrss.Lemmas.SpellString
namespace Rrss
namespace C02Text
open Lexer Parser Grammar Spelling

/- FULL STATEMENT (not proved): as in Rrss/Thm/C02Text.lean — `parseProgram kw text = .ok p` with
   `p.code.map eraseB = progToAst bs` for EVERY program `bs` and every admissible way of writing it
   down.  What is still missing after this file: the items listed at the top of
   Rrss/Thm/C02TextPoetic.lean other than the first (`hyphensOK` for every `Minus` after an `is`
   piece; the spellings outside Spec/Spelling.lean), and a derivation of `hstr` from the pieces
   alone (it is the statement that the TEXT parameter of each `.poeticStr` of `bs` is what was
   written after `says␣`; for a concrete text it is decided by kernel evaluation). -/

section
variable {N : Type} [CharOps]

/-- **Token-list lengths depend on the picks only.** Two choices that pick the same alternatives
    give token lists of the same length, whatever their template tokens: for programs … -/
theorem progToks_length_pick (bs : List (List (Statement N))) (c c₂ : Choices N)
    (hp : c.pick = c₂.pick) : (progToks bs c).length = (progToks bs c₂).length :=
  progToks_length_of_pick bs c c₂ hp

/-- … for programs that end with the input (the last `d` newlines omitted) … -/
theorem progToksD_length_pick (d : Nat) (bs : List (List (Statement N))) (c c₂ : Choices N)
    (hp : c.pick = c₂.pick) : (progToksD d bs c).length = (progToksD d bs c₂).length :=
  progToksD_length_of_pick d bs c c₂ hp

/-- … and for every statement, in both spellings. -/
theorem stmtToks_length_pick (s : Statement N) (d : Nat) (c c₂ : Choices N) (hp : c.pick = c₂.pick) :
    (s.toks c).length = (s.toks c₂).length ∧ (s.toksD d c).length = (s.toksD d c₂).length :=
  ⟨stmtToks_length_of_pick s c c₂ hp, stmtToksD_length_of_pick d s c c₂ hp⟩

/-- non-vacuity: the templates `choicesSays` of the example further down, the templates
    `choicesSays'` (same picks, other `after` snapshots) and the all-default templates give 7
    tokens each for `x says Hello, World! (you)⏎⏎`, and 5 each for `x says hi, there!<EOF>`; the
    `says` statement alone has 5 tokens -/
example : (@progToks Int asciiOps SpellPoeticEx.progSays SpellStringEx.choicesSays).length
    = (@progToks Int asciiOps SpellPoeticEx.progSays SpellStringEx.choicesSays').length :=
  @progToks_length_pick Int asciiOps _ _ _ rfl
example : (@progToks Int asciiOps SpellPoeticEx.progSays SpellStringEx.choicesSays).length = 7 ∧
    (@progToks Int asciiOps SpellPoeticEx.progSays SpellStringEx.choicesSays').length = 7 ∧
    (@progToks Int asciiOps SpellPoeticEx.progSays ⟨fun _ => 0, fun _ => default⟩).length = 7 := by
  decide +kernel
example : (@progToksD Int asciiOps 1 SpellPoeticEx.progSaysEof SpellStringEx.choicesSaysEof).length
    = (@progToksD Int asciiOps 1 SpellPoeticEx.progSaysEof ⟨fun _ => 0, fun _ => default⟩).length :=
  @progToksD_length_pick Int asciiOps 1 _ _ _ rfl
example : (@progToksD Int asciiOps 1 SpellPoeticEx.progSaysEof SpellStringEx.choicesSaysEof).length = 5 ∧
    (@progToksD Int asciiOps 1 SpellPoeticEx.progSaysEof ⟨fun _ => 0, fun _ => default⟩).length = 5 := by
  decide +kernel
example : ∀ s ∈ SpellPoeticEx.progSays.flatten,
    (@Statement.toks Int asciiOps s SpellStringEx.choicesSays).length = 5 ∧
    (@Statement.toksD Int asciiOps 1 s ⟨fun _ => 0, fun _ => default⟩).length = 5 := by
  decide +kernel
/-- the KINDS of the tokens do not depend on the picks only: the `it` of `break it down` keeps the
    kind of its template (`mkTok (.anyKind s)`) — concrete evaluation -/
example :
    (@Statement.toks Int asciiOps (.simple (.break_ (some (str% "it"))) .none)
        ⟨fun _ => 0, fun _ => { kind := .word, spelling := [], start := 0, range := default }⟩).map (·.kind)
      = [.break_, .word, .down] ∧
    (@Statement.toks Int asciiOps (.simple (.break_ (some (str% "it"))) .none)
        ⟨fun _ => 0, fun _ => { kind := .pronoun, spelling := [], start := 0, range := default }⟩).map (·.kind)
      = [.break_, .pronoun, .down] := by
  decide +kernel

/-- **The poetic-string conditions read views and start offsets only.** If two choices pick the
    same alternatives and their token lists agree token by token on kind, spelling, payloads and
    start offset, the poetic-string conditions hold for the one iff they hold for the other
    (here: one direction; the hypotheses are symmetric). -/
theorem progStrFits_of_agree (src : Str) (bs : List (List (Statement N))) (c c₂ : Choices N)
    (hp : c.pick = c₂.pick)
    (hv : (progToks bs c).map (fun t => (tview t, t.start))
      = (progToks bs c₂).map (fun t => (tview t, t.start)))
    (h : progStrFits src bs c) : progStrFits src bs c₂ :=
  progStrFits_congr src bs c c₂ hp hv h

/-- non-vacuity: `choicesSays` and `choicesSays'` pick the same alternatives and agree on views
    and starts (kernel evaluation) but are different templates (`says_differ`); the conditions,
    evaluated for the first, carry over to the second -/
example : progStrFits (spell SpellPoeticEx.itemsSays []) SpellPoeticEx.progSays SpellStringEx.choicesSays' :=
  @progStrFits_of_agree Int asciiOps (spell SpellPoeticEx.itemsSays []) SpellPoeticEx.progSays
    SpellStringEx.choicesSays SpellStringEx.choicesSays' rfl SpellStringEx.says_agree
    SpellStringEx.says_strFits_given

/-- **… for the spellings that end with the input.** The same for `progToksD d` / `progStrFitsD`. -/
theorem progStrFitsD_of_agree (src : Str) (d : Nat) (bs : List (List (Statement N))) (c c₂ : Choices N)
    (hp : c.pick = c₂.pick)
    (hv : (progToksD d bs c).map (fun t => (tview t, t.start))
      = (progToksD d bs c₂).map (fun t => (tview t, t.start)))
    (h : progStrFitsD src d bs c) : progStrFitsD src d bs c₂ :=
  progStrFitsD_congr src d bs c c₂ hp hv h

/-- non-vacuity: the same for `x says hi, there!<EOF>` (`d = 1`) -/
example : progStrFitsD (spell SpellPoeticEx.itemsSaysEof ['!']) 1 SpellPoeticEx.progSaysEof
    SpellStringEx.choicesSaysEof' :=
  @progStrFitsD_of_agree Int asciiOps (spell SpellPoeticEx.itemsSaysEof ['!']) 1 SpellPoeticEx.progSaysEof
    SpellStringEx.choicesSaysEof SpellStringEx.choicesSaysEof' rfl SpellStringEx.saysEof_agree
    SpellStringEx.saysEof_strFits_given

variable [NumOps N]

/-- **C02 on character strings, poetic strings.** `C02_text` for ALL statement kinds
    (`progLexable hy true`), poetic strings `X says|say <text>` included; the rest of a `says` line
    may be any admissible run of pieces and separators up to a line-feed piece.  The templates `c`
    carry the kinds, spellings, payloads and START OFFSETS of the visible pieces (`hva`;
    `visibleAt items` is computed from the lengths of pieces and separators — nothing about the
    lexer), and FOR THESE TEMPLATES the text of every `X says …` of the tree is the slice of
    `spell items e` from the offset of the `says` piece to the offset of the next line-feed piece,
    minus `says␣` (`hstr`: `progStrFits`, the poetic-string part of `progFits`).  Nothing is assumed
    about other templates: the lexer's tokens are templates with the same picks, views and starts
    (`lex_spell_offsets`), and such templates satisfy `progStrFits` as soon as `c` does. -/
theorem C02_text_poetic_string (laws : SpellLaws) (hpl : PunctLower)
    (hdot : (NumOps.parse ['.'] : Option N) = none)
    (kw : List (Str × TK)) (hkw : ∀ w, kw.lookup w = Spec.promised.lookup w)
    (hy : Bool) (bs : List (List (Statement N))) (c : Choices N) (items : List (Sep × Piece)) (e : Sep)
    (hwf : progWf bs = true) (hlx : progLexable hy true bs = true)
    (hminus : hy = true → hyphensOK (visible items) = true)
    (hva : (progToks bs c).map (fun t => (tview t, t.start)) = visibleAt items)
    (hstr : progStrFits (spell items e) bs c)
    (hlen : ulen (spell items e) < 2 ^ 32) (hok : spellOK none items e = true)
    (hnum : ∀ x ∈ items, x.2.kind = .number → (x.2.numOf : Option N).isSome = true) :
    ∃ p : Program N, parseProgram kw (spell items e) = .ok p ∧
      p.code.map eraseB = progToAst bs :=
  C02_text_poetic_string_partial laws hpl hdot kw hkw hy bs c items e hwf hlx hminus
    (strFits_all (spell items e) bs c items hva hstr) hlen hok hnum (views_of_viewsAt hva)

/-- non-vacuity: the text `x says Hello, World! (you)⏎⏎` with the templates
    `SpellStringEx.choicesSays` (all picks `0`; the `i`-th token has the view and the offset of the
    `i`-th visible piece) meets every hypothesis — ALL by kernel evaluation, `hva`
    (`says_viewsAt`) and `hstr` (`says_strFits_given`) included — so it parses to the tree of the
    grammar … -/
example : spell SpellPoeticEx.itemsSays [] = str% "x says Hello, World! (you)\n\n" := by decide +kernel
example : ∃ p : Program Int,
    @parseProgram Int asciiOps numOpsInt defaultKeywords (spell SpellPoeticEx.itemsSays []) = .ok p ∧
    p.code.map eraseB = @progToAst Int asciiOps SpellPoeticEx.progSays :=
  @C02_text_poetic_string Int asciiOps numOpsInt spellLaws_asciiOps
    SpellPoeticEx.punctLower_asciiOps parseInt_dot defaultKeywords defaultKeywords_eq_promised false
    SpellPoeticEx.progSays SpellStringEx.choicesSays SpellPoeticEx.itemsSays []
    (by decide +kernel) (by decide +kernel) (fun h => by cases h)
    SpellStringEx.says_viewsAt SpellStringEx.says_strFits_given
    (by decide +kernel) (by decide +kernel) (by decide +kernel)
/-- … which is this tree: the text with the ignored `!` and the comment, as the source has it; the
    model's `parseProgram` accepts the text -/
example : @progToAst Int asciiOps SpellPoeticEx.progSays
    = [.mk default [.poeticStr (.ident (.var (.simple (str% "x"))) default)
        (str% "Hello, World! (you)")]] := by rfl
example : @parseReportF Int asciiOps numOpsInt defaultKeywords 200 (spell SpellPoeticEx.itemsSays [])
    = some none := by decide +kernel

/-- **C02 on character strings, poetic strings, texts that end with the input.**
    `C02_text_poetic_string` for the spellings `progToksD d bs c`: if the input ends in a `says`
    line, its text runs to the end of the source (trailing blanks and ignored punctuation included),
    as `progStrFitsD` says — again for the given templates `c` only. -/
theorem C02_text_poetic_string_at_eof (laws : SpellLaws) (hpl : PunctLower)
    (hdot : (NumOps.parse ['.'] : Option N) = none)
    (kw : List (Str × TK)) (hkw : ∀ w, kw.lookup w = Spec.promised.lookup w)
    (hy : Bool) (d : Nat) (bs : List (List (Statement N))) (c : Choices N)
    (items : List (Sep × Piece)) (e : Sep)
    (hwf : progWf bs = true) (hlx : progLexable hy true bs = true)
    (hminus : hy = true → hyphensOK (visible items) = true)
    (hva : (progToksD d bs c).map (fun t => (tview t, t.start)) = visibleAt items)
    (hstr : progStrFitsD (spell items e) d bs c)
    (hlen : ulen (spell items e) < 2 ^ 32) (hok : spellOK none items e = true)
    (hnum : ∀ x ∈ items, x.2.kind = .number → (x.2.numOf : Option N).isSome = true) :
    ∃ p : Program N, parseProgram kw (spell items e) = .ok p ∧
      p.code.map eraseB = progToAst bs :=
  C02_text_poetic_string_at_eof_partial laws hpl hdot kw hkw hy d bs c items e hwf hlx hminus
    (strFitsD_all (spell items e) d bs c items hva hstr) hlen hok hnum (views_of_viewsAt hva)

/-- non-vacuity: the text `x says hi, there!`, which ends with the input (`d = 1`; the `!` is the
    trailing separator), with the templates `SpellStringEx.choicesSaysEof` meets every hypothesis
    (all by kernel evaluation), so it parses to the tree of the grammar, with the text
    `hi, there!`; the model's `parseProgram` accepts the text -/
example : spell SpellPoeticEx.itemsSaysEof ['!'] = str% "x says hi, there!" := by decide +kernel
example : ∃ p : Program Int,
    @parseProgram Int asciiOps numOpsInt defaultKeywords (spell SpellPoeticEx.itemsSaysEof ['!']) = .ok p ∧
    p.code.map eraseB = [.mk default [.poeticStr (.ident (.var (.simple (str% "x"))) default)
        (str% "hi, there!")]] :=
  @C02_text_poetic_string_at_eof Int asciiOps numOpsInt spellLaws_asciiOps
    SpellPoeticEx.punctLower_asciiOps parseInt_dot defaultKeywords defaultKeywords_eq_promised false 1
    SpellPoeticEx.progSaysEof SpellStringEx.choicesSaysEof SpellPoeticEx.itemsSaysEof ['!']
    (by decide +kernel) (by decide +kernel) (fun h => by cases h)
    SpellStringEx.saysEof_viewsAt SpellStringEx.saysEof_strFits_given
    (by decide +kernel) (by decide +kernel) (by decide +kernel)
example : @parseReportF Int asciiOps numOpsInt defaultKeywords 200 (spell SpellPoeticEx.itemsSaysEof ['!'])
    = some none := by decide +kernel

end

end C02Text
end Rrss
