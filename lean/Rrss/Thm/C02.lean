/-
  Rrss.Thm.C02 — "every spelling of a program parses to the same syntax tree", parser half
  (token level). The lexer half (a spelled token lexes to the intended kind whatever the alias,
  case, surrounding noise) is C12 + the regenerated keyword-table theorems.

  Setting (Rrss/Spec/Grammar.lean). `Expression N`, `SimpleStmt N`, `Statement N` are a stratified
  syntax in spine form whose inhabitants are the trees that can be written without parentheses.
  `unparse e c` / `s.toks c` / `progToks bs c` are the tokens for the choices `c : Choices N`:
  `c` decides every free alternative of the grammar (`plus`/`with`, optional `and` after a list
  comma, argument separator `,`|`, and`|`&`|`'n'`|`and`, `is`/`'s`/`'re`, `""`/`empty`, `say` alias,
  direction before/after `turn`, `back` after return, commas after `up`, number of blank lines …)
  AND supplies an arbitrary template token for every token, of which only the kind and the
  payload (identifier spelling, number, string) are overwritten: so the theorems quantify over all
  positions, ranges, `after` snapshots and keyword spellings. `toAst` / `toStmt` / `progToAst`
  give the tree the grammar assigns; `wf` are the side conditions that the absence of parentheses
  imposes (DESIGN Appendix A); `Stop rest` says that the first token of `rest` cannot continue the
  construct. Trees are compared after erasing source ranges and locations (`eraseRanges`,
  `eraseS`, `eraseB`). Fuel: the number of tokens suffices.
-/
import Rrss.Lemmas.RoundTripSentences
namespace Rrss
namespace C02
open Parser Grammar

section
variable {N : Type} [CharOps]

/-- **C02, expressions.** For every well-formed expression syntax `e`, every choice of spelling
    alternatives and token positions `c`, every continuation `rest` whose first token cannot
    continue `e`, every parser state whose tokens are `unparse e c ++ rest` (outside a list), and
    every fuel `n ≥` the number of tokens of `e`: `parse_expression` succeeds, consumes exactly
    the tokens of `e`, leaves the `parsing_list` flag as it was, and returns the tree `toAst e`
    up to source ranges. Precedence, left associativity, list operands, argument lists, the
    `is`-chain are what `toAst` says — independent of every choice. -/
theorem C02_expr (e : Expression N) (c : Choices N) (rest : List (Tok N)) (st : PState N) (n : Nat)
    (hwf : e.wf = true) (hstop : e.Stop rest) (htoks : st.toks = unparse e c ++ rest)
    (hflag : st.parsingList = false) (hn : (unparse e c).length ≤ n) :
    ∃ t st', parseExpression (parser n) st = .ok (t, st') ∧
      t.eraseRanges = (toAst e).eraseRanges ∧ st'.toks = rest ∧ st'.parsingList = false := by
  obtain ⟨t, st', h, h1, _, h2, h3, _⟩ := expression_roundtrip e c rest st n false hwf hstop htoks hflag hn
  exact ⟨t, st', h, h1, h2, h3⟩

/-- non-vacuity: `a with b times x, and y` (second alternative everywhere) meets the hypotheses -/
example : ∃ t st', @parseExpression Int Lexer.asciiOps (@parser Int Lexer.asciiOps 8) (Ex.st0 (@unparse Int Lexer.asciiOps Ex.eEx Ex.c1))
      = .ok (t, st') ∧ t.eraseRanges = (@toAst Int Lexer.asciiOps Ex.eEx).eraseRanges ∧ st'.toks = [] ∧ st'.parsingList = false :=
  @C02_expr Int Lexer.asciiOps Ex.eEx Ex.c1 [] _ 8 (by decide +kernel)
    (@stop_of_endsExpr Int Lexer.asciiOps false _ _ rfl) (by simp [Ex.st0]) rfl (by decide +kernel)
example : (@unparse Int Lexer.asciiOps Ex.eEx Ex.c1).map (·.kind)
    = [.word, .with_, .word, .multiply, .word, .comma, .and, .word] := by decide +kernel

/-- **C02, expressions, as the property words it.** Two spellings (choices, positions, fuel,
    continuation) of the same expression parse to the same tree up to source ranges. -/
theorem C02_expr_spelling_independent (e : Expression N) (c₁ c₂ : Choices N) (rest₁ rest₂ : List (Tok N))
    (st₁ st₂ : PState N) (n₁ n₂ : Nat) (hwf : e.wf = true)
    (hstop₁ : e.Stop rest₁) (hstop₂ : e.Stop rest₂)
    (htoks₁ : st₁.toks = unparse e c₁ ++ rest₁) (htoks₂ : st₂.toks = unparse e c₂ ++ rest₂)
    (hflag₁ : st₁.parsingList = false) (hflag₂ : st₂.parsingList = false)
    (hn₁ : (unparse e c₁).length ≤ n₁) (hn₂ : (unparse e c₂).length ≤ n₂) :
    ∃ t₁ t₂ st₁' st₂', parseExpression (parser n₁) st₁ = .ok (t₁, st₁') ∧
      parseExpression (parser n₂) st₂ = .ok (t₂, st₂') ∧ t₁.eraseRanges = t₂.eraseRanges := by
  obtain ⟨t₁, st₁', h₁, e₁, _⟩ := C02_expr e c₁ rest₁ st₁ n₁ hwf hstop₁ htoks₁ hflag₁ hn₁
  obtain ⟨t₂, st₂', h₂, e₂, _⟩ := C02_expr e c₂ rest₂ st₂ n₂ hwf hstop₂ htoks₂ hflag₂ hn₂
  exact ⟨t₁, t₂, st₁', st₂', h₁, h₂, e₁.trans e₂.symm⟩
/-- non-vacuity: the spellings `a plus b times x, y` and `a with b times x, and y` -/
example : ∃ t₁ t₂ st₁' st₂', @parseExpression Int Lexer.asciiOps (@parser Int Lexer.asciiOps 7)
        (Ex.st0 (@unparse Int Lexer.asciiOps Ex.eEx Ex.c0)) = .ok (t₁, st₁') ∧
      @parseExpression Int Lexer.asciiOps (@parser Int Lexer.asciiOps 8)
        (Ex.st0 (@unparse Int Lexer.asciiOps Ex.eEx Ex.c1)) = .ok (t₂, st₂') ∧ t₁.eraseRanges = t₂.eraseRanges :=
  @C02_expr_spelling_independent Int Lexer.asciiOps Ex.eEx Ex.c0 Ex.c1 [] [] _ _ 7 8 (by decide +kernel)
    (@stop_of_endsExpr Int Lexer.asciiOps false _ _ rfl) (@stop_of_endsExpr Int Lexer.asciiOps false _ _ rfl)
    (by simp [Ex.st0]) (by simp [Ex.st0]) rfl rfl (by decide +kernel) (by decide +kernel)

/-- **C02, inside a list element** (`parsing_list = true`, where no operand list may have more than
    one element): same statement with the flag set; the flag is restored. -/
theorem C02_expr_in_list (e : Expression N) (c : Choices N) (rest : List (Tok N)) (st : PState N) (n : Nat)
    (hwf : logicalSyn.wf true e = true) (hstop : logicalSyn.Stop true e rest)
    (htoks : st.toks = unparse e c ++ rest) (hflag : st.parsingList = true)
    (hn : (unparse e c).length ≤ n) :
    ∃ t st', parseExpression (parser n) st = .ok (t, st') ∧
      t.eraseRanges = (toAst e).eraseRanges ∧ st'.toks = rest ∧ st'.parsingList = true := by
  obtain ⟨t, st', h, h1, _, h2, h3, _⟩ := expression_roundtrip e c rest st n true hwf hstop htoks hflag hn
  exact ⟨t, st', h, h1, h2, h3⟩
/-- non-vacuity: `a plus b times x` inside a list element -/
example : ∃ t st', @parseExpression Int Lexer.asciiOps (@parser Int Lexer.asciiOps 5)
      ⟨[], @unparse Int Lexer.asciiOps (sPrecedence (Ex.va (str% "a")) (Ex.va (str% "b")) (Ex.va (str% "x"))) Ex.c0 ++ [],
        ⟨1, 0, 0⟩, ⟨1, 0, 0⟩, true⟩ = .ok (t, st') ∧
      t.eraseRanges = (@toAst Int Lexer.asciiOps (sPrecedence (Ex.va (str% "a")) (Ex.va (str% "b"))
        (Ex.va (str% "x")))).eraseRanges ∧ st'.toks = [] ∧ st'.parsingList = true :=
  @C02_expr_in_list Int Lexer.asciiOps _ Ex.c0 [] _ 5 (by decide +kernel)
    (@stop_of_endsExpr Int Lexer.asciiOps true _ _ rfl) rfl rfl (by decide +kernel)

/-! ### consequences, with concrete trees (`EndsExpr rest`: the next token continues no expression) -/

/-- **Precedence.** `a plus b times x` (also with `with` for `plus`) is `a + (b * x)`: for all variable
    names, positions and fuel. -/
theorem C02_precedence (a b x : VarSpec) (ha : a.wf = true) (hb : b.wf = true) (hx : x.wf = true)
    (c : Choices N) (rest : List (Tok N)) (st : PState N) (n : Nat) (hrest : EndsExpr rest)
    (htoks : st.toks = unparse (sPrecedence a b x) c ++ rest)
    (hflag : st.parsingList = false) (hn : (unparse (sPrecedence a b x : Expression N) c).length ≤ n) :
    ∃ t st', parseExpression (parser n) st = .ok (t, st') ∧ st'.toks = rest ∧
      t.eraseRanges = .bin .plus a.e (.bin .multiply b.e x.e []) [] := by
  obtain ⟨t, st', h, h1, h2, _⟩ := C02_expr (sPrecedence a b x) c rest st n
    (sPrecedence_wf a b x ha hb hx)
    (stop_of_endsExpr false _ hrest) htoks hflag hn
  exact ⟨t, st', h, h2, h1⟩
/-- the model's parser on hand-built tokens (ASCII, integers): `a plus b times c`, `a with b times c` -/
example : Ex.runE 5 [Ex.w (str% "a"), Ex.k .plus, Ex.w (str% "b"), Ex.k .multiply, Ex.w (str% "c")]
    = some (.bin .plus (Ex.v (str% "a")) (.bin .multiply (Ex.v (str% "b")) (Ex.v (str% "c")) []) [], []) := by rfl
example : Ex.runE 5 [Ex.w (str% "a"), Ex.k .with_, Ex.w (str% "b"), Ex.k .multiply, Ex.w (str% "c")]
    = some (.bin .plus (Ex.v (str% "a")) (.bin .multiply (Ex.v (str% "b")) (Ex.v (str% "c")) []) [], []) := by rfl

/-- **Left associativity.** `a minus b minus x` is `(a - b) - x`. -/
theorem C02_left_assoc (a b x : VarSpec) (ha : a.wf = true) (hb : b.wf = true) (hx : x.wf = true)
    (c : Choices N) (rest : List (Tok N)) (st : PState N) (n : Nat) (hrest : EndsExpr rest)
    (htoks : st.toks = unparse (sLeftAssoc a b x) c ++ rest)
    (hflag : st.parsingList = false) (hn : (unparse (sLeftAssoc a b x : Expression N) c).length ≤ n) :
    ∃ t st', parseExpression (parser n) st = .ok (t, st') ∧ st'.toks = rest ∧
      t.eraseRanges = .bin .minus (.bin .minus a.e b.e []) x.e [] := by
  obtain ⟨t, st', h, h1, h2, _⟩ := C02_expr (sLeftAssoc a b x) c rest st n
    (sLeftAssoc_wf a b x ha hb hx)
    (stop_of_endsExpr false _ hrest) htoks hflag hn
  exact ⟨t, st', h, h2, h1⟩
/-- `a minus b minus c` -/
example : Ex.runE 5 [Ex.w (str% "a"), Ex.k .minus, Ex.w (str% "b"), Ex.k .minus, Ex.w (str% "c")]
    = some (.bin .minus (.bin .minus (Ex.v (str% "a")) (Ex.v (str% "b")) []) (Ex.v (str% "c")) [], []) := by rfl

/-- **List operands.** `a times b, x` (also `a times b, and x`) is `a * [b, x]`. -/
theorem C02_list_operand (a b x : VarSpec) (ha : a.wf = true) (hb : b.wf = true) (hx : x.wf = true)
    (c : Choices N) (rest : List (Tok N)) (st : PState N) (n : Nat) (hrest : EndsExpr rest)
    (htoks : st.toks = unparse (sList a b x) c ++ rest)
    (hflag : st.parsingList = false) (hn : (unparse (sList a b x : Expression N) c).length ≤ n) :
    ∃ t st', parseExpression (parser n) st = .ok (t, st') ∧ st'.toks = rest ∧
      t.eraseRanges = .bin .multiply a.e b.e [x.e] := by
  obtain ⟨t, st', h, h1, h2, _⟩ := C02_expr (sList a b x) c rest st n
    (sList_wf a b x ha hb hx)
    (stop_of_endsExpr false _ hrest) htoks hflag hn
  exact ⟨t, st', h, h2, h1⟩
/-- `a times b, c` and `a times b, and c` -/
example : Ex.runE 5 [Ex.w (str% "a"), Ex.k .multiply, Ex.w (str% "b"), Ex.k .comma, Ex.w (str% "c")]
    = some (.bin .multiply (Ex.v (str% "a")) (Ex.v (str% "b")) [Ex.v (str% "c")], []) := by rfl
example : Ex.runE 6 [Ex.w (str% "a"), Ex.k .multiply, Ex.w (str% "b"), Ex.k .comma, Ex.k .and, Ex.w (str% "c")]
    = some (.bin .multiply (Ex.v (str% "a")) (Ex.v (str% "b")) [Ex.v (str% "c")], []) := by rfl

/-- **A comma list attaches to the nearest operator on its left.** `a plus b times x, y` is
    `a + (b * [x, y])`. -/
theorem C02_list_nearest (a b x y : VarSpec) (ha : a.wf = true) (hb : b.wf = true) (hx : x.wf = true) (hy : y.wf = true)
    (c : Choices N) (rest : List (Tok N)) (st : PState N) (n : Nat) (hrest : EndsExpr rest)
    (htoks : st.toks = unparse (sListNearest a b x y) c ++ rest)
    (hflag : st.parsingList = false) (hn : (unparse (sListNearest a b x y : Expression N) c).length ≤ n) :
    ∃ t st', parseExpression (parser n) st = .ok (t, st') ∧ st'.toks = rest ∧
      t.eraseRanges = .bin .plus a.e (.bin .multiply b.e x.e [y.e]) [] := by
  obtain ⟨t, st', h, h1, h2, _⟩ := C02_expr (sListNearest a b x y) c rest st n
    (sListNearest_wf a b x y ha hb hx hy)
    (stop_of_endsExpr false _ hrest) htoks hflag hn
  exact ⟨t, st', h, h2, h1⟩
/-- `a plus b times c, d` -/
example : Ex.runE 7 [Ex.w (str% "a"), Ex.k .plus, Ex.w (str% "b"), Ex.k .multiply, Ex.w (str% "c"), Ex.k .comma,
      Ex.w (str% "d")]
    = some (.bin .plus (Ex.v (str% "a")) (.bin .multiply (Ex.v (str% "b")) (Ex.v (str% "c")) [Ex.v (str% "d")]) [],
        []) := by rfl

/-- **Argument lists.** `f taking x, y`, `f taking x, and y`, `f taking x & y`, `f taking x 'n' y` and
    `f taking x and y` all are the call of `f` with the two arguments `x`, `y`. -/
theorem C02_arguments (f x y : VarSpec) (hf : f.wf = true) (hx : x.wf = true) (hy : y.wf = true)
    (c : Choices N) (rest : List (Tok N)) (st : PState N) (n : Nat) (hrest : EndsExpr rest)
    (htoks : st.toks = unparse (sArgs f x y) c ++ rest)
    (hflag : st.parsingList = false) (hn : (unparse (sArgs f x y : Expression N) c).length ≤ n) :
    ∃ t st', parseExpression (parser n) st = .ok (t, st') ∧ st'.toks = rest ∧
      t.eraseRanges = .prim (.call f.toName default [x.e, y.e]) := by
  obtain ⟨t, st', h, h1, h2, _⟩ := C02_expr (sArgs f x y) c rest st n
    (sArgs_wf f x y hf hx hy)
    (stop_of_endsExpr false _ hrest) htoks hflag hn
  exact ⟨t, st', h, h2, h1⟩
/-- `F taking x, y` and `F taking x and y` -/
example : Ex.runE 5 [Ex.w (str% "F"), Ex.k .taking, Ex.w (str% "x"), Ex.k .comma, Ex.w (str% "y")]
    = some (.prim (.call (.simple (str% "F")) default [Ex.v (str% "x"), Ex.v (str% "y")]), []) := by rfl
example : Ex.runE 5 [Ex.w (str% "F"), Ex.k .taking, Ex.w (str% "x"), Ex.k .and, Ex.w (str% "y")]
    = some (.prim (.call (.simple (str% "F")) default [Ex.v (str% "x"), Ex.v (str% "y")]), []) := by rfl

/-- **Unary binds tighter than comparison.** `not x is y` is `(not x) is y`. -/
theorem C02_not_binds_tighter (x y : VarSpec) (hx : x.wf = true) (hy : y.wf = true)
    (c : Choices N) (rest : List (Tok N)) (st : PState N) (n : Nat) (hrest : EndsExpr rest)
    (htoks : st.toks = unparse (sNotIs x y) c ++ rest)
    (hflag : st.parsingList = false) (hn : (unparse (sNotIs x y : Expression N) c).length ≤ n) :
    ∃ t st', parseExpression (parser n) st = .ok (t, st') ∧ st'.toks = rest ∧
      t.eraseRanges = .bin .eq (.un .not x.e) y.e [] := by
  obtain ⟨t, st', h, h1, h2, _⟩ := C02_expr (sNotIs x y) c rest st n
    (sNotIs_wf x y hx hy)
    (stop_of_endsExpr false _ hrest) htoks hflag hn
  exact ⟨t, st', h, h2, h1⟩
/-- `not x is y`, followed by `into`, which is left alone -/
example : Ex.runE 4 [Ex.k .not, Ex.w (str% "x"), Ex.k .is, Ex.w (str% "y"), Ex.k .into]
    = some (.bin .eq (.un .not (Ex.v (str% "x"))) (Ex.v (str% "y")) [], [.into]) := by rfl

/-! ### statements, blocks, programs -/

/-- **C02, statements** (all statement kinds except poetic assignments, which are C11, and
    `rock … like`; compound statements with their nested blocks: `if`/`else`, `while`, `until`,
    function definitions with the rule that an `if … else …` ends a function body). For every
    well-formed statement syntax `s`, all choices `c` whose template tokens carry readable lexer
    snapshots (`Sane`: `current_loc` must not underflow — true of every lexed token) and are not
    spelled `it` (`NoIt`: a bare `break` looks at the spelling of the next token), every
    continuation that cannot continue `s`: `parse_statement` consumes exactly the tokens of `s` and
    returns `toStmt s` up to ranges and locations. One blank line closes exactly one block: the
    tokens of a compound statement do not include the blank line that closes it (the enclosing
    block's `expect_eol` takes it), `s.Stop` asks for it (or the end of the tokens). -/
theorem C02_statement (s : Statement N) (c : Choices N) (rest : List (Tok N)) (st : PState N) (n : Nat)
    (hwf : s.wf = true) (hstop : s.Stop rest) (htoks : st.toks = s.toks c ++ rest)
    (hflag : st.parsingList = false) (hsane : c.Sane st.src) (hit : c.NoIt)
    (hn : (s.toks c).length ≤ n) :
    ∃ s' st', parseStatement (parser n) st = .ok (some s', st') ∧ eraseS s' = s.toStmt ∧
      st'.toks = rest ∧ st'.parsingList = false :=
  statement_roundtrip s c rest st n hwf hstop htoks hflag hsane hit hn

/-- non-vacuity: the function `f takes p, and q / if x / give back x back / else / say 4` (one blank
    line closes the `else` block, the `if` and the function) meets the hypotheses … -/
example : ∃ s' st', @parseStatement Int Lexer.asciiOps (@parser Int Lexer.asciiOps 21)
      (Ex.st0 (@Statement.toks Int Lexer.asciiOps Ex.funEx Ex.c1 ++ [Ex.k .newline]))
      = .ok (some s', st') ∧ eraseS s' = @Statement.toStmt Int Lexer.asciiOps Ex.funEx ∧
      st'.toks = [Ex.k .newline] ∧ st'.parsingList = false :=
  @C02_statement Int Lexer.asciiOps Ex.funEx Ex.c1 [Ex.k .newline] _ 21 (by decide +kernel) (Or.inr rfl) rfl rfl
    Ex.c1_sane Ex.c1_noIt (by decide +kernel)
/-- … these are its tokens and its tree -/
example : (@Statement.toks Int Lexer.asciiOps Ex.funEx Ex.c1).map (·.kind)
    = [.word, .takes, .word, .comma, .and, .word, .newline, .if_, .word, .newline, .return_, .back, .word,
       .back, .newline, .else_, .newline, .sayAlias, .number, .newline] := by decide +kernel
example : @Statement.toStmt Int Lexer.asciiOps Ex.funEx
    = .func (.simple (str% "f")) default [(.simple (str% "p"), default), (.simple (str% "q"), default)]
        (.mk default [.ifS (Ex.v (str% "x")) (.mk default [.ret (Ex.v (str% "x"))])
          (some (.mk default [.output (Ex.lit 4)]))]) := by rfl

/-- **C02, statements: two spellings, one tree.** -/
theorem C02_statement_spelling_independent (s : Statement N) (c₁ c₂ : Choices N) (rest₁ rest₂ : List (Tok N))
    (st₁ st₂ : PState N) (n₁ n₂ : Nat) (hwf : s.wf = true) (hstop₁ : s.Stop rest₁) (hstop₂ : s.Stop rest₂)
    (htoks₁ : st₁.toks = s.toks c₁ ++ rest₁) (htoks₂ : st₂.toks = s.toks c₂ ++ rest₂)
    (hflag₁ : st₁.parsingList = false) (hflag₂ : st₂.parsingList = false)
    (hsane₁ : c₁.Sane st₁.src) (hsane₂ : c₂.Sane st₂.src) (hit₁ : c₁.NoIt) (hit₂ : c₂.NoIt)
    (hn₁ : (s.toks c₁).length ≤ n₁) (hn₂ : (s.toks c₂).length ≤ n₂) :
    ∃ s₁ s₂ st₁' st₂', parseStatement (parser n₁) st₁ = .ok (some s₁, st₁') ∧
      parseStatement (parser n₂) st₂ = .ok (some s₂, st₂') ∧ eraseS s₁ = eraseS s₂ := by
  obtain ⟨s₁, st₁', h₁, e₁, _⟩ := C02_statement s c₁ rest₁ st₁ n₁ hwf hstop₁ htoks₁ hflag₁ hsane₁ hit₁ hn₁
  obtain ⟨s₂, st₂', h₂, e₂, _⟩ := C02_statement s c₂ rest₂ st₂ n₂ hwf hstop₂ htoks₂ hflag₂ hsane₂ hit₂ hn₂
  exact ⟨s₁, s₂, st₁', st₂', h₁, h₂, e₁.trans e₂.symm⟩
/-- non-vacuity: the two spellings of the function above (first / second alternative everywhere) -/
example : ∃ s₁ s₂ st₁' st₂', @parseStatement Int Lexer.asciiOps (@parser Int Lexer.asciiOps 21)
        (Ex.st0 (@Statement.toks Int Lexer.asciiOps Ex.funEx Ex.c0 ++ [])) = .ok (some s₁, st₁') ∧
      @parseStatement Int Lexer.asciiOps (@parser Int Lexer.asciiOps 21)
        (Ex.st0 (@Statement.toks Int Lexer.asciiOps Ex.funEx Ex.c1 ++ [])) = .ok (some s₂, st₂') ∧
      eraseS s₁ = eraseS s₂ :=
  @C02_statement_spelling_independent Int Lexer.asciiOps Ex.funEx Ex.c0 Ex.c1 [] [] _ _ 21 21 (by decide +kernel)
    (Or.inl rfl) (Or.inl rfl) rfl rfl rfl rfl Ex.c0_sane Ex.c1_sane Ex.c0_noIt Ex.c1_noIt (by decide +kernel)
    (by decide +kernel)

/-- **C02, blocks.** A block (its lines, each statement with its line end `[.|,] newline`; one
    `newline` if the block is empty) followed by the end of the tokens, a blank line or `else` is
    parsed by `parse_block` to the block of its statements, consuming exactly its tokens. -/
theorem C02_block (b : List (Statement N)) (c : Choices N) (rest : List (Tok N)) (st : PState N) (n : Nat)
    (hwf : stmtsWf b = true) (hstop : BlockEnd rest) (htoks : st.toks = blockToks b c ++ rest)
    (hflag : st.parsingList = false) (hlast : SnapOK st.src st.last) (hsane : c.Sane st.src) (hit : c.NoIt)
    (hn : (blockToks b c).length ≤ n) :
    ∃ B st', parseBlock (parser n) st = .ok (B, st') ∧ eraseB B = .mk default (stmtsToStmt b) ∧
      st'.toks = rest ∧ st'.parsingList = false :=
  block_roundtrip b c rest st n hwf hstop htoks hflag hlast hsane hit hn
/-- non-vacuity: the block `say 1. / say 2` followed by `else` -/
example : ∃ B st', @parseBlock Int Lexer.asciiOps (@parser Int Lexer.asciiOps 7)
      (Ex.st0 (@blockToks Int Lexer.asciiOps [Ex.sayS 1 .dot, Ex.sayS 2 .none] Ex.c0 ++ [Ex.k .else_]))
      = .ok (B, st') ∧ eraseB B = .mk default (@stmtsToStmt Int Lexer.asciiOps [Ex.sayS 1 .dot, Ex.sayS 2 .none]) ∧
      st'.toks = [Ex.k .else_] ∧ st'.parsingList = false :=
  @C02_block Int Lexer.asciiOps [Ex.sayS 1 .dot, Ex.sayS 2 .none] Ex.c0 [Ex.k .else_] _ 7 (by decide +kernel)
    (Or.inr rfl) rfl rfl ⟨by decide, by decide⟩ Ex.c0_sane Ex.c0_noIt (by decide +kernel)

/- FULL STATEMENT (not proved): `parseTokens (unparse p c) = .ok (toAst p)` for EVERY program `p` of
   the grammar and every spelling. What `C02_program_partial` and `C02_program_eof_partial` below
   (with `C02_statement`) lack:
   (1) poetic assignments `X is/says …` (property C11) and `rock X like <poetic literal>` are not
       statement kinds of `SimpleStmt`;
   (2) end of input: covered are the programs in which every line ends with a `Newline` token and
       every block is closed by its blank line (`C02_program_partial`) and those in which the
       `Newline` of the last line and the blank lines closing the blocks open there are all
       omitted (`C02_program_eof_partial`: `say 1<EOF>`, `if x⏎say 1.<EOF>`); not covered: the
       end of the tokens right after a header line (`if x<EOF>`, `else<EOF>`, `f takes x<EOF>`)
       and omitting only some of the closing blank lines;
   (3) the hypotheses `Sane` (lexer snapshots of the tokens readable by `current_loc`; true of lexed
       tokens by C12) and `NoIt` (no template token spelled `it`; only needed after a bare `break`)
       are conditions on the token templates, not on the program.
   Everything else of DESIGN §6 "Thm P" is covered: all expression forms, 17 of the 18 statement
   kinds, blocks closed by exactly one blank line, `else` bound to the open `if`, the
   if/else-ends-a-function rule, argument/parameter separators, optional words. -/

/-- **C02, programs** (partial only in the sense of the comment above). A program — non-empty
    top-level blocks, each closed by a blank line, with any number of further blank lines before
    each block and at the end — is parsed by `Parser::parse` to the list of its blocks (up to
    ranges and locations), consuming all tokens. -/
theorem C02_program_partial (bs : List (List (Statement N))) (c : Choices N) (st : PState N) (n : Nat)
    (hwf : progWf bs = true) (htoks : st.toks = progToks bs c) (hflag : st.parsingList = false)
    (hlast : SnapOK st.src st.last) (hsane : c.Sane st.src) (hit : c.NoIt)
    (hn : (progToks bs c).length ≤ n) :
    ∃ p st', parseProgramBody (parser n) st = .ok (p, st') ∧ p.code.map eraseB = progToAst bs ∧
      st'.toks = [] :=
  program_roundtrip bs c st n hwf htoks hflag hlast hsane hit hn

/-- non-vacuity: a program of two blocks (an `if`/`else` followed by a `say`; the function above),
    spelled with extra blank lines, meets the hypotheses … -/
example : ∃ p st', @parseProgramBody Int Lexer.asciiOps (@parser Int Lexer.asciiOps 43)
      (Ex.st0 (@progToks Int Lexer.asciiOps Ex.progEx Ex.c1)) = .ok (p, st') ∧
      p.code.map eraseB = @progToAst Int Lexer.asciiOps Ex.progEx ∧ st'.toks = [] :=
  @C02_program_partial Int Lexer.asciiOps Ex.progEx Ex.c1 _ 43 (by decide +kernel) rfl rfl ⟨by decide, by decide⟩
    Ex.c1_sane Ex.c1_noIt (by decide +kernel)
/-- … these are its tokens and its tree -/
example : (@progToks Int Lexer.asciiOps Ex.progEx Ex.c1).map (·.kind)
    = [.newline, .if_, .word, .newline, .sayAlias, .number, .dot, .newline, .else_, .newline, .sayAlias,
       .number, .newline, .newline, .sayAlias, .number, .comma, .newline, .newline,
       .newline, .word, .takes, .word, .comma, .and, .word, .newline, .if_, .word, .newline, .return_, .back,
       .word, .back, .newline, .else_, .newline, .sayAlias, .number, .newline, .newline, .newline, .newline] := by
  decide +kernel
example : @progToAst Int Lexer.asciiOps Ex.progEx
    = [.mk default [.ifS (Ex.v (str% "x")) (.mk default [.output (Ex.lit 1)])
          (some (.mk default [.output (Ex.lit 2)])), .output (Ex.lit 3)],
       .mk default [.func (.simple (str% "f")) default [(.simple (str% "p"), default), (.simple (str% "q"), default)]
          (.mk default [.ifS (Ex.v (str% "x")) (.mk default [.ret (Ex.v (str% "x"))])
            (some (.mk default [.output (Ex.lit 4)]))])]] := by rfl

/-- **C02, the last statement of the input.** A statement that ends with the tokens — for a
    compound statement: the `Newline` of its last line and the blank lines that close its blocks
    omitted — parses to the same tree. -/
theorem C02_statement_eof (s : Statement N) (c : Choices N) (st : PState N) (n : Nat)
    (hwf : s.wf = true) (htoks : st.toks = s.toksE c) (hflag : st.parsingList = false)
    (hsane : c.Sane st.src) (hit : c.NoIt) (hn : (s.toksE c).length ≤ n) :
    ∃ s' st', parseStatement (parser n) st = .ok (some s', st') ∧ eraseS s' = s.toStmt ∧ st'.toks = [] :=
  statement_roundtripE s c st n hwf htoks hflag hsane hit hn

/-- non-vacuity: the function above without its last `Newline` and closing blank line -/
example : ∃ s' st', @parseStatement Int Lexer.asciiOps (@parser Int Lexer.asciiOps 19)
      (Ex.st0 (@Statement.toksE Int Lexer.asciiOps Ex.funEx Ex.c1)) = .ok (some s', st') ∧
      eraseS s' = @Statement.toStmt Int Lexer.asciiOps Ex.funEx ∧ st'.toks = [] :=
  @C02_statement_eof Int Lexer.asciiOps Ex.funEx Ex.c1 _ 19 (by decide +kernel) rfl rfl Ex.c1_sane Ex.c1_noIt
    (by decide +kernel)
example : (@Statement.toksE Int Lexer.asciiOps Ex.funEx Ex.c1).map (·.kind)
    = [.word, .takes, .word, .comma, .and, .word, .newline, .if_, .word, .newline, .return_, .back, .word,
       .back, .newline, .else_, .newline, .sayAlias, .number] := by decide +kernel

/-- **C02, programs that end with the tokens** (see the comment above). The same program as in
    `C02_program_partial`, spelled without the `Newline` of its last line and without the blank
    lines that close the blocks open there, parses to the same blocks. -/
theorem C02_program_eof_partial (bs : List (List (Statement N))) (c : Choices N) (st : PState N) (n : Nat)
    (hwf : progWf bs = true) (htoks : st.toks = progToksE bs c) (hflag : st.parsingList = false)
    (hlast : SnapOK st.src st.last) (hsane : c.Sane st.src) (hit : c.NoIt)
    (hn : (progToksE bs c).length ≤ n) :
    ∃ p st', parseProgramBody (parser n) st = .ok (p, st') ∧ p.code.map eraseB = progToAst bs ∧
      st'.toks = [] :=
  program_roundtripE bs c st n hwf htoks hflag hlast hsane hit hn

/-- non-vacuity: the program above, ending with `… else⏎say 4<EOF>` -/
example : ∃ p st', @parseProgramBody Int Lexer.asciiOps (@parser Int Lexer.asciiOps 39)
      (Ex.st0 (@progToksE Int Lexer.asciiOps Ex.progEx Ex.c1)) = .ok (p, st') ∧
      p.code.map eraseB = @progToAst Int Lexer.asciiOps Ex.progEx ∧ st'.toks = [] :=
  @C02_program_eof_partial Int Lexer.asciiOps Ex.progEx Ex.c1 _ 39 (by decide +kernel) rfl rfl
    ⟨by decide, by decide⟩ Ex.c1_sane Ex.c1_noIt (by decide +kernel)
example : (@progToksE Int Lexer.asciiOps Ex.progEx Ex.c1).map (·.kind)
    = [.newline, .if_, .word, .newline, .sayAlias, .number, .dot, .newline, .else_, .newline, .sayAlias,
       .number, .newline, .newline, .sayAlias, .number, .comma, .newline, .newline,
       .newline, .word, .takes, .word, .comma, .and, .word, .newline, .if_, .word, .newline, .return_, .back,
       .word, .back, .newline, .else_, .newline, .sayAlias, .number] := by
  decide +kernel
/-- … and the model's `Parser::parse` on `say 1<EOF>` -/
example : Ex.runP 3 [Ex.k .say, Ex.num 1] = some [.mk default [.output (Ex.lit 1)]] := by rfl

end

/-! ### the model's statement parser evaluated on hand-built tokens -/
section
open Ex
local instance : CharOps := Lexer.asciiOps

/-- `put a with b into x at 1` -/
example : runS 9 [k .put, w (str% "a"), k .with_, w (str% "b"), k .into, w (str% "x"), k .at, num 1, k .newline]
    = some (some (.assign (.sub (.ident (.var (.simple (str% "x"))) default) (.lit (.num 1) default)) none
        ⟨.bin .plus (v (str% "a")) (v (str% "b")) [], []⟩), [.newline]) := by rfl
/-- `build x up, up` -/
example : runS 5 [k .build, w (str% "x"), k .up, k .comma, k .up, k .newline]
    = some (some (.inc (.var (.simple (str% "x"))) default 2), [.newline]) := by rfl

end

end C02
end Rrss
