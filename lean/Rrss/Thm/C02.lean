/-
  Rrss.Thm.C02 — "every spelling of a program parses to the same syntax tree", parser half
  (token level). The lexer half (a spelled token lexes to the intended kind whatever the alias,
  case, surrounding noise) is C12 + the regenerated keyword-table theorems.

  Setting (Rrss/Spec/Grammar.lean). `Expression N`, `SimpleStmt N`, `Statement N` are a stratified
  syntax in spine form whose inhabitants are the trees that can be written without parentheses.
  `unparse e c` / `s.toks c` / `progToks bs c` are the tokens for the choices `c : Choices N`:
  `c` decides every free alternative of the grammar (`plus`/`with`, optional `and` after a list
  comma, argument separator `,`|`, and`|`&`|`'n'`|`and`, `is`/`'s`/`'re`, `says`/`say`, `""`/`empty`,
  `say` alias, direction before/after `turn`, `back` after return, commas after `up`, number of
  blank lines …) AND supplies an arbitrary template token for every token, of which only the kind
  and the payload (identifier spelling, number, string, the words of a poetic literal) are
  overwritten: so the theorems quantify over all positions, ranges, `after` snapshots and keyword
  spellings. `toAst` / `toStmt` / `progToAst` give the tree the grammar assigns; `wf` are the side
  conditions that the absence of parentheses imposes (DESIGN Appendix A); `Stop rest` says that
  the first token of `rest` cannot continue the construct; `Fits` says that the template tokens
  are what a lexer produces at the four places where the parser reads a spelling or a position
  that the grammar does not fix (after a bare `break`, after a poetic literal, the hyphen of
  `X is -5`, the text of `X says …`). Trees are compared after erasing source ranges and
  locations (`eraseRanges`, `eraseS`, `eraseB`). Fuel: the number of tokens suffices.
-/
import Rrss.Lemmas.RoundTripSentences
namespace Rrss
namespace C02
open Parser Grammar

section
variable {N : Type} [CharOps]

/-- **C02, expressions.** For every well-formed expression syntax `e`, every choice of spelling
    alternatives and token positions `c`, every continuation `rest` whose first token cannot
    continue `e`, every parser state whose tokens are `unparse e c ++ rest` (outside a list), and
    every fuel `n ≥` the number of tokens of `e`: `parse_expression` succeeds, consumes exactly
    the tokens of `e`, leaves the `parsing_list` flag as it was, and returns the tree `toAst e`
    up to source ranges. Precedence, left associativity, list operands, argument lists, the
    `is`-chain are what `toAst` says — independent of every choice. -/
theorem C02_expr (e : Expression N) (c : Choices N) (rest : List (Tok N)) (st : PState N) (n : Nat)
    (hwf : e.wf = true) (hstop : e.Stop rest) (htoks : st.toks = unparse e c ++ rest)
    (hflag : st.parsingList = false) (hn : (unparse e c).length ≤ n) :
    ∃ t st', parseExpression (parser n) st = .ok (t, st') ∧
      t.eraseRanges = (toAst e).eraseRanges ∧ st'.toks = rest ∧ st'.parsingList = false := by
  obtain ⟨t, st', h, h1, _, h2, h3, _⟩ := expression_roundtrip e c rest st n false hwf hstop htoks hflag hn
  exact ⟨t, st', h, h1, h2, h3⟩

/-- non-vacuity: `a with b times x, and y` (second alternative everywhere) meets the hypotheses -/
example : ∃ t st', @parseExpression Int Lexer.asciiOps (@parser Int Lexer.asciiOps 8) (Ex.st0 (@unparse Int Lexer.asciiOps Ex.eEx Ex.c1))
      = .ok (t, st') ∧ t.eraseRanges = (@toAst Int Lexer.asciiOps Ex.eEx).eraseRanges ∧ st'.toks = [] ∧ st'.parsingList = false :=
  @C02_expr Int Lexer.asciiOps Ex.eEx Ex.c1 [] _ 8 (by decide +kernel)
    (@stop_of_endsExpr Int Lexer.asciiOps false _ _ rfl) (by simp [Ex.st0]) rfl (by decide +kernel)
example : (@unparse Int Lexer.asciiOps Ex.eEx Ex.c1).map (·.kind)
    = [.word, .with_, .word, .multiply, .word, .comma, .and, .word] := by decide +kernel

/-- **C02, expressions, as the property words it.** Two spellings (choices, positions, fuel,
    continuation) of the same expression parse to the same tree up to source ranges. -/
theorem C02_expr_spelling_independent (e : Expression N) (c₁ c₂ : Choices N) (rest₁ rest₂ : List (Tok N))
    (st₁ st₂ : PState N) (n₁ n₂ : Nat) (hwf : e.wf = true)
    (hstop₁ : e.Stop rest₁) (hstop₂ : e.Stop rest₂)
    (htoks₁ : st₁.toks = unparse e c₁ ++ rest₁) (htoks₂ : st₂.toks = unparse e c₂ ++ rest₂)
    (hflag₁ : st₁.parsingList = false) (hflag₂ : st₂.parsingList = false)
    (hn₁ : (unparse e c₁).length ≤ n₁) (hn₂ : (unparse e c₂).length ≤ n₂) :
    ∃ t₁ t₂ st₁' st₂', parseExpression (parser n₁) st₁ = .ok (t₁, st₁') ∧
      parseExpression (parser n₂) st₂ = .ok (t₂, st₂') ∧ t₁.eraseRanges = t₂.eraseRanges := by
  obtain ⟨t₁, st₁', h₁, e₁, _⟩ := C02_expr e c₁ rest₁ st₁ n₁ hwf hstop₁ htoks₁ hflag₁ hn₁
  obtain ⟨t₂, st₂', h₂, e₂, _⟩ := C02_expr e c₂ rest₂ st₂ n₂ hwf hstop₂ htoks₂ hflag₂ hn₂
  exact ⟨t₁, t₂, st₁', st₂', h₁, h₂, e₁.trans e₂.symm⟩
/-- non-vacuity: the spellings `a plus b times x, y` and `a with b times x, and y` -/
example : ∃ t₁ t₂ st₁' st₂', @parseExpression Int Lexer.asciiOps (@parser Int Lexer.asciiOps 7)
        (Ex.st0 (@unparse Int Lexer.asciiOps Ex.eEx Ex.c0)) = .ok (t₁, st₁') ∧
      @parseExpression Int Lexer.asciiOps (@parser Int Lexer.asciiOps 8)
        (Ex.st0 (@unparse Int Lexer.asciiOps Ex.eEx Ex.c1)) = .ok (t₂, st₂') ∧ t₁.eraseRanges = t₂.eraseRanges :=
  @C02_expr_spelling_independent Int Lexer.asciiOps Ex.eEx Ex.c0 Ex.c1 [] [] _ _ 7 8 (by decide +kernel)
    (@stop_of_endsExpr Int Lexer.asciiOps false _ _ rfl) (@stop_of_endsExpr Int Lexer.asciiOps false _ _ rfl)
    (by simp [Ex.st0]) (by simp [Ex.st0]) rfl rfl (by decide +kernel) (by decide +kernel)

/-- **C02, inside a list element** (`parsing_list = true`, where no operand list may have more than
    one element): same statement with the flag set; the flag is restored. -/
theorem C02_expr_in_list (e : Expression N) (c : Choices N) (rest : List (Tok N)) (st : PState N) (n : Nat)
    (hwf : logicalSyn.wf true e = true) (hstop : logicalSyn.Stop true e rest)
    (htoks : st.toks = unparse e c ++ rest) (hflag : st.parsingList = true)
    (hn : (unparse e c).length ≤ n) :
    ∃ t st', parseExpression (parser n) st = .ok (t, st') ∧
      t.eraseRanges = (toAst e).eraseRanges ∧ st'.toks = rest ∧ st'.parsingList = true := by
  obtain ⟨t, st', h, h1, _, h2, h3, _⟩ := expression_roundtrip e c rest st n true hwf hstop htoks hflag hn
  exact ⟨t, st', h, h1, h2, h3⟩
/-- non-vacuity: `a plus b times x` inside a list element -/
example : ∃ t st', @parseExpression Int Lexer.asciiOps (@parser Int Lexer.asciiOps 5)
      ⟨[], @unparse Int Lexer.asciiOps (sPrecedence (Ex.va (str% "a")) (Ex.va (str% "b")) (Ex.va (str% "x"))) Ex.c0 ++ [],
        ⟨1, 0, 0⟩, ⟨1, 0, 0⟩, true⟩ = .ok (t, st') ∧
      t.eraseRanges = (@toAst Int Lexer.asciiOps (sPrecedence (Ex.va (str% "a")) (Ex.va (str% "b"))
        (Ex.va (str% "x")))).eraseRanges ∧ st'.toks = [] ∧ st'.parsingList = true :=
  @C02_expr_in_list Int Lexer.asciiOps _ Ex.c0 [] _ 5 (by decide +kernel)
    (@stop_of_endsExpr Int Lexer.asciiOps true _ _ rfl) rfl rfl (by decide +kernel)

/-! ### consequences, with concrete trees (`EndsExpr rest`: the next token continues no expression) -/

/-- **Precedence.** `a plus b times x` (also with `with` for `plus`) is `a + (b * x)`: for all variable
    names, positions and fuel. -/
theorem C02_precedence (a b x : VarSpec) (ha : a.wf = true) (hb : b.wf = true) (hx : x.wf = true)
    (c : Choices N) (rest : List (Tok N)) (st : PState N) (n : Nat) (hrest : EndsExpr rest)
    (htoks : st.toks = unparse (sPrecedence a b x) c ++ rest)
    (hflag : st.parsingList = false) (hn : (unparse (sPrecedence a b x : Expression N) c).length ≤ n) :
    ∃ t st', parseExpression (parser n) st = .ok (t, st') ∧ st'.toks = rest ∧
      t.eraseRanges = .bin .plus a.e (.bin .multiply b.e x.e []) [] := by
  obtain ⟨t, st', h, h1, h2, _⟩ := C02_expr (sPrecedence a b x) c rest st n
    (sPrecedence_wf a b x ha hb hx)
    (stop_of_endsExpr false _ hrest) htoks hflag hn
  exact ⟨t, st', h, h2, h1⟩
/-- the model's parser on hand-built tokens (ASCII, integers): `a plus b times c`, `a with b times c` -/
example : Ex.runE 5 [Ex.w (str% "a"), Ex.k .plus, Ex.w (str% "b"), Ex.k .multiply, Ex.w (str% "c")]
    = some (.bin .plus (Ex.v (str% "a")) (.bin .multiply (Ex.v (str% "b")) (Ex.v (str% "c")) []) [], []) := by rfl
example : Ex.runE 5 [Ex.w (str% "a"), Ex.k .with_, Ex.w (str% "b"), Ex.k .multiply, Ex.w (str% "c")]
    = some (.bin .plus (Ex.v (str% "a")) (.bin .multiply (Ex.v (str% "b")) (Ex.v (str% "c")) []) [], []) := by rfl

/-- **Left associativity.** `a minus b minus x` is `(a - b) - x`. -/
theorem C02_left_assoc (a b x : VarSpec) (ha : a.wf = true) (hb : b.wf = true) (hx : x.wf = true)
    (c : Choices N) (rest : List (Tok N)) (st : PState N) (n : Nat) (hrest : EndsExpr rest)
    (htoks : st.toks = unparse (sLeftAssoc a b x) c ++ rest)
    (hflag : st.parsingList = false) (hn : (unparse (sLeftAssoc a b x : Expression N) c).length ≤ n) :
    ∃ t st', parseExpression (parser n) st = .ok (t, st') ∧ st'.toks = rest ∧
      t.eraseRanges = .bin .minus (.bin .minus a.e b.e []) x.e [] := by
  obtain ⟨t, st', h, h1, h2, _⟩ := C02_expr (sLeftAssoc a b x) c rest st n
    (sLeftAssoc_wf a b x ha hb hx)
    (stop_of_endsExpr false _ hrest) htoks hflag hn
  exact ⟨t, st', h, h2, h1⟩
/-- `a minus b minus c` -/
example : Ex.runE 5 [Ex.w (str% "a"), Ex.k .minus, Ex.w (str% "b"), Ex.k .minus, Ex.w (str% "c")]
    = some (.bin .minus (.bin .minus (Ex.v (str% "a")) (Ex.v (str% "b")) []) (Ex.v (str% "c")) [], []) := by rfl

/-- **List operands.** `a times b, x` (also `a times b, and x`) is `a * [b, x]`. -/
theorem C02_list_operand (a b x : VarSpec) (ha : a.wf = true) (hb : b.wf = true) (hx : x.wf = true)
    (c : Choices N) (rest : List (Tok N)) (st : PState N) (n : Nat) (hrest : EndsExpr rest)
    (htoks : st.toks = unparse (sList a b x) c ++ rest)
    (hflag : st.parsingList = false) (hn : (unparse (sList a b x : Expression N) c).length ≤ n) :
    ∃ t st', parseExpression (parser n) st = .ok (t, st') ∧ st'.toks = rest ∧
      t.eraseRanges = .bin .multiply a.e b.e [x.e] := by
  obtain ⟨t, st', h, h1, h2, _⟩ := C02_expr (sList a b x) c rest st n
    (sList_wf a b x ha hb hx)
    (stop_of_endsExpr false _ hrest) htoks hflag hn
  exact ⟨t, st', h, h2, h1⟩
/-- `a times b, c` and `a times b, and c` -/
example : Ex.runE 5 [Ex.w (str% "a"), Ex.k .multiply, Ex.w (str% "b"), Ex.k .comma, Ex.w (str% "c")]
    = some (.bin .multiply (Ex.v (str% "a")) (Ex.v (str% "b")) [Ex.v (str% "c")], []) := by rfl
example : Ex.runE 6 [Ex.w (str% "a"), Ex.k .multiply, Ex.w (str% "b"), Ex.k .comma, Ex.k .and, Ex.w (str% "c")]
    = some (.bin .multiply (Ex.v (str% "a")) (Ex.v (str% "b")) [Ex.v (str% "c")], []) := by rfl

/-- **A comma list attaches to the nearest operator on its left.** `a plus b times x, y` is
    `a + (b * [x, y])`. -/
theorem C02_list_nearest (a b x y : VarSpec) (ha : a.wf = true) (hb : b.wf = true) (hx : x.wf = true) (hy : y.wf = true)
    (c : Choices N) (rest : List (Tok N)) (st : PState N) (n : Nat) (hrest : EndsExpr rest)
    (htoks : st.toks = unparse (sListNearest a b x y) c ++ rest)
    (hflag : st.parsingList = false) (hn : (unparse (sListNearest a b x y : Expression N) c).length ≤ n) :
    ∃ t st', parseExpression (parser n) st = .ok (t, st') ∧ st'.toks = rest ∧
      t.eraseRanges = .bin .plus a.e (.bin .multiply b.e x.e [y.e]) [] := by
  obtain ⟨t, st', h, h1, h2, _⟩ := C02_expr (sListNearest a b x y) c rest st n
    (sListNearest_wf a b x y ha hb hx hy)
    (stop_of_endsExpr false _ hrest) htoks hflag hn
  exact ⟨t, st', h, h2, h1⟩
/-- `a plus b times c, d` -/
example : Ex.runE 7 [Ex.w (str% "a"), Ex.k .plus, Ex.w (str% "b"), Ex.k .multiply, Ex.w (str% "c"), Ex.k .comma,
      Ex.w (str% "d")]
    = some (.bin .plus (Ex.v (str% "a")) (.bin .multiply (Ex.v (str% "b")) (Ex.v (str% "c")) [Ex.v (str% "d")]) [],
        []) := by rfl

/-- **Argument lists.** `f taking x, y`, `f taking x, and y`, `f taking x & y`, `f taking x 'n' y` and
    `f taking x and y` all are the call of `f` with the two arguments `x`, `y`. -/
theorem C02_arguments (f x y : VarSpec) (hf : f.wf = true) (hx : x.wf = true) (hy : y.wf = true)
    (c : Choices N) (rest : List (Tok N)) (st : PState N) (n : Nat) (hrest : EndsExpr rest)
    (htoks : st.toks = unparse (sArgs f x y) c ++ rest)
    (hflag : st.parsingList = false) (hn : (unparse (sArgs f x y : Expression N) c).length ≤ n) :
    ∃ t st', parseExpression (parser n) st = .ok (t, st') ∧ st'.toks = rest ∧
      t.eraseRanges = .prim (.call f.toName default [x.e, y.e]) := by
  obtain ⟨t, st', h, h1, h2, _⟩ := C02_expr (sArgs f x y) c rest st n
    (sArgs_wf f x y hf hx hy)
    (stop_of_endsExpr false _ hrest) htoks hflag hn
  exact ⟨t, st', h, h2, h1⟩
/-- `F taking x, y` and `F taking x and y` -/
example : Ex.runE 5 [Ex.w (str% "F"), Ex.k .taking, Ex.w (str% "x"), Ex.k .comma, Ex.w (str% "y")]
    = some (.prim (.call (.simple (str% "F")) default [Ex.v (str% "x"), Ex.v (str% "y")]), []) := by rfl
example : Ex.runE 5 [Ex.w (str% "F"), Ex.k .taking, Ex.w (str% "x"), Ex.k .and, Ex.w (str% "y")]
    = some (.prim (.call (.simple (str% "F")) default [Ex.v (str% "x"), Ex.v (str% "y")]), []) := by rfl

/-- **Unary binds tighter than comparison.** `not x is y` is `(not x) is y`. -/
theorem C02_not_binds_tighter (x y : VarSpec) (hx : x.wf = true) (hy : y.wf = true)
    (c : Choices N) (rest : List (Tok N)) (st : PState N) (n : Nat) (hrest : EndsExpr rest)
    (htoks : st.toks = unparse (sNotIs x y) c ++ rest)
    (hflag : st.parsingList = false) (hn : (unparse (sNotIs x y : Expression N) c).length ≤ n) :
    ∃ t st', parseExpression (parser n) st = .ok (t, st') ∧ st'.toks = rest ∧
      t.eraseRanges = .bin .eq (.un .not x.e) y.e [] := by
  obtain ⟨t, st', h, h1, h2, _⟩ := C02_expr (sNotIs x y) c rest st n
    (sNotIs_wf x y hx hy)
    (stop_of_endsExpr false _ hrest) htoks hflag hn
  exact ⟨t, st', h, h2, h1⟩
/-- `not x is y`, followed by `into`, which is left alone -/
example : Ex.runE 4 [Ex.k .not, Ex.w (str% "x"), Ex.k .is, Ex.w (str% "y"), Ex.k .into]
    = some (.bin .eq (.un .not (Ex.v (str% "x"))) (Ex.v (str% "y")) [], [.into]) := by rfl

/-! ### statements, blocks, programs -/

/-- **C02, statements** (all 18 statement kinds, with all their forms: the four forms of a
    statement that starts with an identifier — call, function definition, poetic number
    assignment with a poetic literal or with an expression, poetic string assignment —, `rock`
    with `with` and with `like`; compound statements with their nested blocks: `if`/`else`, `while`,
    `until`, function definitions with the rule that an `if … else …` ends a function body). For
    every well-formed statement syntax `s`, all choices `c` whose template tokens carry readable
    lexer snapshots (`Sane`: `current_loc` must not underflow — true of every lexed token) and agree
    with the source at the places where the parser reads a spelling or a position that the grammar
    leaves to the template (`Fits`: trivially true unless `s` contains a bare `break`, a poetic
    literal, `X is -5` or `X says …`), every continuation that cannot continue `s`:
    `parse_statement` consumes exactly the tokens of `s` and returns `toStmt s` up to ranges and
    locations. One blank line closes exactly one block: the tokens of a compound statement do not
    include the blank line that closes it (the enclosing block's `expect_eol` takes it), `s.Stop`
    asks for it (or the end of the tokens). -/
theorem C02_statement (s : Statement N) (c : Choices N) (rest : List (Tok N)) (st : PState N) (n : Nat)
    (hwf : s.wf = true) (hstop : s.Stop rest) (htoks : st.toks = s.toks c ++ rest)
    (hflag : st.parsingList = false) (hsane : c.Sane st.src) (hfit : s.Fits st.src c rest)
    (hn : (s.toks c).length ≤ n) :
    ∃ s' st', parseStatement (parser n) st = .ok (some s', st') ∧ eraseS s' = s.toStmt ∧
      st'.toks = rest ∧ st'.parsingList = false :=
  statement_roundtrip s c rest st n hwf hstop htoks hflag hsane hfit hn

/-- non-vacuity: the function `f takes p, and q / if x / give back x back / else / say 4` (one blank
    line closes the `else` block, the `if` and the function) meets the hypotheses … -/
example : ∃ s' st', @parseStatement Int Lexer.asciiOps (@parser Int Lexer.asciiOps 21)
      (Ex.st0 (@Statement.toks Int Lexer.asciiOps Ex.funEx Ex.c1 ++ [Ex.k .newline]))
      = .ok (some s', st') ∧ eraseS s' = @Statement.toStmt Int Lexer.asciiOps Ex.funEx ∧
      st'.toks = [Ex.k .newline] ∧ st'.parsingList = false :=
  @C02_statement Int Lexer.asciiOps Ex.funEx Ex.c1 [Ex.k .newline] _ 21 (by decide +kernel) (Or.inr rfl) rfl rfl
    Ex.c1_sane (@plain_fits Int Lexer.asciiOps false [] Ex.funEx Ex.c1 _ (by decide +kernel) (fun h => by cases h))
    (by decide +kernel)
/-- … these are its tokens and its tree -/
example : (@Statement.toks Int Lexer.asciiOps Ex.funEx Ex.c1).map (·.kind)
    = [.word, .takes, .word, .comma, .and, .word, .newline, .if_, .word, .newline, .return_, .back, .word,
       .back, .newline, .else_, .newline, .sayAlias, .number, .newline] := by decide +kernel
example : @Statement.toStmt Int Lexer.asciiOps Ex.funEx
    = .func (.simple (str% "f")) default [(.simple (str% "p"), default), (.simple (str% "q"), default)]
        (.mk default [.ifS (Ex.v (str% "x")) (.mk default [.ret (Ex.v (str% "x"))])
          (some (.mk default [.output (Ex.lit 4)]))]) := by rfl

/-- **C02, statements: two spellings, one tree.** -/
theorem C02_statement_spelling_independent (s : Statement N) (c₁ c₂ : Choices N) (rest₁ rest₂ : List (Tok N))
    (st₁ st₂ : PState N) (n₁ n₂ : Nat) (hwf : s.wf = true) (hstop₁ : s.Stop rest₁) (hstop₂ : s.Stop rest₂)
    (htoks₁ : st₁.toks = s.toks c₁ ++ rest₁) (htoks₂ : st₂.toks = s.toks c₂ ++ rest₂)
    (hflag₁ : st₁.parsingList = false) (hflag₂ : st₂.parsingList = false)
    (hsane₁ : c₁.Sane st₁.src) (hsane₂ : c₂.Sane st₂.src)
    (hfit₁ : s.Fits st₁.src c₁ rest₁) (hfit₂ : s.Fits st₂.src c₂ rest₂)
    (hn₁ : (s.toks c₁).length ≤ n₁) (hn₂ : (s.toks c₂).length ≤ n₂) :
    ∃ s₁ s₂ st₁' st₂', parseStatement (parser n₁) st₁ = .ok (some s₁, st₁') ∧
      parseStatement (parser n₂) st₂ = .ok (some s₂, st₂') ∧ eraseS s₁ = eraseS s₂ := by
  obtain ⟨s₁, st₁', h₁, e₁, _⟩ := C02_statement s c₁ rest₁ st₁ n₁ hwf hstop₁ htoks₁ hflag₁ hsane₁ hfit₁ hn₁
  obtain ⟨s₂, st₂', h₂, e₂, _⟩ := C02_statement s c₂ rest₂ st₂ n₂ hwf hstop₂ htoks₂ hflag₂ hsane₂ hfit₂ hn₂
  exact ⟨s₁, s₂, st₁', st₂', h₁, h₂, e₁.trans e₂.symm⟩
/-- non-vacuity: the two spellings of the function above (first / second alternative everywhere) -/
example : ∃ s₁ s₂ st₁' st₂', @parseStatement Int Lexer.asciiOps (@parser Int Lexer.asciiOps 21)
        (Ex.st0 (@Statement.toks Int Lexer.asciiOps Ex.funEx Ex.c0 ++ [])) = .ok (some s₁, st₁') ∧
      @parseStatement Int Lexer.asciiOps (@parser Int Lexer.asciiOps 21)
        (Ex.st0 (@Statement.toks Int Lexer.asciiOps Ex.funEx Ex.c1 ++ [])) = .ok (some s₂, st₂') ∧
      eraseS s₁ = eraseS s₂ :=
  @C02_statement_spelling_independent Int Lexer.asciiOps Ex.funEx Ex.c0 Ex.c1 [] [] _ _ 21 21 (by decide +kernel)
    (Or.inl rfl) (Or.inl rfl) rfl rfl rfl rfl Ex.c0_sane Ex.c1_sane
    (@plain_fits Int Lexer.asciiOps false [] Ex.funEx Ex.c0 _ (by decide +kernel) (fun h => by cases h))
    (@plain_fits Int Lexer.asciiOps false [] Ex.funEx Ex.c1 _ (by decide +kernel) (fun h => by cases h))
    (by decide +kernel) (by decide +kernel)

/-! ### the statements with poetic literals -/

/-- **C02, poetic number assignment with a literal.** `T is|'s|'re <words>`, where the words are ANY
    tokens that the literal loop takes (word-like tokens of any kind: keywords count as words;
    `,` `.` `'s` `'re`; a hyphen and the token after it) of which the first is neither a hyphen nor
    a literal word, followed by a token that does not continue the literal (`PoeticEnd`: e.g. a
    `Newline`, or the end of the tokens): the statement is the poetic assignment of the element
    list `itemsElems lit` — word for word, suffixes and periods kept — to `T`. -/
theorem C02_poetic_number_literal (t : Target N) (lit : List PoeticItem) (c : Choices N) (rest : List (Tok N))
    (st : PState N) (n : Nat) (ht : t.wf = true) (hlit : litWf lit = true) (hasg : litAssignable lit = true)
    (hstop : PoeticEnd rest)
    (htoks : st.toks = (SimpleStmt.poeticLit t lit : SimpleStmt N).toks c ++ rest)
    (hflag : st.parsingList = false) (hsane : c.Sane st.src)
    (hn : ((SimpleStmt.poeticLit t lit : SimpleStmt N).toks c).length ≤ n) :
    ∃ s' st', parseStatement (parser n) st = .ok (some s', st') ∧
      eraseS s' = .poeticNum t.toLhs (.lit (itemsElems lit)) ∧ st'.toks = rest :=
  have hwf : (Statement.simple (.poeticLit t lit) .none : Statement N).wf = true := by
    simp [simple_wf, SimpleStmt.wf, ht, hlit, hasg]
  let ⟨s', st', h, e, r, _⟩ := C02_statement (.simple (.poeticLit t lit) .none) c rest st n hwf hstop htoks hflag
    hsane trivial hn
  ⟨s', st', h, e, r⟩
/-- non-vacuity: `Tommy was a lovestruck ladykiller` followed by a `Newline` … -/
example : ∃ s' st', @parseStatement Int Lexer.asciiOps (@parser Int Lexer.asciiOps 5)
      (Ex.st0 (@SimpleStmt.toks Int Lexer.asciiOps Ex.tommyS Ex.c0 ++ [Ex.k .newline])) = .ok (some s', st') ∧
      eraseS s' = .poeticNum (.ident (.var (.simple (str% "Tommy"))) default)
        (.lit [.word (str% "a"), .word (str% "lovestruck"), .word (str% "ladykiller")]) ∧
      st'.toks = [Ex.k .newline] :=
  @C02_poetic_number_literal Int Lexer.asciiOps Ex.tommyT Ex.tommyLit Ex.c0 [Ex.k .newline] _ 5
    (by decide +kernel) (by decide +kernel) (by decide +kernel)
    (fun t ht => by cases ht; decide +kernel) rfl rfl Ex.c0_sane (by decide +kernel)
/-- … its tokens (`was` is an `Is` token, the article `a` a `CommonVariablePrefix`) -/
example : (@SimpleStmt.toks Int Lexer.asciiOps Ex.tommyS Ex.c0).map (fun t => (t.kind, t.spelling))
    = [(.word, str% "Tommy"), (.is, []), (.commonPrefix, str% "a"), (.word, str% "lovestruck"),
       (.word, str% "ladykiller")] := by decide +kernel

/-- **C02, poetic number assignment with an expression.** A right-hand side that starts with a
    literal word, or with a hyphen (a `Minus` token SPELLED `-`) followed by a number, is an
    ordinary expression: `T is E` is the poetic assignment of the tree of `E`. (If the `Minus` token
    is spelled `minus`, the right-hand side is a poetic literal instead: see the report.) -/
theorem C02_poetic_expression (t : Target N) (e : Expression N) (c : Choices N) (rest : List (Tok N))
    (st : PState N) (n : Nat) (ht : t.wf = true) (he : e.wf = true)
    (hstart : e.headUnary.poeticStart.isSome = true) (hstop : e.Stop rest)
    (htoks : st.toks = (SimpleStmt.poeticExpr t e).toks c ++ rest)
    (hflag : st.parsingList = false) (hsane : c.Sane st.src)
    (hhyphen : e.headUnary.poeticStart = some true →
      ∀ t, (unparse e (c.sub 2)).head? = some t → t.spelling = ['-'])
    (hn : ((SimpleStmt.poeticExpr t e).toks c).length ≤ n) :
    ∃ s' st', parseStatement (parser n) st = .ok (some s', st') ∧
      eraseS s' = .poeticNum t.toLhs (.expr (toAst e)) ∧ st'.toks = rest :=
  have hwf : (Statement.simple (.poeticExpr t e) .none : Statement N).wf = true := by
    simp [simple_wf, SimpleStmt.wf, SimpleStmt.dotOK, ht, he, hstart]
  let ⟨s', st', h, e', r, _⟩ := C02_statement (.simple (.poeticExpr t e) .none) c rest st n hwf hstop htoks hflag
    hsane hhyphen hn
  ⟨s', st', h, e', r⟩
/-- non-vacuity: `x is -5` at the end of the tokens -/
example : ∃ s' st', @parseStatement Int Lexer.asciiOps (@parser Int Lexer.asciiOps 4)
      (Ex.st0 (@SimpleStmt.toks Int Lexer.asciiOps Ex.negS Ex.cHy ++ [])) = .ok (some s', st') ∧
      eraseS s' = .poeticNum (.ident (.var (.simple (str% "x"))) default) (.expr (.un .minus (Ex.lit 5))) ∧
      st'.toks = [] :=
  @C02_poetic_expression Int Lexer.asciiOps Ex.xT Ex.minusFive Ex.cHy [] _ 4 (by decide +kernel) (by decide +kernel)
    (by decide +kernel) (@stop_of_endsExpr Int Lexer.asciiOps false _ _ rfl) rfl rfl Ex.cHy_sane
    (fun _ t ht => by
      have : t.spelling = (Ex.cHy.tok []).spelling := by
        revert ht
        simp [unparse, logicalSyn, comparisonSyn, termSyn, factorSyn, unarySyn, spineSyn, Ex.minusFive,
          Comparison.toLogical, Term.toComparison, Factor.toTerm, Unary.toFactor, Unary.toks, unopsToks,
          unopKind, opsToks]
        intro h; rw [← h]; rfl
      rw [this]; rfl)
    (by decide +kernel)

/-- **C02, poetic string assignment.** `T says|say …` takes the rest of the line, whatever tokens
    it was lexed to (`junk`: their kinds; none is a `Newline`), up to a `Newline` token or the end of
    the tokens, and assigns the SOURCE TEXT of that line after `says␣`. The text is not in the
    tokens: the hypothesis `htext` says that `text` is what the source has between the `says` token
    (its start offset and spelling are the template's) and the start of the `Newline` token (the end
    of the source if there is none) — true of lexed tokens. -/
theorem C02_poetic_string (t : Target N) (text : Str) (junk : List TK) (c : Choices N) (rest : List (Tok N))
    (st : PState N) (n : Nat) (ht : t.wf = true) (hjunk : junk.all (· != .newline) = true)
    (hstop : rest = [] ∨ nextIn [.newline] rest = true)
    (htoks : st.toks = (SimpleStmt.poeticStr t text junk : SimpleStmt N).toks c ++ rest)
    (hflag : st.parsingList = false) (hsane : c.Sane st.src)
    (htext : lineText st.src (c.sub 1).here.start rest = some ((c.sub 1).here.spelling ++ ' ' :: text))
    (hn : ((SimpleStmt.poeticStr t text junk : SimpleStmt N).toks c).length ≤ n) :
    ∃ s' st', parseStatement (parser n) st = .ok (some s', st') ∧
      eraseS s' = .poeticStr t.toLhs text ∧ st'.toks = rest :=
  have hwf : (Statement.simple (.poeticStr t text junk) .none : Statement N).wf = true := by
    simp only [simple_wf, SimpleStmt.wf, ht, Bool.true_and]
    simpa using hjunk
  let ⟨s', st', h, e, r, _⟩ := C02_statement (.simple (.poeticStr t text junk) .none) c rest st n hwf hstop htoks
    hflag hsane htext hn
  ⟨s', st', h, e, r⟩
/-- non-vacuity: `x says hello world` as the whole source -/
example : ∃ s' st', @parseStatement Int Lexer.asciiOps (@parser Int Lexer.asciiOps 4)
      ⟨Ex.saysSrc, @SimpleStmt.toks Int Lexer.asciiOps Ex.saysS Ex.cSays ++ [], ⟨1, 0, 0⟩, ⟨1, 0, 0⟩, false⟩
        = .ok (some s', st') ∧
      eraseS s' = .poeticStr (.ident (.var (.simple (str% "x"))) default) (str% "hello world") ∧ st'.toks = [] :=
  @C02_poetic_string Int Lexer.asciiOps Ex.xT (str% "hello world") [.word, .word] Ex.cSays [] _ 4
    (by decide +kernel) (by decide +kernel) (Or.inl rfl) rfl rfl Ex.cSays_sane (by decide +kernel)
    (by decide +kernel)

/-- **C02, `rock … like`.** `rock P like <words>` pushes the poetic literal `itemsElems lit` (here a
    literal may start with a literal word: `rock x like true` pushes the literal `true`, 4). -/
theorem C02_rock_like (p : Grammar.Primary N) (lit : List PoeticItem) (c : Choices N) (rest : List (Tok N))
    (st : PState N) (n : Nat) (hp : p.wf = true) (hlit : litWf lit = true) (hstop : PoeticEnd rest)
    (htoks : st.toks = (SimpleStmt.rockLike p lit : SimpleStmt N).toks c ++ rest)
    (hflag : st.parsingList = false) (hsane : c.Sane st.src)
    (hn : ((SimpleStmt.rockLike p lit : SimpleStmt N).toks c).length ≤ n) :
    ∃ s' st', parseStatement (parser n) st = .ok (some s', st') ∧
      eraseS s' = .push p.toAst (some (.lit (itemsElems lit))) ∧ st'.toks = rest :=
  have hwf : (Statement.simple (.rockLike p lit) .none : Statement N).wf = true := by
    simp [simple_wf, SimpleStmt.wf, hp, hlit]
  let ⟨s', st', h, e, r, _⟩ := C02_statement (.simple (.rockLike p lit) .none) c rest st n hwf hstop htoks hflag
    hsane trivial hn
  ⟨s', st', h, e, r⟩
/-- non-vacuity: `rock x like a rolling stone` at the end of the tokens -/
example : ∃ s' st', @parseStatement Int Lexer.asciiOps (@parser Int Lexer.asciiOps 6)
      (Ex.st0 (@SimpleStmt.toks Int Lexer.asciiOps Ex.rockS Ex.c0 ++ [])) = .ok (some s', st') ∧
      eraseS s' = .push (.ident (.var (.simple (str% "x"))) default)
        (some (.lit [.word (str% "a"), .word (str% "rolling"), .word (str% "stone")])) ∧ st'.toks = [] :=
  @C02_rock_like Int Lexer.asciiOps Ex.xP Ex.stoneLit Ex.c0 [] _ 6
    (by decide +kernel) (by decide +kernel) (fun t ht => by cases ht) rfl rfl Ex.c0_sane (by decide +kernel)

/-! ### blocks and programs -/

/-- **C02, blocks.** A block (its lines, each statement with its line end `[.|,] newline`; one
    `newline` if the block is empty) followed by the end of the tokens, a blank line or `else` is
    parsed by `parse_block` to the block of its statements, consuming exactly its tokens. `linesFit`
    is `Fits` for every line: besides the conditions inside the statements, the first token of
    the line end after a bare `break` is not spelled `it`, and the `Newline` after a poetic literal is
    not spelled like a word (both true of lexed tokens: `.` `,` and line feeds are spelled as such). -/
theorem C02_block (b : List (Statement N)) (c : Choices N) (rest : List (Tok N)) (st : PState N) (n : Nat)
    (hwf : stmtsWf b = true) (hstop : BlockEnd rest) (htoks : st.toks = blockToks b c ++ rest)
    (hflag : st.parsingList = false) (hlast : SnapOK st.src st.last) (hsane : c.Sane st.src)
    (hfit : linesFit st.src b c) (hn : (blockToks b c).length ≤ n) :
    ∃ B st', parseBlock (parser n) st = .ok (B, st') ∧ eraseB B = .mk default (stmtsToStmt b) ∧
      st'.toks = rest ∧ st'.parsingList = false :=
  block_roundtrip b c rest st n hwf hstop htoks hflag hlast hsane hfit hn
/-- non-vacuity: the block `say 1. / say 2` followed by `else` -/
example : ∃ B st', @parseBlock Int Lexer.asciiOps (@parser Int Lexer.asciiOps 7)
      (Ex.st0 (@blockToks Int Lexer.asciiOps [Ex.sayS 1 .dot, Ex.sayS 2 .none] Ex.c0 ++ [Ex.k .else_]))
      = .ok (B, st') ∧ eraseB B = .mk default (@stmtsToStmt Int Lexer.asciiOps [Ex.sayS 1 .dot, Ex.sayS 2 .none]) ∧
      st'.toks = [Ex.k .else_] ∧ st'.parsingList = false :=
  @C02_block Int Lexer.asciiOps [Ex.sayS 1 .dot, Ex.sayS 2 .none] Ex.c0 [Ex.k .else_] _ 7 (by decide +kernel)
    (Or.inr rfl) rfl rfl ⟨by decide, by decide⟩ Ex.c0_sane
    (@plain_linesFit Int Lexer.asciiOps false [] _ Ex.c0 (by decide +kernel) (fun h => by cases h))
    (by decide +kernel)

/- FULL STATEMENT: `parseTokens (unparse p c) = .ok (toAst p)` for EVERY program `p` of the grammar
   and every spelling. `C02_program` (every line end and closing blank line present) and
   `C02_program_at_eof` (the last `d` of them omitted, for every `d`) below prove it at the token
   level, for every statement kind, under three hypotheses, none of which can be dropped:
   * `progWf`: the decidable side conditions that the absence of parentheses imposes (DESIGN
     Appendix A) — without them the tokens ARE parsed, but to another tree;
   * `Sane`: the lexer snapshots of the template tokens are readable by `current_loc` (else the
     parser crashes);
   * `progFits`: at the four places where the parser reads the spelling or the start offset of a
     token that the grammar leaves to the template, the template is what a lexer would produce (after
     a bare `break`: not `it`; after a poetic literal: not word-like; the hyphen of `X is -5`: `-`;
     `X says …`: the text is the slice of the source). For programs without these constructs
     (`progPlain`) it is `True`: `C02_program_plain`.
   `Sane` and `progFits` hold for the tokens of a real lexer run (C12); proving THAT, i.e. composing
   with the lexer to a statement about source strings, is not done here. -/

/-- **C02, programs.** A program — non-empty top-level blocks, each closed by a blank line, with
    any number of further blank lines before each block and at the end — is parsed by
    `Parser::parse` to the list of its blocks (up to ranges and locations), consuming all tokens:
    for every statement kind of the language, every spelling. -/
theorem C02_program (bs : List (List (Statement N))) (c : Choices N) (st : PState N) (n : Nat)
    (hwf : progWf bs = true) (htoks : st.toks = progToks bs c) (hflag : st.parsingList = false)
    (hlast : SnapOK st.src st.last) (hsane : c.Sane st.src) (hfit : progFits st.src bs c)
    (hn : (progToks bs c).length ≤ n) :
    ∃ p st', parseProgramBody (parser n) st = .ok (p, st') ∧ p.code.map eraseB = progToAst bs ∧
      st'.toks = [] :=
  program_roundtrip bs c st n hwf htoks hflag hlast hsane hfit hn

/-- non-vacuity: the program `Tommy was a lovestruck ladykiller / x says hello world / rock x like a
    rolling stone / x is -5 / break`, with its source text, meets the hypotheses … -/
example : ∃ p st', @parseProgramBody Int Lexer.asciiOps (@parser Int Lexer.asciiOps 26)
      ⟨Ex.poeticSrc, @progToks Int Lexer.asciiOps Ex.poeticProg Ex.cPoetic, ⟨1, 0, 0⟩, ⟨1, 0, 0⟩, false⟩
        = .ok (p, st') ∧
      p.code.map eraseB = @progToAst Int Lexer.asciiOps Ex.poeticProg ∧ st'.toks = [] :=
  @C02_program Int Lexer.asciiOps Ex.poeticProg Ex.cPoetic _ 26 (by decide +kernel) rfl rfl
    ⟨by decide, by decide⟩ Ex.cPoetic_sane Ex.poeticProg_fits (by decide +kernel)
/-- … these are its tokens and its tree -/
example : (@progToks Int Lexer.asciiOps Ex.poeticProg Ex.cPoetic).map (·.kind)
    = [.word, .is, .commonPrefix, .word, .word, .newline, .word, .says, .word, .word, .newline,
       .rock, .word, .like, .commonPrefix, .word, .word, .newline, .word, .is, .minus, .number, .newline,
       .break_, .newline, .newline] := by decide +kernel
example : @progToAst Int Lexer.asciiOps Ex.poeticProg
    = [.mk default
        [.poeticNum (.ident (.var (.simple (str% "Tommy"))) default)
           (.lit [.word (str% "a"), .word (str% "lovestruck"), .word (str% "ladykiller")]),
         .poeticStr (.ident (.var (.simple (str% "x"))) default) (str% "hello world"),
         .push (.ident (.var (.simple (str% "x"))) default)
           (some (.lit [.word (str% "a"), .word (str% "rolling"), .word (str% "stone")])),
         .poeticNum (.ident (.var (.simple (str% "x"))) default) (.expr (.un .minus (Ex.lit 5))),
         .break_ default]] := by rfl

/-- **C02, programs without template-dependent constructs.** If the program has no poetic literal,
    no poetic string, no `rock … like`, no `X is -<number>` (`progPlain`), then `progFits` holds: for a
    program that has no bare `break` either (`ab = false`) without any further hypothesis, and
    otherwise if no template token is spelled `it` (`NoIt`, the hypothesis of the earlier version of
    this theorem). -/
theorem C02_program_plain (ab : Bool) (bs : List (List (Statement N))) (c : Choices N) (st : PState N) (n : Nat)
    (hwf : progWf bs = true) (hplain : progPlain ab bs = true) (hit : ab = true → c.NoIt)
    (htoks : st.toks = progToks bs c) (hflag : st.parsingList = false)
    (hlast : SnapOK st.src st.last) (hsane : c.Sane st.src)
    (hn : (progToks bs c).length ≤ n) :
    ∃ p st', parseProgramBody (parser n) st = .ok (p, st') ∧ p.code.map eraseB = progToAst bs ∧
      st'.toks = [] :=
  C02_program bs c st n hwf htoks hflag hlast hsane (plain_progFits st.src bs c hplain hit) hn

/-- non-vacuity: a program of two blocks (an `if`/`else` followed by a `say`; the function above),
    spelled with extra blank lines, meets the hypotheses … -/
example : ∃ p st', @parseProgramBody Int Lexer.asciiOps (@parser Int Lexer.asciiOps 43)
      (Ex.st0 (@progToks Int Lexer.asciiOps Ex.progEx Ex.c1)) = .ok (p, st') ∧
      p.code.map eraseB = @progToAst Int Lexer.asciiOps Ex.progEx ∧ st'.toks = [] :=
  @C02_program_plain Int Lexer.asciiOps false Ex.progEx Ex.c1 _ 43 (by decide +kernel) (by decide +kernel)
    (fun h => by cases h) rfl rfl ⟨by decide, by decide⟩ Ex.c1_sane (by decide +kernel)
/-- … these are its tokens and its tree -/
example : (@progToks Int Lexer.asciiOps Ex.progEx Ex.c1).map (·.kind)
    = [.newline, .if_, .word, .newline, .sayAlias, .number, .dot, .newline, .else_, .newline, .sayAlias,
       .number, .newline, .newline, .sayAlias, .number, .comma, .newline, .newline,
       .newline, .word, .takes, .word, .comma, .and, .word, .newline, .if_, .word, .newline, .return_, .back,
       .word, .back, .newline, .else_, .newline, .sayAlias, .number, .newline, .newline, .newline, .newline] := by
  decide +kernel
example : @progToAst Int Lexer.asciiOps Ex.progEx
    = [.mk default [.ifS (Ex.v (str% "x")) (.mk default [.output (Ex.lit 1)])
          (some (.mk default [.output (Ex.lit 2)])), .output (Ex.lit 3)],
       .mk default [.func (.simple (str% "f")) default [(.simple (str% "p"), default), (.simple (str% "q"), default)]
          (.mk default [.ifS (Ex.v (str% "x")) (.mk default [.ret (Ex.v (str% "x"))])
            (some (.mk default [.output (Ex.lit 4)]))])]] := by rfl

/-- **C02, programs** (the earlier name of `C02_program`; kept as a corollary). -/
theorem C02_program_partial (bs : List (List (Statement N))) (c : Choices N) (st : PState N) (n : Nat)
    (hwf : progWf bs = true) (htoks : st.toks = progToks bs c) (hflag : st.parsingList = false)
    (hlast : SnapOK st.src st.last) (hsane : c.Sane st.src) (hfit : progFits st.src bs c)
    (hn : (progToks bs c).length ≤ n) :
    ∃ p st', parseProgramBody (parser n) st = .ok (p, st') ∧ p.code.map eraseB = progToAst bs ∧
      st'.toks = [] :=
  C02_program bs c st n hwf htoks hflag hlast hsane hfit hn
/-- non-vacuity: as for `C02_program` -/
example : ∃ p st', @parseProgramBody Int Lexer.asciiOps (@parser Int Lexer.asciiOps 26)
      ⟨Ex.poeticSrc, @progToks Int Lexer.asciiOps Ex.poeticProg Ex.cPoetic, ⟨1, 0, 0⟩, ⟨1, 0, 0⟩, false⟩
        = .ok (p, st') ∧
      p.code.map eraseB = @progToAst Int Lexer.asciiOps Ex.poeticProg ∧ st'.toks = [] :=
  @C02_program_partial Int Lexer.asciiOps Ex.poeticProg Ex.cPoetic _ 26 (by decide +kernel) rfl rfl
    ⟨by decide, by decide⟩ Ex.cPoetic_sane Ex.poeticProg_fits (by decide +kernel)

/-! ### the end of the tokens instead of the last line ends -/

/-- **C02, the last statement of the input, in general.** `Parser::parse` accepts the end of the
    tokens wherever it accepts a `Newline`. `s.toksD d c` is the spelling of `s` in which the last `d`
    `Newline` tokens that `s` would have inside a block are omitted (all, if there are fewer): the
    blank lines closing the blocks still open at the end, outermost first, then the `Newline` of
    the last line — or, where the last block is empty, the blank line that stands for it and then
    the `Newline` of its header line (`if x⏎⏎`, `if x⏎`, `if x`; `… else⏎⏎`, `… else⏎`, `… else`;
    `f takes x`). Every one of these spellings parses to the same tree. -/
theorem C02_statement_at_eof (d : Nat) (s : Statement N) (c : Choices N) (st : PState N) (n : Nat)
    (hwf : s.wf = true) (htoks : st.toks = s.toksD d c) (hflag : st.parsingList = false)
    (hsane : c.Sane st.src) (hfit : s.FitsD st.src d c []) (hn : (s.toksD d c).length ≤ n) :
    ∃ s' st', parseStatement (parser n) st = .ok (some s', st') ∧ eraseS s' = s.toStmt ∧ st'.toks = [] :=
  statement_roundtripD d s c st n hwf htoks hflag hsane hfit hn
/-- non-vacuity: `if x⏎⏎`, `if x⏎`, `if x` (empty block: depths 0, 1, 2) and `while x⏎if x⏎say 1⏎`
    (depth 0: nothing omitted inside the `while`, whose own closing blank line is not part of it) -/
example : ∃ s' st', @parseStatement Int Lexer.asciiOps (@parser Int Lexer.asciiOps 4)
      (Ex.st0 (@Statement.toksD Int Lexer.asciiOps 2 (.ifS Ex.xE .none [] none) Ex.c0)) = .ok (some s', st') ∧
      eraseS s' = .ifS (Ex.v (str% "x")) (.mk default []) none ∧ st'.toks = [] :=
  @C02_statement_at_eof Int Lexer.asciiOps 2 (.ifS Ex.xE .none [] none) Ex.c0 _ 4 (by decide +kernel) rfl rfl
    Ex.c0_sane (@plain_fitsD Int Lexer.asciiOps false [] _ 2 Ex.c0 [] (by decide +kernel) (fun h => by cases h))
    (by decide +kernel)
example : [0, 1, 2, 3].map (fun d => (@Statement.toksD Int Lexer.asciiOps d (.ifS Ex.xE .none [] none) Ex.c0).map
      (·.kind))
    = [[.if_, .word, .newline, .newline], [.if_, .word, .newline], [.if_, .word], [.if_, .word]] := by
  decide +kernel
example : [0, 1, 2, 3, 4].map (fun d => (@Statement.toksD Int Lexer.asciiOps d
      (.whileS Ex.xE .none [.ifS Ex.xE .none [Ex.sayS 1 .none] none]) Ex.c0).map (·.kind))
    = [[.while_, .word, .newline, .if_, .word, .newline, .say, .number, .newline, .newline],
       [.while_, .word, .newline, .if_, .word, .newline, .say, .number, .newline],
       [.while_, .word, .newline, .if_, .word, .newline, .say, .number],
       [.while_, .word, .newline, .if_, .word, .newline, .say, .number],
       [.while_, .word, .newline, .if_, .word, .newline, .say, .number]] := by
  decide +kernel

/-- **C02, the last statement of the input** with ALL those newlines omitted except the one of a
    header line (`toksE`): the instance of `C02_statement_at_eof` at the depth `s.eofDepth`. -/
theorem C02_statement_eof (s : Statement N) (c : Choices N) (st : PState N) (n : Nat)
    (hwf : s.wf = true) (htoks : st.toks = s.toksE c) (hflag : st.parsingList = false)
    (hsane : c.Sane st.src) (hfit : s.FitsE st.src c) (hn : (s.toksE c).length ≤ n) :
    ∃ s' st', parseStatement (parser n) st = .ok (some s', st') ∧ eraseS s' = s.toStmt ∧ st'.toks = [] :=
  statement_roundtripE s c st n hwf htoks hflag hsane hfit hn

/-- non-vacuity: the function above without its last `Newline` and closing blank line -/
example : ∃ s' st', @parseStatement Int Lexer.asciiOps (@parser Int Lexer.asciiOps 19)
      (Ex.st0 (@Statement.toksE Int Lexer.asciiOps Ex.funEx Ex.c1)) = .ok (some s', st') ∧
      eraseS s' = @Statement.toStmt Int Lexer.asciiOps Ex.funEx ∧ st'.toks = [] :=
  @C02_statement_eof Int Lexer.asciiOps Ex.funEx Ex.c1 _ 19 (by decide +kernel) rfl rfl Ex.c1_sane
    (@plain_fitsE Int Lexer.asciiOps false [] Ex.funEx Ex.c1 (by decide +kernel) (fun h => by cases h))
    (by decide +kernel)
example : (@Statement.toksE Int Lexer.asciiOps Ex.funEx Ex.c1).map (·.kind)
    = [.word, .takes, .word, .comma, .and, .word, .newline, .if_, .word, .newline, .return_, .back, .word,
       .back, .newline, .else_, .newline, .sayAlias, .number] := by decide +kernel

/-- **C02, programs that end with the tokens, in general.** The program of `C02_program`, spelled
    without the blank line that closes its last top-level block and without the last `d` further
    `Newline` tokens (see `C02_statement_at_eof`), for EVERY `d`, parses to the same blocks. Together
    with `C02_program` (all newlines present, and any number of blank lines after them): every way
    of ending the input. -/
theorem C02_program_at_eof (d : Nat) (bs : List (List (Statement N))) (c : Choices N) (st : PState N) (n : Nat)
    (hwf : progWf bs = true) (htoks : st.toks = progToksD d bs c) (hflag : st.parsingList = false)
    (hlast : SnapOK st.src st.last) (hsane : c.Sane st.src) (hfit : progFitsD st.src d bs c)
    (hn : (progToksD d bs c).length ≤ n) :
    ∃ p st', parseProgramBody (parser n) st = .ok (p, st') ∧ p.code.map eraseB = progToAst bs ∧
      st'.toks = [] :=
  program_roundtripD d bs c st n hwf htoks hflag hlast hsane hfit hn
/-- non-vacuity: the two-block program above with the last 0, 1, 2, … newlines omitted -/
example : ∃ p st', @parseProgramBody Int Lexer.asciiOps (@parser Int Lexer.asciiOps 40)
      (Ex.st0 (@progToksD Int Lexer.asciiOps 1 Ex.progEx Ex.c1)) = .ok (p, st') ∧
      p.code.map eraseB = @progToAst Int Lexer.asciiOps Ex.progEx ∧ st'.toks = [] :=
  @C02_program_at_eof Int Lexer.asciiOps 1 Ex.progEx Ex.c1 _ 40 (by decide +kernel) rfl rfl
    ⟨by decide, by decide⟩ Ex.c1_sane
    (@plain_progFitsD Int Lexer.asciiOps false [] 1 Ex.progEx Ex.c1 (by decide +kernel) (fun h => by cases h))
    (by decide +kernel)
example : [0, 1, 2, 3, 4].map (fun d => ((@progToksD Int Lexer.asciiOps d Ex.progEx Ex.c1).drop 34).map (·.kind))
    = [[.newline, .else_, .newline, .sayAlias, .number, .newline, .newline],
       [.newline, .else_, .newline, .sayAlias, .number, .newline],
       [.newline, .else_, .newline, .sayAlias, .number],
       [.newline, .else_, .newline, .sayAlias, .number],
       [.newline, .else_, .newline, .sayAlias, .number]] := by
  decide +kernel
/-- … `x says hello world` as the last line of the source, without `Newline` (depth 1): the text
    runs to the end of the source -/
example : ∃ p st', @parseProgramBody Int Lexer.asciiOps (@parser Int Lexer.asciiOps 5)
      ⟨Ex.saysSrc, @progToksD Int Lexer.asciiOps 1 [[.simple Ex.saysS .none]]
        ⟨fun _ => 0, fun p => Ex.cSays.tok (p.drop 2)⟩, ⟨1, 0, 0⟩, ⟨1, 0, 0⟩, false⟩ = .ok (p, st') ∧
      p.code.map eraseB = [.mk default [.poeticStr (.ident (.var (.simple (str% "x"))) default) (str% "hello world")]] ∧
      st'.toks = [] :=
  @C02_program_at_eof Int Lexer.asciiOps 1 [[.simple Ex.saysS .none]] ⟨fun _ => 0, fun p => Ex.cSays.tok (p.drop 2)⟩
    _ 5 (by decide +kernel) rfl rfl ⟨by decide, by decide⟩ (fun p => Ex.cSays_sane (p.drop 2))
    ⟨by show lineText Ex.saysSrc 2 [] = some _; decide +kernel, trivial⟩ (by decide +kernel)

/-- **C02, programs that end with the tokens** (`progToksE`: the `Newline` of the last line and the
    blank lines that close the blocks open there all omitted): the instance of `C02_program_at_eof`
    at the depth `progEofDepth bs`; kept under its earlier name. -/
theorem C02_program_eof_partial (bs : List (List (Statement N))) (c : Choices N) (st : PState N) (n : Nat)
    (hwf : progWf bs = true) (htoks : st.toks = progToksE bs c) (hflag : st.parsingList = false)
    (hlast : SnapOK st.src st.last) (hsane : c.Sane st.src) (hfit : progFitsE st.src bs c)
    (hn : (progToksE bs c).length ≤ n) :
    ∃ p st', parseProgramBody (parser n) st = .ok (p, st') ∧ p.code.map eraseB = progToAst bs ∧
      st'.toks = [] :=
  program_roundtripE bs c st n hwf htoks hflag hlast hsane hfit hn

/-- non-vacuity: the program above, ending with `… else⏎say 4<EOF>` -/
example : ∃ p st', @parseProgramBody Int Lexer.asciiOps (@parser Int Lexer.asciiOps 39)
      (Ex.st0 (@progToksE Int Lexer.asciiOps Ex.progEx Ex.c1)) = .ok (p, st') ∧
      p.code.map eraseB = @progToAst Int Lexer.asciiOps Ex.progEx ∧ st'.toks = [] :=
  @C02_program_eof_partial Int Lexer.asciiOps Ex.progEx Ex.c1 _ 39 (by decide +kernel) rfl rfl
    ⟨by decide, by decide⟩ Ex.c1_sane
    (@plain_progFitsE Int Lexer.asciiOps false [] Ex.progEx Ex.c1 (by decide +kernel) (fun h => by cases h))
    (by decide +kernel)
example : (@progToksE Int Lexer.asciiOps Ex.progEx Ex.c1).map (·.kind)
    = [.newline, .if_, .word, .newline, .sayAlias, .number, .dot, .newline, .else_, .newline, .sayAlias,
       .number, .newline, .newline, .sayAlias, .number, .comma, .newline, .newline,
       .newline, .word, .takes, .word, .comma, .and, .word, .newline, .if_, .word, .newline, .return_, .back,
       .word, .back, .newline, .else_, .newline, .sayAlias, .number] := by
  decide +kernel
/-- … and the model's `Parser::parse` on `say 1<EOF>` -/
example : Ex.runP 3 [Ex.k .say, Ex.num 1] = some [.mk default [.output (Ex.lit 1)]] := by rfl

end

/-! ### the model's statement parser evaluated on hand-built tokens -/
section
open Ex
local instance : CharOps := Lexer.asciiOps

/-- `put a with b into x at 1` -/
example : runS 9 [k .put, w (str% "a"), k .with_, w (str% "b"), k .into, w (str% "x"), k .at, num 1, k .newline]
    = some (some (.assign (.sub (.ident (.var (.simple (str% "x"))) default) (.lit (.num 1) default)) none
        ⟨.bin .plus (v (str% "a")) (v (str% "b")) [], []⟩), [.newline]) := by rfl
/-- `build x up, up` -/
example : runS 5 [k .build, w (str% "x"), k .up, k .comma, k .up, k .newline]
    = some (some (.inc (.var (.simple (str% "x"))) default 2), [.newline]) := by rfl

end

end C02
end Rrss
