/-
  Rrss.Thm.C09 — running any program never crashes the interpreter.

  In the model every place where the Rust interpreter can panic, trip a `debug_assert!` or reach
  unchecked code with a violated precondition is an explicit `Outcome.crash site`
  (`Site` in Rrss/Basic.lean). The theorems below say that no such outcome is reachable, for
  ALL syntax trees (a superset of what the parser accepts), all inputs, all fuel and budgets.
  Proofs: Rrss/Lemmas/C09Val.lean (value algebra), C09Env.lean (Hoare logic on the scope
  stack), C09Interp.lean (invariant `RecOk` on the interpreter record, induction on fuel).
-/
import Rrss.Interp
import Rrss.ErrorDisplay
import Rrss.NumInt
import Rrss.Lemmas.C09Interp
namespace Rrss
namespace C09
open Interp

section
variable [CharOps] {N : Type} [NumOps N]

/-- **C09, main theorem.** For every fuel, every program `p` (any syntax tree at all), and every
    initial environment with a non-empty scope stack (any input, output budget, read fault,
    step and size budgets, pre-existing symbols), running the program does not end in a crash
    at any site: not `envPopScope`/`envNoScope` (scope stack discipline), not
    `valIndexOverflow`/`valOutputArray`/`valCoerceUnreachable`/`valRadix` (value algebra), not
    `producePopUnwrap` (`roll`'s `unchecked_unwrap`), not `execFlagAssert`/`execReturnAssert`
    (the `debug_assert!`s on the control-flow state), not `poeticLeadingSuffix`, nor any other. -/
theorem execProgram_never_crashes (fuel : Nat) (p : Program N) (env : Env N)
    (henv : env.scopes ≠ []) (s : Site) :
    (execProgram fuel p env).1 ≠ .crash s :=
  (mok_execProgram fuel p (k := env.scopes.length)
    (Nat.pos_of_ne_zero (by simpa using henv)) env rfl).not_crash s

/-- The hypothesis of the main theorem is met by the standard initial environment
    (`Environment::new`: one global scope), whatever the input and budgets. -/
example (input : Str) (steps cap : Nat) (wb : Option Nat) (rf : Option Nat) :
    ({ input := input, steps := steps, cap := cap, wbudget := wb, readFault := rf } : Env N).scopes
      ≠ [] := by simp

/-- **C09 for the standard initial environment** (no hypothesis left): a program run from
    `Environment::new` on any input, with any write budget, read fault, step and size budget,
    never crashes. -/
theorem execProgram_initial_never_crashes (fuel : Nat) (p : Program N) (input : Str)
    (steps cap : Nat) (wb rf : Option Nat) (s : Site) :
    (execProgram fuel p
      ({ input := input, steps := steps, cap := cap, wbudget := wb, readFault := rf } : Env N)).1
      ≠ .crash s :=
  execProgram_never_crashes fuel p _ (by simp) s

/-- **C09, classification of results, with a renderable message.** Every run ends in exactly one
    of: success; a runtime error `e` — for which `RtErr.render e` is a text (`RtErr.render` and
    `ValErr.render` are plain total Lean functions, defined by cases with `Val.display` by
    structural recursion, so the existence of the message is trivial: there is no panic path in
    `Display for RuntimeError`); or exhaustion of the model's own fuel / resource budget.
    Moreover the scope stack discipline: success leaves the scope stack at its initial length
    (every `push_scope` matched by a `pop_scope`), an error leaves it at least as long (a failed
    call leaves its scope behind, as in the Rust code), hence non-empty. -/
theorem execProgram_result (fuel : Nat) (p : Program N) (env : Env N) (henv : env.scopes ≠ []) :
    (∃ env', execProgram fuel p env = (.ok (), env') ∧ env'.scopes.length = env.scopes.length)
    ∨ (∃ e env', execProgram fuel p env = (.err e, env') ∧ (∃ msg : Str, e.render = msg)
        ∧ env.scopes.length ≤ env'.scopes.length ∧ env'.scopes ≠ [])
    ∨ (execProgram fuel p env).1 = .fuel
    ∨ (execProgram fuel p env).1 = .resource := by
  have hk : 1 ≤ env.scopes.length := Nat.pos_of_ne_zero (by simpa using henv)
  have h := mok_execProgram fuel p hk env rfl
  rcases hr : execProgram fuel p env with ⟨(a | e | s | _ | _), env'⟩ <;> rw [hr] at h
  · exact .inl ⟨env', rfl, h.1⟩
  · have hge : env.scopes.length ≤ env'.scopes.length := h
    refine .inr (.inl ⟨e, env', rfl, ⟨_, rfl⟩, hge, ?_⟩)
    intro h0; rw [h0] at hge; exact absurd hge (by simp; omega)
  · exact h.elim
  · exact .inr (.inr (.inl rfl))
  · exact .inr (.inr (.inr rfl))

/-- the hypothesis is met by `Environment::new` (concrete runs reaching the first two
    alternatives, and the third, are at the end of this file) -/
example : ({} : Env N).scopes ≠ [] := by simp

/-- **C09 at every depth of the interpreter.** The same holds for every entry point of the
    interpreter at every fuel level, from any environment with a non-empty scope stack:
    evaluating an expression or a primary, writing through an expression with a closure that
    itself does not crash, and executing a statement that starts — as every statement does —
    with flag `Normal` and no pending return value. -/
theorem interp_never_crashes (fuel : Nat) (env : Env N) (henv : env.scopes ≠ []) (s : Site) :
    (∀ e, ((interp fuel).evalExpr e env).1 ≠ .crash s)
    ∧ (∀ p, ((interp fuel).evalPrimary p env).1 ≠ .crash s)
    ∧ (∀ w e, (∀ v s', w v ≠ .crash s') → ((interp fuel).writeExpr w e env).1 ≠ .crash s)
    ∧ (∀ w p, (∀ v s', w v ≠ .crash s') → ((interp fuel).writePrimary w p env).1 ≠ .crash s)
    ∧ (∀ st (stmt : Stmt N), st.flag = .normal → st.ret = none →
        ((interp fuel).execStmt stmt st env).1 ≠ .crash s) := by
  have hk : 1 ≤ env.scopes.length := Nat.pos_of_ne_zero (by simpa using henv)
  have h := recOk_interp (N := N) fuel
  exact ⟨fun e => (h.evalExpr e _ hk env rfl).not_crash s,
    fun p => (h.evalPrimary p _ hk env rfl).not_crash s,
    fun w e hw => (h.writeExpr w e _ hk hw env rfl).not_crash s,
    fun w p hw => (h.writePrimary w p _ hk hw env rfl).not_crash s,
    fun st stmt h1 h2 => (h.execStmt stmt st _ hk ⟨h1, h2⟩ env rfl).not_crash s⟩

/-- the hypotheses are met: the initial environment, the fresh `ExecStmt` state every call and
    program starts with, and e.g. the plain assignment closure as a writer that does not crash -/
example (v : Val N) : ({} : Env N).scopes ≠ [] ∧ ({} : ExecSt N).flag = .normal
    ∧ ({} : ExecSt N).ret = none ∧ (∀ v' s', assignW v v' ≠ .crash s') :=
  ⟨by simp, rfl, rfl, fun _ _ h => by cases h⟩

omit [CharOps] in
/-- **C09, value algebra.** No operation of `val.rs` reaches a crash site, on any values:
    `to_string_for_output` (no array after `decay`), `push` (`array_coerce` yields an array),
    `pop`, `plus`, `multiply`, `compare`, `negate`, `inc`, `index`, `split`, `join`, `cast`
    (radix checked before `from_str_radix`), the three roundings; the write path `updateAt`
    (`index_or_insert` + closure) crashes only if the closure does (`i + 1` cannot overflow,
    the cell exists after extension). -/
theorem valOps_never_crash (s : Site) (cap : Nat) (a b : Val N) (o : Option (Val N)) (x : Int)
    (vals : List (Val N)) :
    a.toOutput ≠ .crash s ∧ Val.push a vals ≠ .crash s ∧ Val.pop a ≠ .crash s
    ∧ Val.plus cap a b ≠ .crash s ∧ Val.multiply cap a b ≠ .crash s ∧ Val.compare a b ≠ .crash s
    ∧ Val.negate a ≠ .crash s ∧ Val.inc a x ≠ .crash s ∧ Val.index a b ≠ .crash s
    ∧ Val.split a o ≠ .crash s ∧ Val.join a o ≠ .crash s ∧ Val.cast a o ≠ .crash s
    ∧ Val.roundUp a ≠ .crash s ∧ Val.roundDown a ≠ .crash s ∧ Val.roundNearest a ≠ .crash s
    ∧ (∀ {β : Type} (f : Val N → VRes N (Val N × β)) (keys : List (Val N)),
        (∀ v s', f v ≠ .crash s') → (Val.updateAt cap f keys a).2 ≠ .crash s) :=
  ⟨Val.toOutput_noCrash a s, Val.push_noCrash a vals s, Val.pop_noCrash a s,
   Val.plus_noCrash cap a b s, Val.multiply_noCrash cap a b s, Val.compare_noCrash a b s,
   Val.negate_noCrash a s, Val.inc_noCrash a x s, Val.index_noCrash a b s,
   Val.split_noCrash a o s, Val.join_noCrash a o s, Val.cast_noCrash a o s,
   Val.roundUp_noCrash a s, Val.roundDown_noCrash a s, Val.roundNearest_noCrash a s,
   fun f keys hf => Val.updateAt_noCrash cap f hf keys a s⟩

omit [CharOps] in
/-- **C09, poetic literals.** `compute_value` answers a number for every element list, also
    degenerate ones (leading suffix, suffix right after a dot, dots only, empty). -/
theorem poetic_computeValue_ok (elems : List PoeticElem) :
    ∃ n : N, (Poetic.computeValue elems : Outcome Unit N) = .ok n :=
  Poetic.computeValue_ok elems

end

/-! ### Non-vacuity: concrete runs (numbers = `Int`, identity case folding) -/
section Examples

/-- for the examples only: ASCII-agnostic trivial classification, identity lower-casing -/
local instance exampleCharOps : CharOps where
  isAlphabetic _ := true
  isNumeric _ := false
  isWhitespace _ := false
  isUppercase _ := false
  isLowercase _ := true
  toLower c := [c]

private def r0 : Range := default
private def l0 : Loc := default
private def nF : VarName := .simple (str% "f")
private def nX : VarName := .simple (str% "x")
private def nY : VarName := .simple (str% "y")
private def nZ : VarName := .simple (str% "z")
private def nI : VarName := .simple (str% "i")
private def nA : VarName := .simple (str% "a")
private def var (n : VarName) : Primary Int := .ident (.var n) r0
private def num (n : Int) : Primary Int := .lit (.num n) r0
private def lhs (n : VarName) : Lhs Int := .ident (.var n) r0

/-- ```
    f takes x ⏎ give back x + 1 ⏎ ⏎
    put f taking 2 into y ⏎ put 0 into i ⏎
    while i is less than 10 ⏎ build i up ⏎ if i is 3 ⏎ break ⏎ ⏎ ⏎
    rock a with 5, 6 ⏎ roll a into z ⏎ say y ⏎ say z ⏎ say i ⏎ say roll a
    ``` -/
private def progOk : Program Int := ⟨[
  .mk l0 [ .func nF r0 [(nX, r0)]
            (.mk l0 [.ret (.bin .plus (.prim (var nX)) (.prim (num 1)) [])]) ],
  .mk l0 [
    .assign (lhs nY) none ⟨.prim (.call nF r0 [.prim (num 2)]), []⟩,
    .assign (lhs nI) none ⟨.prim (num 0), []⟩,
    .whileS (.bin .less (.prim (var nI)) (.prim (num 10)) [])
      (.mk l0 [ .inc (.var nI) r0 1,
                .ifS (.bin .eq (.prim (var nI)) (.prim (num 3)) []) (.mk l0 [.break_ r0]) none ]),
    .push (var nA) (some (.list ⟨.prim (num 5), [.prim (num 6)]⟩)),
    .pop (var nA) (some (lhs nZ)),
    .output (.prim (var nY)), .output (.prim (var nZ)), .output (.prim (var nI)),
    .output (.prim (.pop (var nA))) ]]⟩

/-- a function call, a loop left by `break`, `rock` and `roll` (statement and expression): the
    run succeeds, prints `3⏎5⏎3⏎6⏎`, and leaves exactly the global scope -/
example :
    let r := execProgram 12 progOk {}
    r.1.isOk = true ∧ r.2.out = [51, 10, 53, 10, 51, 10, 54, 10] ∧ r.2.scopes.length = 1 := by
  decide +kernel

/-- ```
    f takes x ⏎ give back -"s" ⏎ ⏎
    let a at f taking 1 be 2
    ``` -/
private def progErr : Program Int := ⟨[
  .mk l0 [ .func nF r0 [(nX, r0)]
            (.mk l0 [.ret (.un .minus (.prim (.lit (.str (str% "s")) r0)))]) ],
  .mk l0 [ .assign (.sub (var nA) (.call nF r0 [.prim (num 1)])) none ⟨.prim (num 2), []⟩ ]]⟩

/-- a run ending in a runtime error raised inside a function call made while evaluating the
    subscript of an assignment target: the error is captured by the write traversal, becomes
    fatal, renders as `cannot negate value "s"`, and the failed call has left its scope behind
    (two scopes) — the case that makes "at least as long" the right invariant on errors -/
example :
    let r := execProgram 12 progErr {}
    (match r.1 with | .err e => e.render | _ => []) = str% "cannot negate value \"s\""
    ∧ r.2.scopes.length = 2 := by
  decide +kernel

/-- with too little fuel the model answers `fuel` (neither success nor error nor crash) -/
example : (match (execProgram 2 progOk {}).1 with | .fuel => true | _ => false) = true := by
  decide +kernel

end Examples

end C09
end Rrss
